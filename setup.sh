#!/bin/bash
# Offline setup after a fresh restore: warm the build caches for the harness
# (plain and -race) against /repo's working tree. Nothing is downloaded.
set -e
cd "$(dirname "$0")"
. ./env.sh
mkdir -p evidence replays .run
H=/verif/harness
cat "$H/go.sum.base" /repo/go.sum | sort -u > "$H/go.sum"   # only for editors/IDE use; checks use a private modfile
(cd "$H" && go test -tags verif -count=1 -run '^$' ./... >/dev/null)
(cd "$H" && go test -tags verif -race -count=1 -run '^$' ./props/ >/dev/null)
echo "setup ok: $(go version)"
