#!/bin/bash
# Usage: ./check.sh <property-id> <quick|thorough>
#        VERIF_CASE=<n> ./check.sh <id> <tier>        (replay one case)
# Rebuilds the harness against /repo's current working tree (tag `verif`), runs
# the monitor(s) of one property, rewrites evidence/<id>.json and prints verdict
# lines.  exit 0 = held (KNOWN-FINDING lines allowed), 1 = VIOLATION,
# 3 = INCONCLUSIVE (build failure, crash of the checker, too few observations).
set -u
ID=${1:?property id}
TIER=${2:-quick}
cd "$(dirname "$0")"
. ./env.sh
if [ "$TIER" = replay ]; then
  # VERIF_REPLAY=<replay file> ./check.sh <id> replay : re-run the recorded case
  f=${VERIF_REPLAY:?set VERIF_REPLAY to a replay file}
  if jq -e .seed "$f" >/dev/null 2>&1; then
    export VERIF_SEED=$(jq -r .seed "$f") VERIF_CASE=$(jq -r .case "$f"); TIER=$(jq -r .tier "$f")
  else
    echo "replay file $f is a log (crash or race report), re-running the quick tier"; TIER=quick
  fi
fi
export VERIF_TIER=$TIER VERIF_SEED=${VERIF_SEED:-1}
H=/verif/harness
OUT=/verif/.run/$ID.$TIER.$$
mkdir -p "$OUT" /verif/evidence
trap '[ -n "${VERIF_KEEP:-}" ] && echo "kept $OUT" || rm -rf "$OUT"' EXIT

# per-property plan: package, race phases.  "norace" = only plain build,
# "race" = whole check under -race, "both" = plain main phase + a smaller race phase.
pkg=props
mode=norace
case "$ID" in
  C06|C19|C28|C29) mode=race ;;
  C07|C34) mode=plainrace ;;
  C01|C02|C04|C05|C16|C25) mode=both ;;
esac
tags=verif
snapfs=0
case "$ID" in C11|C12) snapfs=1; tags=verif,snapfs ;; esac
timeout_s=1500; [ "$TIER" = thorough ] && timeout_s=5400

REPO=${VERIF_REPO:-/repo}
# a private go.mod/go.sum pair (replace => $REPO) so nothing is written into the harness
# at check time and scratch copies of the repository can be checked (VERIF_REPO=<dir>)
sed "s#=> /repo#=> $REPO#" "$H/go.mod" > "$OUT/go.mod"
cat "$H/go.sum.base" "$REPO/go.sum" 2>/dev/null | sort -u > "$OUT/go.sum"
if [ "$REPO" != /repo ]; then export VERIF_EVIDENCE=${VERIF_EVIDENCE:-$OUT/evidence.json}; fi

overlay=()
if [ $snapfs = 1 ]; then
  # generated file-operation overlay for serf/snapshot.go (DESIGN 3.6)
  if ! (cd /verif/tools/fsshim && go build -o "$OUT/fsshim" . && "$OUT/fsshim" -repo "$REPO" -out "$OUT/overlay") >"$OUT/fsshim.log" 2>&1; then
    cat "$OUT/fsshim.log"
    echo "INCONCLUSIVE property=$ID reason=fsshim could not rewrite snapshot.go"
    exit 3
  fi
  overlay=(-overlay "$OUT/overlay/overlay.json")
fi

run_phase() { # $1 = phase name, $2.. = extra go test flags
  local phase=$1; shift
  export VERIF_PHASE=$phase VERIF_RESULT=$OUT/result.$phase VERIF_PHASE_FILE=$OUT/phase.race.json
  export GORACE="halt_on_error=0 log_path=$OUT/race.$phase"
  # compile only this property's cNN_test.go plus every helper file of the package, so that a
  # broken monitor of another property cannot take this check down
  local lid; lid=$(echo "$ID" | tr 'A-Z' 'a-z')
  # (files named on the command line are compiled whatever their build constraints say, so the
  # helpers that need the generated overlay are left out unless this is an overlay check)
  local skip='^c[0-9]+_test\.go$'; [ $snapfs = 0 ] && skip='^(c[0-9]+_test\.go|snapfs_.*)$'
  local files; files=$(cd "$H/$pkg" && ls *.go | grep -v -E "$skip" | sed "s#^#./$pkg/#" | tr '\n' ' ')
  (cd "$H" && timeout -s QUIT $((timeout_s+60)) go test -modfile="$OUT/go.mod" -tags $tags "${overlay[@]}" "$@" -count=1 -timeout ${timeout_s}s \
      -run "^Test${ID}\$" $files ./$pkg/${lid}_test.go ) >"$OUT/log.$phase" 2>&1
  local rc=$?
  echo $rc > "$OUT/rc.$phase"
}

if [ "$TIER" = compile ]; then
  # build-only smoke test of this check's binary (tools/buildall.sh)
  lid=$(echo "$ID" | tr 'A-Z' 'a-z')
  skip='^c[0-9]+_test\.go$'; [ $snapfs = 0 ] && skip='^(c[0-9]+_test\.go|snapfs_.*)$'
  files=$(cd "$H/$pkg" && ls *.go | grep -v -E "$skip" | sed "s#^#./$pkg/#" | tr '\n' ' ')
  (cd "$H" && go test -modfile="$OUT/go.mod" -tags $tags "${overlay[@]}" -count=1 -run '^$' $files ./$pkg/${lid}_test.go) 2>&1 | tail -5
  exit ${PIPESTATUS[0]}
fi

phases=()
case "$mode" in
  norace) run_phase main; phases=(main) ;;
  race)   run_phase main -race; phases=(main) ;;
  both)   run_phase race -race; run_phase main; phases=(race main) ;;
  plainrace) # a plain pre-phase (scheduling-sensitive part the race detector perturbs), then the whole check under -race
          VERIF_CARRY_OUT=$OUT/carry.json run_phase plain; VERIF_CARRY_IN=$OUT/carry.json run_phase main -race; phases=(plain main) ;;
esac

viol=0; inconc=0
for ph in "${phases[@]}"; do
  rc=$(cat "$OUT/rc.$ph")
  if [ -s "$OUT/result.$ph" ]; then
    cat "$OUT/result.$ph"
    grep -q '^VIOLATION ' "$OUT/result.$ph" && viol=1
    grep -q '^INCONCLUSIVE ' "$OUT/result.$ph" && inconc=1
  fi
  # race reports (attributed only when a serf frame is involved)
  if ls "$OUT"/race.$ph.* >/dev/null 2>&1; then
    mkdir -p /verif/replays/$ID
    VERIF_REPO=$REPO python3 /verif/tools/racesum.py "$ID" "/verif/replays/$ID/race-$VERIF_SEED-$TIER-$ph.txt" "$OUT"/race.$ph.* > "$OUT/racesum.$ph"
    cat "$OUT/racesum.$ph"
    grep -q '^VIOLATION ' "$OUT/racesum.$ph" && viol=1
    grep -q '^INCONCLUSIVE ' "$OUT/racesum.$ph" && inconc=1
  fi
  if [ ! -s "$OUT/result.$ph" ]; then
    # the checker died before writing a verdict: panic in serf => violation, else inconclusive
    mkdir -p /verif/replays/$ID
    crash=/verif/replays/$ID/crash-$VERIF_SEED-$TIER-$ph.log
    # only the crashing goroutine's own stack (first stack block after the panic line) decides
    if grep -q -E '^(panic:|fatal error:)' "$OUT/log.$ph" && awk '/^(panic:|fatal error:)/{on=1} on&&/^goroutine /{g++} on&&g==1{print} on&&g==1&&/^$/{exit}' "$OUT/log.$ph" | grep -v 'verif/harness' | grep -q 'github.com/hashicorp/serf/'; then
      tail -c 200000 "$OUT/log.$ph" > "$crash"
      echo "VIOLATION property=$ID replay=$crash"
      echo "  detail: checker process crashed inside serf code: $(grep -m1 -E '^(panic:|fatal error:)' "$OUT/log.$ph")"
      viol=1
    else
      tail -c 200000 "$OUT/log.$ph" > "$crash"
      echo "INCONCLUSIVE property=$ID reason=no verdict from phase $ph (go test rc=$rc), log $crash"
      tail -n 25 "$OUT/log.$ph"
      inconc=1
    fi
  elif [ "$rc" != 0 ] && [ $viol = 0 ]; then
    # test failed although the monitors reported nothing
    if grep -q 'race detected during execution' "$OUT/log.$ph"; then :; else
      echo "INCONCLUSIVE property=$ID reason=go test rc=$rc without a VIOLATION verdict in phase $ph"
      tail -n 25 "$OUT/log.$ph"
      inconc=1
    fi
  fi
done

[ $viol = 1 ] && exit 1
[ $inconc = 1 ] && exit 3
exit 0
