// Package wire is the harness's own mirror of serf's gossip wire format
// (msgpack structs keyed by Go field name, one leading type byte). It is
// written independently of serf/messages.go so it can serve as a third
// opinion on encodings and lets puppets speak the protocol.
package wire

import (
	"bytes"
	"net"
	"time"

	"github.com/hashicorp/go-msgpack/v2/codec"
)

const (
	Leave byte = iota
	Join
	PushPull
	UserEvent
	Query
	QueryResponse
	ConflictResponse
	KeyRequest
	KeyResponse
	Relay
)

const (
	FlagAck         uint32 = 1
	FlagNoBroadcast uint32 = 2
)

const (
	FilterNode byte = 0
	FilterTag  byte = 1
)

type MsgJoin struct {
	LTime uint64
	Node  string
}

type MsgLeave struct {
	LTime uint64
	Node  string
	Prune bool
}

type UserEv struct {
	Name    string
	Payload []byte
}

type UserEvents struct {
	LTime  uint64
	Events []UserEv
}

type MsgPushPull struct {
	LTime        uint64
	StatusLTimes map[string]uint64
	LeftMembers  []string
	EventLTime   uint64
	Events       []*UserEvents
	QueryLTime   uint64
}

type MsgUserEvent struct {
	LTime   uint64
	Name    string
	Payload []byte
	CC      bool
}

type MsgQuery struct {
	LTime       uint64
	ID          uint32
	Addr        []byte
	Port        uint16
	SourceNode  string
	Filters     [][]byte
	Flags       uint32
	RelayFactor uint8
	Timeout     time.Duration
	Name        string
	Payload     []byte
}

type MsgQueryResponse struct {
	LTime   uint64
	ID      uint32
	From    string
	Flags   uint32
	Payload []byte
}

type FilterTagT struct {
	Tag  string
	Expr string
}

type RelayHeader struct {
	DestAddr net.UDPAddr
	DestName string
}

type NodeKeyResponse struct {
	Result     bool
	Message    string
	Keys       []string
	PrimaryKey string
}

type KeyReq struct {
	Key []byte
}

// Member mirrors serf.Member for conflict responses.
type Member struct {
	Name        string
	Addr        net.IP
	Port        uint16
	Tags        map[string]string
	Status      int
	ProtocolMin uint8
	ProtocolMax uint8
	ProtocolCur uint8
	DelegateMin uint8
	DelegateMax uint8
	DelegateCur uint8
}

// Encode prefixes the type byte and msgpack-encodes v.
func Encode(t byte, v any) []byte {
	buf := bytes.NewBuffer(nil)
	buf.WriteByte(t)
	h := codec.MsgpackHandle{}
	h.TimeNotBuiltin = true
	if err := codec.NewEncoder(buf, &h).Encode(v); err != nil {
		panic(err)
	}
	return buf.Bytes()
}

// EncodeBody msgpack-encodes v without a type byte.
func EncodeBody(v any) []byte {
	buf := bytes.NewBuffer(nil)
	h := codec.MsgpackHandle{}
	if err := codec.NewEncoder(buf, &h).Encode(v); err != nil {
		panic(err)
	}
	return buf.Bytes()
}

// Decode decodes the body (without the type byte) into out.
func Decode(body []byte, out any) error {
	h := codec.MsgpackHandle{}
	return codec.NewDecoder(bytes.NewReader(body), &h).Decode(out)
}

// EncodeFilterNodes encodes a node-name filter.
func EncodeFilterNodes(names []string) []byte {
	return append([]byte{FilterNode}, EncodeBody(names)...)
}

// EncodeFilterTag encodes a tag filter.
func EncodeFilterTag(tag, expr string) []byte {
	return append([]byte{FilterTag}, EncodeBody(&FilterTagT{tag, expr})...)
}

// EncodeRelay wraps an already-encoded message (with its type byte) in a relay envelope.
func EncodeRelay(dest net.UDPAddr, name string, inner []byte) []byte {
	buf := bytes.NewBuffer(nil)
	buf.WriteByte(Relay)
	h := codec.MsgpackHandle{}
	if err := codec.NewEncoder(buf, &h).Encode(RelayHeader{DestAddr: dest, DestName: name}); err != nil {
		panic(err)
	}
	buf.Write(inner)
	return buf.Bytes()
}

// DecodeRelay splits a relay envelope (buf includes the leading Relay byte).
func DecodeRelay(buf []byte) (RelayHeader, []byte, error) {
	var hdr RelayHeader
	r := bytes.NewReader(buf[1:])
	h := codec.MsgpackHandle{}
	if err := codec.NewDecoder(r, &h).Decode(&hdr); err != nil {
		return hdr, nil, err
	}
	rest := make([]byte, r.Len())
	_, _ = r.Read(rest)
	return hdr, rest, nil
}

// EncodeTags encodes a tag map as serf does from protocol 3 on.
func EncodeTags(tags map[string]string) []byte {
	return append([]byte{255}, EncodeBody(tags)...)
}
