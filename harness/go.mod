module verif/harness

go 1.25.0

require (
	github.com/anishathalye/porcupine v1.3.0
	github.com/hashicorp/go-msgpack/v2 v2.1.5
	github.com/hashicorp/memberlist v0.5.4
	github.com/hashicorp/serf v0.0.0
)

require (
	github.com/armon/go-metrics v0.4.1 // indirect
	github.com/google/btree v1.1.3 // indirect
	github.com/hashicorp/errwrap v1.1.0 // indirect
	github.com/hashicorp/go-immutable-radix v1.3.1 // indirect
	github.com/hashicorp/go-metrics v0.6.0 // indirect
	github.com/hashicorp/go-multierror v1.1.1 // indirect
	github.com/hashicorp/go-sockaddr v1.0.7 // indirect
	github.com/hashicorp/golang-lru v1.0.2 // indirect
	github.com/miekg/dns v1.1.72 // indirect
	github.com/sean-/seed v0.0.0-20170313163322-e2103e2c3529 // indirect
	golang.org/x/net v0.56.0 // indirect
	golang.org/x/sys v0.46.0 // indirect
)

replace github.com/hashicorp/serf => /repo
