module verif/harness

go 1.25.0

require (
	github.com/anishathalye/porcupine v1.3.0
	github.com/hashicorp/go-msgpack/v2 v2.1.5
	github.com/hashicorp/memberlist v0.5.4
	github.com/hashicorp/serf v0.0.0
)

require (
	github.com/Masterminds/goutils v1.1.1 // indirect
	github.com/Masterminds/semver/v3 v3.2.0 // indirect
	github.com/Masterminds/sprig/v3 v3.2.3 // indirect
	github.com/armon/circbuf v0.0.0-20150827004946-bbbad097214e // indirect
	github.com/armon/go-metrics v0.4.1 // indirect
	github.com/armon/go-radix v1.0.0 // indirect
	github.com/bgentry/speakeasy v0.1.0 // indirect
	github.com/fatih/color v1.16.0 // indirect
	github.com/go-viper/mapstructure/v2 v2.5.0 // indirect
	github.com/google/btree v1.1.3 // indirect
	github.com/google/uuid v1.1.2 // indirect
	github.com/hashicorp/cli v1.1.7 // indirect
	github.com/hashicorp/errwrap v1.1.0 // indirect
	github.com/hashicorp/go-immutable-radix v1.3.1 // indirect
	github.com/hashicorp/go-metrics v0.6.0 // indirect
	github.com/hashicorp/go-multierror v1.1.1 // indirect
	github.com/hashicorp/go-sockaddr v1.0.7 // indirect
	github.com/hashicorp/go-syslog v1.0.0 // indirect
	github.com/hashicorp/golang-lru v1.0.2 // indirect
	github.com/hashicorp/logutils v1.0.0 // indirect
	github.com/hashicorp/mdns v1.0.7 // indirect
	github.com/huandu/xstrings v1.3.3 // indirect
	github.com/imdario/mergo v0.3.11 // indirect
	github.com/mattn/go-colorable v0.1.13 // indirect
	github.com/mattn/go-isatty v0.0.20 // indirect
	github.com/miekg/dns v1.1.72 // indirect
	github.com/mitchellh/copystructure v1.0.0 // indirect
	github.com/mitchellh/reflectwalk v1.0.0 // indirect
	github.com/posener/complete v1.2.3 // indirect
	github.com/sean-/seed v0.0.0-20170313163322-e2103e2c3529 // indirect
	github.com/shopspring/decimal v1.2.0 // indirect
	github.com/spf13/cast v1.3.1 // indirect
	golang.org/x/crypto v0.53.0 // indirect
	golang.org/x/net v0.56.0 // indirect
	golang.org/x/sys v0.46.0 // indirect
)

replace github.com/hashicorp/serf => /repo
