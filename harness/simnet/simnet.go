// Package simnet is an in-memory, fault-injecting implementation of
// memberlist.NodeAwareTransport. It works inside a testing/synctest bubble
// (everything is channels, net.Pipe and time) and in real time.
package simnet

import (
	"errors"
	"fmt"
	"math/rand"
	"net"
	"strconv"
	"sync"
	"sync/atomic"
	"time"

	"github.com/hashicorp/memberlist"
)

// PacketInfo describes one packet handed to the network.
type PacketInfo struct {
	From, To string
	Buf      []byte
	Verdict  string // "ok", "cut", "loss", "nodest", "full", "dup"
}

// Net is one simulated network.
type Net struct {
	mu       sync.Mutex
	nodes    map[string]*Transport // by ip:port
	rng      *rand.Rand
	cut      map[[2]string]bool // directional: from -> to
	loss     float64
	dup      float64
	maxDelay time.Duration

	// OnPacket, if set, observes every packet (called without locks held for ok packets).
	OnPacket func(PacketInfo)
	// OnStream, if set, observes every stream dial (from, to, verdict).
	OnStream func(from, to, verdict string)

	Packets, Dropped, Streams, StreamsRefused atomic.Int64
}

// New creates a network whose fault decisions come from seed.
func New(seed int64) *Net {
	return &Net{nodes: map[string]*Transport{}, rng: rand.New(rand.NewSource(seed)), cut: map[[2]string]bool{}}
}

// SetLoss sets per-packet loss and duplication probabilities and a max random delay.
func (n *Net) SetLoss(loss, dup float64, maxDelay time.Duration) {
	n.mu.Lock()
	n.loss, n.dup, n.maxDelay = loss, dup, maxDelay
	n.mu.Unlock()
}

// Cut blocks traffic from a to b (directional).
func (n *Net) Cut(a, b string) {
	n.mu.Lock()
	n.cut[[2]string{a, b}] = true
	n.mu.Unlock()
}

// Partition cuts both directions between every node of A and every node of B.
func (n *Net) Partition(A, B []string) {
	n.mu.Lock()
	for _, a := range A {
		for _, b := range B {
			n.cut[[2]string{a, b}] = true
			n.cut[[2]string{b, a}] = true
		}
	}
	n.mu.Unlock()
}

// Heal removes all cuts, loss, duplication and delay.
func (n *Net) Heal() {
	n.mu.Lock()
	n.cut = map[[2]string]bool{}
	n.loss, n.dup, n.maxDelay = 0, 0, 0
	n.mu.Unlock()
}

// HealCuts removes cuts only.
func (n *Net) HealCuts() {
	n.mu.Lock()
	n.cut = map[[2]string]bool{}
	n.mu.Unlock()
}

// Transport is one endpoint.
type Transport struct {
	net      *Net
	addr     string
	ip       net.IP
	port     int
	packetCh chan *memberlist.Packet
	streamCh chan net.Conn
	down     atomic.Bool
	// Silent endpoints accept packets into a log and never answer (used as
	// recording sinks for fake members).
	Silent bool
	recvMu sync.Mutex
	recv   [][]byte
}

var _ memberlist.NodeAwareTransport = (*Transport)(nil)

// NewTransport registers an endpoint at ip:port.
func (n *Net) NewTransport(ip string, port int) *Transport {
	t := &Transport{net: n, ip: net.ParseIP(ip), port: port, addr: net.JoinHostPort(ip, strconv.Itoa(port)),
		packetCh: make(chan *memberlist.Packet, 4096), streamCh: make(chan net.Conn, 64)}
	n.mu.Lock()
	n.nodes[t.addr] = t
	n.mu.Unlock()
	return t
}

// NewSink registers a silent recording endpoint.
func (n *Net) NewSink(ip string, port int) *Transport {
	t := n.NewTransport(ip, port)
	t.Silent = true
	return t
}

// Received returns packets received by a silent sink.
func (t *Transport) Received() [][]byte {
	t.recvMu.Lock()
	defer t.recvMu.Unlock()
	return append([][]byte(nil), t.recv...)
}

// Addr returns ip:port.
func (t *Transport) Addr() string { return t.addr }

// IP returns the ip.
func (t *Transport) IP() net.IP { return t.ip }

// Port returns the port.
func (t *Transport) Port() int { return t.port }

func (t *Transport) FinalAdvertiseAddr(string, int) (net.IP, int, error) {
	return t.ip, t.port, nil
}

func (t *Transport) WriteTo(b []byte, addr string) (time.Time, error) {
	return t.WriteToAddress(b, memberlist.Address{Addr: addr})
}

func (t *Transport) WriteToAddress(b []byte, a memberlist.Address) (time.Time, error) {
	now := time.Now()
	if t.down.Load() {
		return now, errors.New("simnet: transport shut down")
	}
	n := t.net
	n.Packets.Add(1)
	buf := append([]byte(nil), b...)
	n.mu.Lock()
	dest := n.nodes[a.Addr]
	verdict := "ok"
	copies := 1
	var delay time.Duration
	switch {
	case dest == nil || dest.down.Load():
		verdict = "nodest"
	case n.cut[[2]string{t.addr, a.Addr}]:
		verdict = "cut"
	case n.loss > 0 && n.rng.Float64() < n.loss:
		verdict = "loss"
	default:
		if n.dup > 0 && n.rng.Float64() < n.dup {
			copies = 2
		}
		if n.maxDelay > 0 {
			delay = time.Duration(n.rng.Int63n(int64(n.maxDelay)))
		}
	}
	cb := n.OnPacket
	n.mu.Unlock()
	if cb != nil {
		cb(PacketInfo{From: t.addr, To: a.Addr, Buf: buf, Verdict: verdict})
	}
	if verdict != "ok" {
		n.Dropped.Add(1)
		return now, nil // UDP: silently lost
	}
	from := &net.UDPAddr{IP: t.ip, Port: t.port}
	deliver := func() {
		if dest.down.Load() {
			return
		}
		if dest.Silent {
			dest.recvMu.Lock()
			dest.recv = append(dest.recv, buf)
			dest.recvMu.Unlock()
			return
		}
		select {
		case dest.packetCh <- &memberlist.Packet{Buf: append([]byte(nil), buf...), From: from, Timestamp: time.Now()}:
		default:
			n.Dropped.Add(1)
		}
	}
	for i := 0; i < copies; i++ {
		if delay > 0 {
			time.AfterFunc(delay, deliver)
		} else {
			deliver()
		}
	}
	return now, nil
}

func (t *Transport) PacketCh() <-chan *memberlist.Packet { return t.packetCh }

func (t *Transport) DialTimeout(addr string, timeout time.Duration) (net.Conn, error) {
	return t.DialAddressTimeout(memberlist.Address{Addr: addr}, timeout)
}

func (t *Transport) DialAddressTimeout(a memberlist.Address, timeout time.Duration) (net.Conn, error) {
	if t.down.Load() {
		return nil, errors.New("simnet: transport shut down")
	}
	n := t.net
	n.Streams.Add(1)
	n.mu.Lock()
	dest := n.nodes[a.Addr]
	blocked := n.cut[[2]string{t.addr, a.Addr}] || n.cut[[2]string{a.Addr, t.addr}]
	cb := n.OnStream
	n.mu.Unlock()
	if dest == nil || dest.down.Load() || dest.Silent {
		n.StreamsRefused.Add(1)
		if cb != nil {
			cb(t.addr, a.Addr, "refused")
		}
		return nil, fmt.Errorf("simnet: dial %s: connection refused", a.Addr)
	}
	if blocked {
		n.StreamsRefused.Add(1)
		if cb != nil {
			cb(t.addr, a.Addr, "timeout")
		}
		if timeout > 0 {
			time.Sleep(timeout)
		}
		return nil, fmt.Errorf("simnet: dial %s: i/o timeout", a.Addr)
	}
	c1, c2 := net.Pipe()
	select {
	case dest.streamCh <- &conn{Conn: c2, local: dest.tcpAddr(), remote: t.tcpAddr()}:
	default:
		c1.Close()
		c2.Close()
		return nil, fmt.Errorf("simnet: dial %s: backlog full", a.Addr)
	}
	if cb != nil {
		cb(t.addr, a.Addr, "ok")
	}
	return &conn{Conn: c1, local: t.tcpAddr(), remote: dest.tcpAddr()}, nil
}

func (t *Transport) tcpAddr() net.Addr { return &net.TCPAddr{IP: t.ip, Port: t.port} }

func (t *Transport) StreamCh() <-chan net.Conn { return t.streamCh }

// Shutdown takes the endpoint off the network (idempotent).
func (t *Transport) Shutdown() error {
	if t.down.Swap(true) {
		return nil
	}
	n := t.net
	n.mu.Lock()
	if n.nodes[t.addr] == t {
		delete(n.nodes, t.addr)
	}
	n.mu.Unlock()
	// close any not-yet-accepted streams so dialers do not hang
	for {
		select {
		case c := <-t.streamCh:
			c.Close()
		default:
			return nil
		}
	}
}

// Inject delivers a raw packet to this endpoint as if sent from `from`.
func (t *Transport) Inject(from *net.UDPAddr, buf []byte) {
	select {
	case t.packetCh <- &memberlist.Packet{Buf: append([]byte(nil), buf...), From: from, Timestamp: time.Now()}:
	default:
	}
}

type conn struct {
	net.Conn
	local, remote net.Addr
}

func (c *conn) LocalAddr() net.Addr  { return c.local }
func (c *conn) RemoteAddr() net.Addr { return c.remote }
