// Package evid is the evidence / verdict / known-findings plumbing shared by
// every monitor. A Run collects what the monitors observed, writes
// /verif/evidence/<id>.json on Finish and a verdict file that check.sh turns
// into the exit status.
package evid

import (
	"encoding/json"
	"fmt"
	"hash/fnv"
	"math/rand"
	"os"
	"path/filepath"
	"runtime"
	"sort"
	"strconv"
	"strings"
	"sync"
	"testing"
	"time"
)

// Finding is one line of /verif/known_findings.jsonl.
type Finding struct {
	Property string `json:"property"`
	Status   string `json:"status"` // "known" | "fixed"
	Key      string `json:"key"`    // failing-input class computed by the monitor
	What     string `json:"what"`
	Commit   string `json:"commit,omitempty"`
}

type violation struct {
	Key     string `json:"key"`
	Msg     string `json:"msg"`
	Case    int    `json:"case"`
	Witness any    `json:"witness,omitempty"`
}

// Run is one execution of one property check.
type Run struct {
	T     *testing.T
	ID    string
	Level string
	Tier  string
	Seed  int64

	mu           sync.Mutex
	start        time.Time
	evals        int64
	distinct     map[uint64]struct{}
	counters     map[string]int64
	samples      []any
	maxSamples   int
	viols        []violation
	violCount    int64
	known        map[string]int64 // key -> count
	knownWhat    map[string]string
	findings     []Finding
	inconclusive []string
	onlyCase     int
	exhaustive   *bool
	extra        map[string]any
	replayFiles  []string
	finished     bool
}

func root() string {
	if r := os.Getenv("VERIF_ROOT"); r != "" {
		return r
	}
	return "/verif"
}

// Start begins a run. level is the evidence level ("exploration", "fault_enumeration").
func Start(t *testing.T, id, level string) *Run {
	tier := os.Getenv("VERIF_TIER")
	if tier != "thorough" {
		tier = "quick"
	}
	seed := int64(1)
	if s := os.Getenv("VERIF_SEED"); s != "" {
		if v, err := strconv.ParseInt(s, 10, 64); err == nil {
			seed = v
		}
	}
	only := -1
	if s := os.Getenv("VERIF_CASE"); s != "" {
		if v, err := strconv.Atoi(s); err == nil {
			only = v
		}
	}
	r := &Run{T: t, ID: id, Level: level, Tier: tier, Seed: seed, start: time.Now(),
		distinct: map[uint64]struct{}{}, counters: map[string]int64{}, maxSamples: 6,
		known: map[string]int64{}, knownWhat: map[string]string{}, onlyCase: only, extra: map[string]any{}}
	r.loadFindings()
	return r
}

func (r *Run) loadFindings() {
	b, err := os.ReadFile(filepath.Join(root(), "known_findings.jsonl"))
	if err != nil {
		return
	}
	for _, line := range strings.Split(string(b), "\n") {
		line = strings.TrimSpace(line)
		if line == "" || strings.HasPrefix(line, "#") {
			continue
		}
		var f Finding
		if json.Unmarshal([]byte(line), &f) == nil {
			r.findings = append(r.findings, f)
		}
	}
}

// Quick reports whether this is the quick tier.
func (r *Run) Quick() bool { return r.Tier != "thorough" }

// N picks a count by tier.
func (r *Run) N(quick, thorough int) int {
	if r.Quick() {
		return quick
	}
	return thorough
}

func hash64(parts ...string) uint64 {
	h := fnv.New64a()
	for _, p := range parts {
		h.Write([]byte(p))
		h.Write([]byte{0})
	}
	return h.Sum64()
}

// Rand returns a PRNG derived from the run seed, the property id and sub.
func (r *Run) Rand(sub string) *rand.Rand {
	return rand.New(rand.NewSource(int64(hash64(r.ID, strconv.FormatInt(r.Seed, 10), sub))))
}

// CaseRand is the PRNG of case i (so a case can be replayed alone with VERIF_CASE=i).
func (r *Run) CaseRand(group string, i int) *rand.Rand {
	return r.Rand(group + "#" + strconv.Itoa(i))
}

// Cases runs fn for cases 0..n-1 on `workers` goroutines (0 = GOMAXPROCS). Each
// case gets its own PRNG. VERIF_CASE restricts to one case (replay).
func (r *Run) Cases(group string, n, workers int, fn func(i int, rng *rand.Rand)) {
	if workers <= 0 {
		workers = runtime.GOMAXPROCS(0)
	}
	if workers > n {
		workers = n
	}
	if workers < 1 {
		workers = 1
	}
	var wg sync.WaitGroup
	ch := make(chan int, workers)
	for w := 0; w < workers; w++ {
		wg.Add(1)
		go func() {
			defer wg.Done()
			for i := range ch {
				// each case in its own goroutine: under -race synctest.Test may end the calling
				// goroutine (t.FailNow => Goexit) and must not take the worker with it
				done := make(chan struct{})
				go func() {
					defer close(done)
					fn(i, r.CaseRand(group, i))
				}()
				<-done
			}
		}()
	}
	for i := 0; i < n; i++ {
		if r.onlyCase >= 0 && i != r.onlyCase {
			continue
		}
		ch <- i
	}
	close(ch)
	wg.Wait()
}

// Eval adds n executed cases.
func (r *Run) Eval(n int) {
	r.mu.Lock()
	r.evals += int64(n)
	r.mu.Unlock()
}

// Distinct records the signature of a non-trivial case.
func (r *Run) Distinct(sig string) {
	h := hash64(sig)
	r.mu.Lock()
	r.distinct[h] = struct{}{}
	r.mu.Unlock()
}

// Count adds to a named observation counter.
func (r *Run) Count(name string, n int) {
	r.mu.Lock()
	r.counters[name] += int64(n)
	r.mu.Unlock()
}

// Counter reads a counter.
func (r *Run) Counter(name string) int64 {
	r.mu.Lock()
	defer r.mu.Unlock()
	return r.counters[name]
}

// Max keeps the maximum of a named gauge.
func (r *Run) Max(name string, v int64) {
	r.mu.Lock()
	if v > r.counters[name] {
		r.counters[name] = v
	}
	r.mu.Unlock()
}

// Sample keeps a few concrete cases.
func (r *Run) Sample(v any) {
	r.mu.Lock()
	if len(r.samples) < r.maxSamples {
		r.samples = append(r.samples, v)
	}
	r.mu.Unlock()
}

// Extra sets a free-form coverage key.
func (r *Run) Extra(k string, v any) {
	r.mu.Lock()
	r.extra[k] = v
	r.mu.Unlock()
}

// Exhaustive marks whether a finite space was fully enumerated.
func (r *Run) Exhaustive(b bool) {
	r.mu.Lock()
	r.exhaustive = &b
	r.mu.Unlock()
}

// Inconclusive records a reason why the run cannot decide.
func (r *Run) Inconclusive(reason string) {
	r.mu.Lock()
	r.inconclusive = append(r.inconclusive, reason)
	r.mu.Unlock()
}

// Violation records a violation. key is the failing-input class (stable,
// computed from the input) that known_findings.jsonl is matched against.
func (r *Run) Violation(key string, caseIdx int, msg string, witness any) {
	r.mu.Lock()
	defer r.mu.Unlock()
	for _, f := range r.findings {
		if f.Property == r.ID && f.Status == "known" && f.Key == key {
			r.known[key]++
			r.knownWhat[key] = f.What
			return
		}
	}
	r.violCount++
	if len(r.viols) < 8 {
		r.viols = append(r.viols, violation{Key: key, Msg: msg, Case: caseIdx, Witness: witness})
	}
}

// Violations returns the number of (unlisted) violations so far.
func (r *Run) Violations() int64 {
	r.mu.Lock()
	defer r.mu.Unlock()
	return r.violCount
}

// Finish writes evidence + verdict. rule explains generation/non-triviality;
// floor is the minimum distinct_nontrivial below which the run is inconclusive.
func (r *Run) Finish(rule string, floor int, assumptions ...string) {
	r.mu.Lock()
	defer r.mu.Unlock()
	if r.finished {
		return
	}
	r.finished = true
	wall := time.Since(r.start).Seconds()
	if r.onlyCase < 0 && len(r.distinct) < floor {
		r.inconclusive = append(r.inconclusive,
			fmt.Sprintf("distinct_nontrivial %d below floor %d", len(r.distinct), floor))
	}
	var verdict []string
	// replay files
	dir := filepath.Join(root(), "replays", r.ID)
	for i, v := range r.viols {
		_ = os.MkdirAll(dir, 0o755)
		p := filepath.Join(dir, fmt.Sprintf("%d-%s-%d.json", r.Seed, r.Tier, i))
		b, _ := json.MarshalIndent(map[string]any{
			"property": r.ID, "seed": r.Seed, "tier": r.Tier, "case": v.Case,
			"key": v.Key, "message": v.Msg, "witness": v.Witness,
			"replay": fmt.Sprintf("VERIF_SEED=%d VERIF_TIER=%s VERIF_CASE=%d ./check.sh %s %s", r.Seed, r.Tier, v.Case, r.ID, r.Tier),
		}, "", " ")
		_ = os.WriteFile(p, b, 0o644)
		r.replayFiles = append(r.replayFiles, p)
		verdict = append(verdict, fmt.Sprintf("VIOLATION property=%s replay=%s", r.ID, p))
		verdict = append(verdict, fmt.Sprintf("  detail: key=%s case=%d %s", v.Key, v.Case, oneLine(v.Msg)))
	}
	if r.violCount > int64(len(r.viols)) {
		verdict = append(verdict, fmt.Sprintf("  (+%d more violations not written out)", r.violCount-int64(len(r.viols))))
	}
	keys := make([]string, 0, len(r.known))
	for k := range r.known {
		keys = append(keys, k)
	}
	sort.Strings(keys)
	for _, k := range keys {
		verdict = append(verdict, fmt.Sprintf("KNOWN-FINDING: property=%s %s [key=%s, seen %d times]", r.ID, r.knownWhat[k], k, r.known[k]))
	}
	for _, s := range r.inconclusive {
		verdict = append(verdict, fmt.Sprintf("INCONCLUSIVE property=%s reason=%s", r.ID, oneLine(s)))
	}
	status := "held"
	if r.violCount > 0 {
		status = "violated"
	} else if len(r.inconclusive) > 0 {
		status = "inconclusive"
	}
	verdict = append(verdict, fmt.Sprintf("RESULT property=%s status=%s evaluations=%d distinct_nontrivial=%d wall_s=%.1f", r.ID, status, r.evals, len(r.distinct), wall))

	cov := map[string]any{
		"evaluations":         r.evals,
		"distinct_nontrivial": len(r.distinct),
		"rule":                rule,
		"samples":             r.samples,
		"observed":            r.counters,
		"verdict":             status,
	}
	if len(r.samples) == 0 {
		cov["samples"] = []any{"(no sample recorded)"}
	}
	if r.exhaustive != nil {
		cov["exhaustive"] = *r.exhaustive
	}
	if len(r.known) > 0 {
		cov["known_findings_seen"] = r.known
	}
	if len(r.inconclusive) > 0 {
		cov["inconclusive"] = r.inconclusive
	}
	if len(r.replayFiles) > 0 {
		cov["replay_files"] = r.replayFiles
	}
	for k, v := range r.extra {
		cov[k] = v
	}
	// a check made of two builds (plain pre-phase, then the main phase under -race): the
	// pre-phase hands its observations to the main phase, whose evidence file is the final one
	if p := os.Getenv("VERIF_CARRY_OUT"); p != "" {
		cb, _ := json.Marshal(map[string]any{"evaluations": r.evals, "distinct": len(r.distinct), "observed": r.counters, "verdict": status, "wall_s": wall})
		_ = os.WriteFile(p, cb, 0o644)
	}
	if p := os.Getenv("VERIF_CARRY_IN"); p != "" {
		if cb, err := os.ReadFile(p); err == nil {
			var carried map[string]any
			if json.Unmarshal(cb, &carried) == nil {
				cov["plain_build_phase"] = carried
			}
		}
	}
	ev := map[string]any{
		"property_id": r.ID, "tier": r.Tier, "seed": r.Seed, "level": r.Level,
		"coverage": cov, "assumptions": assumptions, "wall_s": wall, "violations": r.violCount,
	}
	if assumptions == nil {
		ev["assumptions"] = []string{}
	}
	b, err := json.MarshalIndent(ev, "", " ")
	if err != nil {
		b, _ = json.Marshal(map[string]any{"property_id": r.ID, "error": err.Error()})
	}
	evPath := os.Getenv("VERIF_EVIDENCE")
	if evPath == "" {
		evPath = filepath.Join(root(), "evidence", r.ID+".json")
	}
	if r.onlyCase < 0 {
		_ = os.MkdirAll(filepath.Dir(evPath), 0o755)
		_ = os.WriteFile(evPath, b, 0o644)
	}
	if p := os.Getenv("VERIF_RESULT"); p != "" {
		_ = os.WriteFile(p, []byte(strings.Join(verdict, "\n")+"\n"), 0o644)
	}
	for _, l := range verdict {
		r.T.Log(l)
	}
	if r.violCount > 0 {
		r.T.Fail()
	}
}

func oneLine(s string) string {
	s = strings.ReplaceAll(s, "\n", " | ")
	if len(s) > 600 {
		s = s[:600] + "…"
	}
	return s
}
