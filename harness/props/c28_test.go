package props

import (
	"bufio"
	"bytes"
	"encoding/json"
	"fmt"
	"hash/fnv"
	"io"
	"log"
	"math/rand"
	"net"
	"os"
	"os/exec"
	"path/filepath"
	"regexp"
	"runtime"
	"sort"
	"strings"
	"sync"
	"sync/atomic"
	"syscall"
	"testing"
	"time"

	"github.com/hashicorp/go-msgpack/v2/codec"
	"github.com/hashicorp/serf/client"

	"verif/harness/evid"
)

// C28: the RPC client never panics, never sends on a subscriber channel after
// closing it and closes every subscriber channel exactly once, whatever the
// interleaving of incoming stream / monitor / query records with Stop and Close.
//
// A violation is a process panic ("send on closed channel", "close of closed
// channel"), so the trials run in CHILD processes (this test binary re-executed
// with VERIF_C28_CHILD=<spec file>, DESIGN 3.5). A child logs every trial to a
// file before starting it and appends one result line after it; the parent
// classifies the exit (panic with a stack inside github.com/hashicorp/serf/client
// => violation, witness = last logged trial), restarts the batch after the
// crashing trial and finally reads the children's race-detector logs
// (GORACE=halt_on_error=0 log_path=...): a report whose both accesses belong to
// <repo>/client is a violation with key "data-race".
//
// Inside a child the client under test talks over loopback TCP to a scripted fake
// agent in the same process. Trial classes:
//
//	det-stop    a record is sent header-only; the test waits until the client's
//	            reader goroutine is parked inside <kind>Handler.Handle (blocked in
//	            Decode on the missing body - observed in the goroutine dump, no
//	            sleeps as verdicts), calls Stop; the fake agent releases the body
//	            only after it has READ the stop request, i.e. after Stop has
//	            deregistered the handler and closed the subscriber channel.
//	det-close   same parking, then Close (the body can never arrive; checks
//	            close-exactly-once on the Close path with a reader inside Handle).
//	flood       free-running record floods on 1-3 subscriptions (single and split
//	            writes, poison bodies, query acks/responses/done) against Stops
//	            issued after k received records and a Close at a random point.
//	setup-close Close racing with Stream/Monitor/Query while the initial
//	            response is in flight.
//
// After every Stop/Close the monitor requires the subscriber channels to be
// closed (a receive must report closed without blocking).

// ---------------------------------------------------------------- wire

type c28ReqHdr struct {
	Command string
	Seq     uint64
}

type c28RespHdr struct {
	Seq   uint64
	Error string
}

type c28Req struct {
	Cmd  string
	Seq  uint64
	Stop uint64
}

func c28Handle() *codec.MsgpackHandle {
	return &codec.MsgpackHandle{WriteExt: true}
}

func c28Enc(vs ...any) []byte {
	var buf bytes.Buffer
	e := codec.NewEncoder(&buf, c28Handle())
	for _, v := range vs {
		if err := e.Encode(v); err != nil {
			panic("c28 harness: encode: " + err.Error())
		}
	}
	return buf.Bytes()
}

// ---------------------------------------------------------------- fake agent

type c28Agent struct {
	ln   net.Listener
	addr string

	mu   sync.Mutex
	conn net.Conn
	wmu  sync.Mutex

	reqs chan c28Req
	eof  chan struct{}

	// flood mode: the reader answers stop requests itself and reports them here
	autoStop atomic.Bool
	onStop   func(handle uint64)
}

func c28NewAgent() (*c28Agent, error) {
	ln, err := net.Listen("tcp", "127.0.0.1:0")
	if err != nil {
		return nil, err
	}
	a := &c28Agent{ln: ln, addr: ln.Addr().String(), reqs: make(chan c28Req, 256), eof: make(chan struct{})}
	go a.serve()
	return a, nil
}

func (a *c28Agent) serve() {
	defer close(a.eof)
	conn, err := a.ln.Accept()
	if err != nil {
		return
	}
	a.mu.Lock()
	a.conn = conn
	a.mu.Unlock()
	dec := codec.NewDecoder(bufio.NewReader(conn), c28Handle())
	for {
		var rh c28ReqHdr
		if err := dec.Decode(&rh); err != nil {
			return
		}
		req := c28Req{Cmd: rh.Command, Seq: rh.Seq}
		switch rh.Command {
		case "members", "leave", "stats", "list-keys":
		case "stop":
			var b struct{ Stop uint64 }
			if err := dec.Decode(&b); err != nil {
				return
			}
			req.Stop = b.Stop
		default:
			var v any
			if err := dec.Decode(&v); err != nil {
				return
			}
		}
		switch {
		case rh.Command == "handshake":
			a.write(c28Enc(c28RespHdr{Seq: rh.Seq}))
		case rh.Command == "stop" && a.autoStop.Load():
			if a.onStop != nil {
				a.onStop(req.Stop)
			}
			a.write(c28Enc(c28RespHdr{Seq: rh.Seq}))
		default:
			select {
			case a.reqs <- req:
			default:
			}
		}
	}
}

func (a *c28Agent) write(b []byte) error {
	a.mu.Lock()
	c := a.conn
	a.mu.Unlock()
	if c == nil {
		return io.ErrClosedPipe
	}
	a.wmu.Lock()
	defer a.wmu.Unlock()
	_ = c.SetWriteDeadline(time.Now().Add(60 * time.Second))
	_, err := c.Write(b)
	return err
}

func (a *c28Agent) close() {
	a.ln.Close()
	a.mu.Lock()
	if a.conn != nil {
		a.conn.Close()
	}
	a.mu.Unlock()
}

// ---------------------------------------------------------------- trials (child side)

const c28Watchdog = 60 * time.Second

// c28Cur is the result of the trial in progress (trials run one at a time).
var c28Cur *c28Result

// c28Fail marks the running trial as stuck/inconclusive and ends the trial
// goroutine (deferred cleanups run). No recover() anywhere: a genuine panic must
// crash the child with its original stack.
func c28Fail(what string) {
	c28ResMu.Lock()
	if c28Cur != nil && c28Cur.Inconc == "" {
		c28Cur.Inconc = what
	}
	c28ResMu.Unlock()
	runtime.Goexit()
}

func c28WaitErr(ch <-chan error, what string) error {
	select {
	case err := <-ch:
		return err
	case <-time.After(c28Watchdog):
		c28Fail("watchdog: " + what)
		return nil
	}
}

func (a *c28Agent) next(cmd string) c28Req {
	select {
	case r := <-a.reqs:
		if r.Cmd != cmd {
			c28Fail(fmt.Sprintf("fake agent expected %q request, got %q", cmd, r.Cmd))
		}
		return r
	case <-a.eof:
		c28Fail("fake agent: connection ended while waiting for " + cmd)
	case <-time.After(c28Watchdog):
		c28Fail("watchdog: fake agent waiting for " + cmd + " request")
	}
	return c28Req{}
}

type c28Params struct {
	I     int    `json:"i"`
	Kind  string `json:"kind"`  // primary subscription kind: stream | monitor | query
	Class string `json:"class"` // det-stop | det-close | flood | setup-close
	Cap   int    `json:"cap"`
	Pre   int    `json:"pre"`
	Stops int    `json:"stops"` // det-stop: number of Stop calls (2 = concurrent)
	Extra string `json:"extra"` // det: a second live subscription of this kind
	// flood
	Kinds     []string `json:"kinds,omitempty"`
	Caps      []int    `json:"caps,omitempty"`
	StopAfter []int    `json:"stop_after,omitempty"` // per subscription: Stop after that many received records (-1 never)
	Tail      []int    `json:"tail,omitempty"`       // records the agent still sends after it saw the stop
	DoneAt    []int    `json:"done_at,omitempty"`    // query: index of the "done" record (-1 none)
	Poison    []int    `json:"poison,omitempty"`     // index of an undecodable body (-1 none)
	Total     int      `json:"total,omitempty"`      // records per subscription
	CloseMode string   `json:"close_mode,omitempty"` // after-stops | at-start | after-n | with-stops
	CloseN    int      `json:"close_n,omitempty"`
	SplitPct  int      `json:"split_pct,omitempty"`
	Seed      int64    `json:"seed"`
}

type c28Viol struct {
	Key string `json:"key"`
	Msg string `json:"msg"`
}

type c28Result struct {
	I          int            `json:"i"`
	Class      string         `json:"class"`
	Kind       string         `json:"kind"`
	Sig        string         `json:"sig"`
	NonTrivial bool           `json:"nontrivial"`
	Viol       []c28Viol      `json:"viol,omitempty"`
	Inconc     string         `json:"inconc,omitempty"`
	Cnt        map[string]int `json:"cnt"`
}

type c28Sub struct {
	kind   string
	cap    int
	handle uint64
	evCh   chan map[string]any
	logCh  chan string
	ackCh  chan string
	respCh chan client.NodeResponse
	got    atomic.Int64
	err    error
}

func c28NewSub(kind string, cp int) *c28Sub {
	s := &c28Sub{kind: kind, cap: cp}
	switch kind {
	case "stream":
		s.evCh = make(chan map[string]any, cp)
	case "monitor":
		s.logCh = make(chan string, cp)
	default:
		s.ackCh = make(chan string, cp)
		s.respCh = make(chan client.NodeResponse, cp)
	}
	return s
}

func (s *c28Sub) cmd() string { return s.kind }

func (s *c28Sub) handlerFn() string {
	return "client.(*" + s.kind + "Handler).Handle"
}

// subscribe issues the client call (blocks until the initial response).
func (s *c28Sub) subscribe(cl *client.RPCClient) error {
	switch s.kind {
	case "stream":
		h, err := cl.Stream("*", s.evCh)
		if err == nil {
			s.handle = uint64(h)
		}
		return err
	case "monitor":
		h, err := cl.Monitor("DEBUG", s.logCh)
		if err == nil {
			s.handle = uint64(h)
		}
		return err
	default:
		return cl.Query(&client.QueryParam{Name: "q", Payload: []byte("p"), RequestAck: true, AckCh: s.ackCh, RespCh: s.respCh})
	}
}

// record returns (header bytes, body bytes) of one record for this subscription.
func (s *c28Sub) record(seq uint64, n int, poison bool) ([]byte, []byte) {
	hdr := c28Enc(c28RespHdr{Seq: seq})
	if poison {
		return hdr, c28Enc("not-a-map")
	}
	switch s.kind {
	case "stream":
		return hdr, c28Enc(map[string]any{"Event": "user", "LTime": uint64(n), "Name": fmt.Sprintf("e%d", n), "Payload": []byte("payload"), "Coalesce": false})
	case "monitor":
		return hdr, c28Enc(map[string]any{"Log": fmt.Sprintf("2026/01/01 [INFO] line %d", n)})
	default:
		ty := "ack"
		if n%2 == 1 {
			ty = "response"
		}
		return hdr, c28Enc(map[string]any{"Type": ty, "From": fmt.Sprintf("node%d", n), "Payload": []byte("resp")})
	}
}

func (s *c28Sub) doneRecord(seq uint64) []byte {
	return c28Enc(c28RespHdr{Seq: seq}, map[string]any{"Type": "done", "From": "", "Payload": []byte{}})
}

// recvOne receives one record (blocking, watchdog).
func (s *c28Sub) recvOne(n int) {
	t := time.After(c28Watchdog)
	switch s.kind {
	case "stream":
		select {
		case <-s.evCh:
		case <-t:
			c28Fail("watchdog: waiting for a delivered record")
		}
	case "monitor":
		select {
		case <-s.logCh:
		case <-t:
			c28Fail("watchdog: waiting for a delivered record")
		}
	default:
		if n%2 == 1 {
			select {
			case <-s.respCh:
			case <-t:
				c28Fail("watchdog: waiting for a delivered record")
			}
		} else {
			select {
			case <-s.ackCh:
			case <-t:
				c28Fail("watchdog: waiting for a delivered record")
			}
		}
	}
}

func c28Drain[T any](ch chan T) (closed bool, n int) {
	if ch == nil {
		return true, 0
	}
	for {
		select {
		case _, ok := <-ch:
			if !ok {
				return true, n
			}
			n++
		default:
			return false, n
		}
	}
}

// checkClosedLocked is checkClosed under the result lock (flood trials have other
// goroutines appending to the result).
func (s *c28Sub) checkClosedLocked(res *c28Result, when string) {
	c28ResMu.Lock()
	defer c28ResMu.Unlock()
	s.checkClosed(res, when)
}

// checkClosed: every channel of the subscription must be closed now.
func (s *c28Sub) checkClosed(res *c28Result, when string) {
	var open []string
	if c, _ := c28Drain(s.evCh); !c {
		open = append(open, "event channel")
	}
	if c, _ := c28Drain(s.logCh); !c {
		open = append(open, "log channel")
	}
	if c, _ := c28Drain(s.ackCh); !c {
		open = append(open, "ack channel")
	}
	if c, _ := c28Drain(s.respCh); !c {
		open = append(open, "response channel")
	}
	res.Cnt["channels_checked_closed"]++
	if len(open) > 0 {
		res.Viol = append(res.Viol, c28Viol{Key: "not-closed:" + s.kind, Msg: fmt.Sprintf("%s subscription (handle %d): %s not closed %s", s.kind, s.handle, strings.Join(open, ", "), when)})
	}
}

// c28Parked reports whether some goroutine is parked in network I/O below fn.
func c28Parked(fn string) bool {
	buf := make([]byte, 1<<20)
	n := runtime.Stack(buf, true)
	for _, g := range strings.Split(string(buf[:n]), "\n\n") {
		if !strings.Contains(g, fn) {
			continue
		}
		first, _, _ := strings.Cut(g, "\n")
		if strings.HasPrefix(first, "goroutine ") && strings.Contains(first, "[IO wait") {
			return true
		}
	}
	return false
}

var c28ClientFrameRe = regexp.MustCompile(`(?m)^github\.com/hashicorp/serf/client\.`)

// c28WaitQuiescent returns once no goroutine of the process executes client code
// any more (reader goroutine gone, every Stop/Close returned). The statement sets
// no deadline for closing a channel (a reader that is deregistering a handler may
// close it a moment after Close returned), but at quiescence nobody is left who
// could still close it: that is where "closed" is asserted.
func c28WaitQuiescent() {
	deadline := time.Now().Add(c28Watchdog)
	buf := make([]byte, 1<<20)
	for i := 0; ; i++ {
		n := runtime.Stack(buf, true)
		if !c28ClientFrameRe.Match(buf[:n]) {
			return
		}
		// A reader goroutine can be parked for good: the reply handler of a plain RPC sends its verdict
		// on a one-slot channel; when the caller has already left through Close and the agent answers
		// that request twice, the second send never completes. Such a goroutine cannot close anything
		// any more (the statement is about panics and channel closing, not about leaked goroutines),
		// so it does not stand in the way of quiescence - provided nobody who could still receive from
		// that channel (a caller inside genericRPC) is left.
		busy := false
		for _, g := range strings.Split(string(buf[:n]), "\n\n") {
			if !c28ClientFrameRe.MatchString(g) {
				continue
			}
			first, _, _ := strings.Cut(g, "\n")
			if strings.Contains(first, "[chan send") && strings.Contains(g, "genericRPC.func1") && !strings.Contains(g, "client.(*RPCClient).genericRPC(") {
				continue
			}
			busy = true
			break
		}
		if !busy {
			c28ResMu.Lock()
			if c28Cur != nil && c28Cur.Cnt != nil {
				c28Cur.Cnt["trials_ending_with_a_reader_goroutine_parked_for_good"]++
			}
			c28ResMu.Unlock()
			return
		}
		if time.Now().After(deadline) {
			var stuck []string
			for _, g := range strings.Split(string(buf[:n]), "\n\n") {
				if c28ClientFrameRe.MatchString(g) {
					stuck = append(stuck, g)
				}
			}
			c28Fail("watchdog: client code still running long after Close returned: " + c10Trunc(strings.Join(stuck, " || "), 2500))
		}
		if i < 50 {
			runtime.Gosched()
		} else {
			time.Sleep(200 * time.Microsecond)
		}
	}
}

func c28WaitParked(fn string) {
	deadline := time.Now().Add(c28Watchdog)
	for i := 0; ; i++ {
		if c28Parked(fn) {
			return
		}
		if time.Now().After(deadline) {
			c28Fail("watchdog: reader goroutine never parked inside " + fn)
		}
		if i < 50 {
			runtime.Gosched()
		} else {
			time.Sleep(200 * time.Microsecond)
		}
	}
}

func c28Setup(a *c28Agent, cl *client.RPCClient, s *c28Sub) {
	errc := make(chan error, 1)
	go func() { errc <- s.subscribe(cl) }()
	req := a.next(s.cmd())
	if s.kind == "query" {
		s.handle = req.Seq
	}
	if err := a.write(c28Enc(c28RespHdr{Seq: req.Seq})); err != nil {
		c28Fail("fake agent write: " + err.Error())
	}
	if err := c28WaitErr(errc, s.kind+" call to return"); err != nil {
		c28Fail(s.kind + " subscription failed: " + err.Error())
	}
	if s.handle != req.Seq {
		c28Fail("handle/seq mismatch")
	}
}

func c28Canary(a *c28Agent, cl *client.RPCClient, res *c28Result) {
	errc := make(chan error, 1)
	go func() { _, err := cl.Members(); errc <- err }()
	req := a.next("members")
	_ = a.write(c28Enc(c28RespHdr{Seq: req.Seq}, map[string]any{"Members": []any{}}))
	if err := c28WaitErr(errc, "canary Members()"); err != nil {
		res.Viol = append(res.Viol, c28Viol{Key: "canary", Msg: "client no longer serves requests after the trial: " + err.Error()})
	}
	res.Cnt["canary_roundtrips"]++
}

func c28Det(p c28Params, res *c28Result) {
	a, err := c28NewAgent()
	if err != nil {
		c28Fail("listen: " + err.Error())
	}
	defer a.close()
	cl, err := client.ClientFromConfig(&client.Config{Addr: a.addr, Timeout: c28Watchdog})
	if err != nil {
		c28Fail("connect: " + err.Error())
	}
	defer cl.Close()
	s := c28NewSub(p.Kind, p.Cap)
	c28Setup(a, cl, s)
	var extra *c28Sub
	if p.Extra != "" {
		extra = c28NewSub(p.Extra, 8)
		c28Setup(a, cl, extra)
		for n := 0; n < 2; n++ {
			h, b := extra.record(extra.handle, n, false)
			_ = a.write(append(h, b...))
			extra.recvOne(n)
		}
	}
	// complete records first; wait until each was delivered so that the reader is idle
	for n := 0; n < p.Pre; n++ {
		h, b := s.record(s.handle, n, false)
		if err := a.write(append(h, b...)); err != nil {
			c28Fail("fake agent write: " + err.Error())
		}
		s.recvOne(n)
		res.Cnt["records_delivered"]++
	}
	// the split record: header only
	h, b := s.record(s.handle, p.Pre, false)
	if err := a.write(h); err != nil {
		c28Fail("fake agent write: " + err.Error())
	}
	c28WaitParked(s.handlerFn())
	res.Cnt["reader_parked_inside_handle"]++

	if p.Class == "det-close" {
		if err := cl.Close(); err != nil {
			res.Cnt["close_errors"]++
		}
		select {
		case <-a.eof:
		case <-time.After(c28Watchdog):
			c28Fail("watchdog: agent never saw the connection close")
		}
		if err := cl.Close(); err != nil {
			res.Cnt["close_errors"]++
		}
		c28WaitQuiescent()
		s.checkClosed(res, "after Close returned and the client went quiet (reader was inside Handle)")
		if extra != nil {
			extra.checkClosed(res, "after Close returned and the client went quiet")
		}
		res.NonTrivial = true
		res.Sig = fmt.Sprintf("det-close/%s/cap%d/pre%d/extra=%s", p.Kind, p.Cap, p.Pre, p.Extra)
		return
	}

	// det-stop
	errc := make(chan error, p.Stops)
	for k := 0; k < p.Stops; k++ {
		go func() { errc <- cl.Stop(client.StreamHandle(s.handle)) }()
	}
	var stopReqs []c28Req
	for k := 0; k < p.Stops; k++ {
		sr := a.next("stop")
		if sr.Stop != s.handle {
			c28Fail("stop request for a different handle")
		}
		stopReqs = append(stopReqs, sr)
	}
	// Every Stop call has passed deregisterHandler, so the one that found the handler has
	// closed the channel (both precede its request on the wire). Release the body now: the
	// parked reader decodes it and sends it on the subscriber channel.
	if err := a.write(b); err != nil {
		c28Fail("fake agent write: " + err.Error())
	}
	res.Cnt["bodies_released_after_stop_request"]++
	for _, sr := range stopReqs {
		_ = a.write(c28Enc(c28RespHdr{Seq: sr.Seq}))
	}
	for k := 0; k < p.Stops; k++ {
		if err := c28WaitErr(errc, "Stop to return"); err != nil {
			res.Cnt["stop_errors"]++
		}
	}
	s.checkClosed(res, "after Stop returned")
	// a later record for the stopped handle must be harmless too
	h2, b2 := s.record(s.handle, p.Pre+1, false)
	_ = a.write(append(h2, b2...))
	c28Canary(a, cl, res)
	if extra != nil {
		h, b := extra.record(extra.handle, 2, false)
		_ = a.write(append(h, b...))
		extra.recvOne(2)
	}
	_ = cl.Close()
	c28WaitQuiescent()
	if extra != nil {
		extra.checkClosed(res, "after Close returned and the client went quiet")
	}
	s.checkClosed(res, "after Close returned and the client went quiet")
	res.NonTrivial = true
	res.Sig = fmt.Sprintf("det-stop/%s/cap%d/pre%d/stops%d/extra=%s", p.Kind, p.Cap, p.Pre, p.Stops, p.Extra)
}

func c28SetupClose(p c28Params, res *c28Result) {
	a, err := c28NewAgent()
	if err != nil {
		c28Fail("listen: " + err.Error())
	}
	defer a.close()
	cl, err := client.ClientFromConfig(&client.Config{Addr: a.addr, Timeout: c28Watchdog})
	if err != nil {
		c28Fail("connect: " + err.Error())
	}
	defer cl.Close()
	s := c28NewSub(p.Kind, p.Cap)
	errc := make(chan error, 1)
	go func() { errc <- s.subscribe(cl) }()
	req := a.next(s.cmd())
	// the initial response and Close start from one barrier
	start := make(chan struct{})
	var wg sync.WaitGroup
	wg.Add(2)
	respond := func() {
		_ = a.write(c28Enc(c28RespHdr{Seq: req.Seq}))
		h, b := s.record(req.Seq, 0, false)
		_ = a.write(append(h, b...))
	}
	if p.Pre%2 == 0 {
		// response already on the wire when Close starts (the reader is processing it)
		respond()
	}
	go func() {
		defer wg.Done()
		<-start
		if p.Pre%2 == 1 {
			for k := 0; k < p.Pre; k++ {
				runtime.Gosched()
			}
			respond()
		}
	}()
	go func() {
		defer wg.Done()
		<-start
		for k := 0; k < p.Stops; k++ {
			runtime.Gosched()
		}
		_ = cl.Close()
	}()
	close(start)
	wg.Wait()
	serr := c28WaitErr(errc, s.kind+" call to return (Close raced with the initial response)")
	if serr == nil {
		res.Cnt["setup_won_against_close"]++
	} else {
		res.Cnt["close_won_against_setup"]++
	}
	c28WaitQuiescent()
	s.checkClosed(res, "after Close and the subscription call returned and the client went quiet")
	res.NonTrivial = true
	res.Sig = fmt.Sprintf("setup-close/%s/cap%d/%v", p.Kind, p.Cap, serr == nil)
}

// c28MultiClose: Close is called from several goroutines at once (user goroutines, and the
// client's own reader goroutine when the agent drops the connection). Exactly one of them shuts
// the client down; a second close of an internal channel would be a panic (process death).
func c28MultiClose(p c28Params, res *c28Result) {
	// the trial's own constellation first, then a storm of rounds on fresh clients: 8 callers released
	// together, with and without the agent hanging up at that moment (seeded C28-h: a Close whose
	// "already closed?" test and flag flip are not one critical section only fails when two callers
	// are inside a window of a few instructions)
	c28MultiCloseOnce(p, res, 2+p.Stops, p.Pre%2 == 0, true)
	for k := 0; k < c28StormRounds; k++ {
		c28MultiCloseOnce(p, res, 8, k%2 == 0, false)
		res.Cnt["close_storm_rounds"]++
	}
}

const c28StormRounds = 40

func c28MultiCloseOnce(p c28Params, res *c28Result, n int, agentDrop, first bool) {
	a, err := c28NewAgent()
	if err != nil {
		c28Fail("listen: " + err.Error())
	}
	defer a.close()
	cl, err := client.ClientFromConfig(&client.Config{Addr: a.addr, Timeout: c28Watchdog})
	if err != nil {
		c28Fail("connect: " + err.Error())
	}
	defer cl.Close()
	s := c28NewSub(p.Kind, p.Cap)
	c28Setup(a, cl, s)
	var start atomic.Bool
	var wg sync.WaitGroup
	for g := 0; g < n; g++ {
		spin := (p.Pre * (g + 1) * 37) % 400
		if !first {
			spin = (g * p.Pre) % 7
		}
		wg.Add(1)
		go func() {
			defer wg.Done()
			for !start.Load() {
			}
			for k := 0; k < spin; k++ {
				_ = start.Load()
			}
			_ = cl.Close()
		}()
	}
	if agentDrop {
		// the agent goes away at the same moment: the reader goroutine closes the client too
		wg.Add(1)
		go func() {
			defer wg.Done()
			for !start.Load() {
			}
			a.close()
		}()
	}
	start.Store(true)
	select {
	case <-c28WaitWG(&wg):
	case <-time.After(c28Watchdog):
		c28Fail("concurrent Close calls did not return")
	}
	c28WaitQuiescent()
	s.checkClosed(res, "after concurrent Close calls returned and the client went quiet")
	if !cl.IsClosed() {
		res.Viol = append(res.Viol, c28Viol{Key: "not-closed-after-close", Msg: "IsClosed() is false after Close returned"})
	}
	res.Cnt["concurrent_close_calls"] += n
	if first {
		res.NonTrivial = true
		res.Sig = fmt.Sprintf("multi-close/%s/cap%d/n%d/agentdrop%v", p.Kind, p.Cap, n, agentDrop)
	}
}

func c28Flood(p c28Params, res *c28Result) {
	a, err := c28NewAgent()
	if err != nil {
		c28Fail("listen: " + err.Error())
	}
	defer a.close()
	cl, err := client.ClientFromConfig(&client.Config{Addr: a.addr, Timeout: c28Watchdog})
	if err != nil {
		c28Fail("connect: " + err.Error())
	}
	defer cl.Close()
	rng := rand.New(rand.NewSource(p.Seed))
	subs := make([]*c28Sub, len(p.Kinds))
	for i, k := range p.Kinds {
		subs[i] = c28NewSub(k, p.Caps[i])
		c28Setup(a, cl, subs[i])
	}
	// agent side bookkeeping
	sent := make([]atomic.Int64, len(subs))
	stopAt := make([]atomic.Int64, len(subs)) // records sent when the stop request arrived (-1: none)
	for i := range stopAt {
		stopAt[i].Store(-1)
	}
	a.onStop = func(h uint64) {
		for i, s := range subs {
			if s.handle == h {
				stopAt[i].CompareAndSwap(-1, sent[i].Load())
			}
		}
	}
	a.autoStop.Store(true)

	var closed atomic.Bool
	var floodDone atomic.Bool
	var sentAfterStop, splitWrites atomic.Int64
	closeOnce := func() {
		if closed.CompareAndSwap(false, true) {
			if !floodDone.Load() {
				res.NonTrivial = true
			}
		}
		_ = cl.Close()
	}
	var recvTotal atomic.Int64
	closeTrig := make(chan struct{}, 1)

	// flooder
	var fwg sync.WaitGroup
	fwg.Add(1)
	splits := make([]bool, p.Total*len(subs))
	for i := range splits {
		splits[i] = rng.Intn(100) < p.SplitPct
	}
	go func() {
		defer fwg.Done()
		defer floodDone.Store(true)
		dead := make([]bool, len(subs))
		for n := 0; n < p.Total; n++ {
			for i, s := range subs {
				if dead[i] {
					continue
				}
				if st := stopAt[i].Load(); st >= 0 {
					if sent[i].Load() >= st+int64(p.Tail[i]) {
						dead[i] = true
						continue
					}
					sentAfterStop.Add(1)
				}
				if s.kind == "query" && n == p.DoneAt[i] {
					if a.write(s.doneRecord(s.handle)) != nil {
						return
					}
					sent[i].Add(1)
					// one straggler after "done", then silence
					h, b := s.record(s.handle, n, false)
					if a.write(append(h, b...)) != nil {
						return
					}
					dead[i] = true
					continue
				}
				poison := n == p.Poison[i]
				h, b := s.record(s.handle, n, poison)
				var werr error
				if splits[n*len(subs)+i] {
					splitWrites.Add(1)
					werr = a.write(h)
					runtime.Gosched()
					if werr == nil {
						werr = a.write(b)
					}
				} else {
					werr = a.write(append(h, b...))
				}
				if werr != nil {
					return
				}
				sent[i].Add(1)
				if poison {
					dead[i] = true
				}
			}
		}
	}()

	// subscribers
	var swg sync.WaitGroup
	var stopsIssued, stopErrs atomic.Int64
	stopBarrier := make(chan struct{})
	for i, s := range subs {
		swg.Add(1)
		go func(i int, s *c28Sub) {
			defer swg.Done()
			stopped := false
			doStop := func() {
				if stopped || s.kind == "query" || p.StopAfter[i] < 0 {
					return
				}
				stopped = true
				if p.CloseMode == "with-stops" {
					<-stopBarrier
				}
				stopsIssued.Add(1)
				if err := cl.Stop(client.StreamHandle(s.handle)); err != nil {
					stopErrs.Add(1)
				}
				// Stop returned: it either closed the channel itself or waited for Close doing so;
				// only a reader that deregisters the handler on its own (undecodable body) may
				// still be about to close it
				if p.Poison[i] < 0 {
					s.checkClosedLive(res, "when Stop returned")
				}
			}
			note := func() {
				s.got.Add(1)
				if recvTotal.Add(1) == int64(p.CloseN) {
					select {
					case closeTrig <- struct{}{}:
					default:
					}
				}
				if int(s.got.Load()) == p.StopAfter[i] {
					doStop()
				}
			}
			if p.StopAfter[i] == 0 {
				doStop()
			}
			switch s.kind {
			case "stream":
				for range s.evCh {
					note()
				}
			case "monitor":
				for range s.logCh {
					note()
				}
			default:
				ack, resp := s.ackCh, s.respCh
				for ack != nil || resp != nil {
					select {
					case _, ok := <-ack:
						if !ok {
							ack = nil
						} else {
							note()
						}
					case _, ok := <-resp:
						if !ok {
							resp = nil
						} else {
							note()
						}
					}
				}
			}
			// channel closed (by Stop, Close, done record or poison)
			doStop()
		}(i, s)
	}

	// closer
	cdone := make(chan struct{})
	go func() {
		defer close(cdone)
		switch p.CloseMode {
		case "at-start":
			for k := 0; k < p.CloseN; k++ {
				runtime.Gosched()
			}
			closeOnce()
		case "after-n":
			select {
			case <-closeTrig:
			case <-c28WaitWG(&fwg):
			}
			closeOnce()
		case "with-stops":
			close(stopBarrier)
			for k := 0; k < p.CloseN; k++ {
				runtime.Gosched()
			}
			closeOnce()
		default: // after-stops: close when the flood is over
			<-c28WaitWG(&fwg)
			closeOnce()
		}
	}()

	wait := func(ch <-chan struct{}, what string) {
		select {
		case <-ch:
		case <-time.After(c28Watchdog):
			c28Fail("watchdog: " + what)
		}
	}
	wait(cdone, "Close to return")
	wait(c28WaitWG(&fwg), "flooder to end")
	// Close has returned. Once no client code runs any more every subscriber channel must be
	// closed (checked directly; the subscriber goroutines are merely competing consumers of
	// what is still buffered, and their late Stop calls count as client code).
	c28WaitQuiescent()
	c28ResMu.Lock()
	before := len(res.Viol)
	c28ResMu.Unlock()
	for _, s := range subs {
		s.checkClosedLocked(res, "after Close returned and the client went quiet")
	}
	c28ResMu.Lock()
	allClosed := len(res.Viol) == before
	c28ResMu.Unlock()
	if allClosed {
		wait(c28WaitWG(&swg), "subscriber goroutines to see their channels closed")
	}
	var stoppedInFlight int
	for i := range subs {
		if st := stopAt[i].Load(); st >= 0 && sent[i].Load() > st {
			stoppedInFlight++
		}
		res.Cnt["records_sent"] += int(sent[i].Load())
		res.Cnt["records_delivered"] += int(subs[i].got.Load())
	}
	if stoppedInFlight > 0 {
		res.NonTrivial = true
	}
	res.Cnt["stops_issued"] += int(stopsIssued.Load())
	res.Cnt["stop_errors"] += int(stopErrs.Load())
	res.Cnt["records_sent_after_stop_request"] += int(sentAfterStop.Load())
	res.Cnt["split_writes"] += int(splitWrites.Load())
	res.Cnt["subscriptions_stopped_with_records_in_flight"] += stoppedInFlight
	if res.NonTrivial {
		res.Cnt["floods_with_stop_or_close_in_flight"]++
	}
	res.Sig = fmt.Sprintf("flood/%v/%s/stops%d/inflight%d/%v", p.Kinds, p.CloseMode, stopsIssued.Load(), stoppedInFlight, c28Bucket(int(recvTotal.Load())))
}

func c28Bucket(n int) string {
	switch {
	case n == 0:
		return "0"
	case n < 4:
		return "1-3"
	case n < 16:
		return "4-15"
	case n < 64:
		return "16-63"
	}
	return "64+"
}

func c28WaitWG(wg *sync.WaitGroup) <-chan struct{} {
	ch := make(chan struct{})
	go func() { wg.Wait(); close(ch) }()
	return ch
}

var c28ResMu sync.Mutex

// checkClosedLive is checkClosed for use while the subscriber loop is still
// running on the same goroutine: draining there is fine (same consumer).
func (s *c28Sub) checkClosedLive(res *c28Result, when string) {
	var open []string
	if c, n := c28Drain(s.evCh); !c {
		open = append(open, "event channel")
	} else {
		s.got.Add(int64(n))
	}
	if c, n := c28Drain(s.logCh); !c {
		open = append(open, "log channel")
	} else {
		s.got.Add(int64(n))
	}
	c28ResMu.Lock()
	defer c28ResMu.Unlock()
	res.Cnt["channels_checked_closed"]++
	if len(open) > 0 {
		res.Viol = append(res.Viol, c28Viol{Key: "not-closed:" + s.kind, Msg: fmt.Sprintf("%s subscription (handle %d): %s not closed %s", s.kind, s.handle, strings.Join(open, ", "), when)})
	}
}

// c28GenParams derives the parameters of trial i of a kind from the run seed.
func c28GenParams(seed int64, kind string, i int) c28Params {
	h := fnv.New64a()
	fmt.Fprintf(h, "C28/%d/%s/%d", seed, kind, i)
	rng := rand.New(rand.NewSource(int64(h.Sum64())))
	p := c28Params{I: i, Kind: kind, Seed: rng.Int63()}
	caps := []int{0, 1, 2, 4, 64}
	x := rng.Intn(100)
	switch {
	case kind != "query" && x < 45:
		p.Class = "det-stop"
	case x < 55 || (kind == "query" && x < 70):
		p.Class = "det-close"
	case x < 65 || (kind == "query" && x < 78):
		p.Class = "setup-close"
	case x < 73 || (kind == "query" && x < 84):
		p.Class = "multi-close"
	default:
		p.Class = "flood"
	}
	switch p.Class {
	case "det-stop", "det-close":
		p.Cap = caps[rng.Intn(len(caps))]
		if p.Cap > 0 {
			p.Pre = rng.Intn(min(p.Cap, 3) + 1)
		}
		p.Stops = 1 + rng.Intn(2)
		if rng.Intn(3) == 0 {
			p.Extra = []string{"stream", "monitor", "query"}[rng.Intn(3)]
		}
	case "setup-close":
		p.Cap = caps[rng.Intn(len(caps))]
		p.Pre = rng.Intn(6)
		p.Stops = rng.Intn(6)
	case "multi-close":
		p.Cap = caps[rng.Intn(len(caps))]
		p.Pre = rng.Intn(12)
		p.Stops = rng.Intn(4)
	default:
		n := 1 + rng.Intn(3)
		p.Total = 20 + rng.Intn(120)
		p.SplitPct = []int{0, 30, 100}[rng.Intn(3)]
		for k := 0; k < n; k++ {
			kd := kind
			if k > 0 {
				kd = []string{"stream", "monitor", "query"}[rng.Intn(3)]
			}
			p.Kinds = append(p.Kinds, kd)
			p.Caps = append(p.Caps, caps[rng.Intn(len(caps))])
			sa := rng.Intn(12)
			if rng.Intn(6) == 0 {
				sa = -1
			}
			p.StopAfter = append(p.StopAfter, sa)
			p.Tail = append(p.Tail, rng.Intn(8))
			da := -1
			if kd == "query" && rng.Intn(2) == 0 {
				da = rng.Intn(p.Total)
			}
			p.DoneAt = append(p.DoneAt, da)
			po := -1
			if rng.Intn(8) == 0 {
				po = rng.Intn(p.Total)
			}
			p.Poison = append(p.Poison, po)
		}
		for _, po := range p.Poison {
			if po >= 0 {
				p.Class = "flood-poison" // malformed records: reported under its own class
			}
		}
		p.CloseMode = []string{"after-stops", "at-start", "after-n", "with-stops"}[rng.Intn(4)]
		p.CloseN = 1 + rng.Intn(30)
	}
	return p
}

type c28Spec struct {
	Seed int64  `json:"seed"`
	Kind string `json:"kind"`
	From int    `json:"from"`
	To   int    `json:"to"`
	Log  string `json:"log"`
	Res  string `json:"res"`
}

// c28Child runs trials [From,To) sequentially; exits 3 when a trial got stuck.
func c28Child(t *testing.T, specPath string) {
	b, err := os.ReadFile(specPath)
	var spec c28Spec
	if err != nil || json.Unmarshal(b, &spec) != nil {
		fmt.Fprintln(os.Stderr, "C28CHILD bad spec")
		os.Exit(4)
	}
	log.SetOutput(io.Discard) // the client logs dropped records through the std logger
	logf, err1 := os.OpenFile(spec.Log, os.O_APPEND|os.O_CREATE|os.O_WRONLY, 0o644)
	resf, err2 := os.OpenFile(spec.Res, os.O_APPEND|os.O_CREATE|os.O_WRONLY, 0o644)
	if err1 != nil || err2 != nil {
		fmt.Fprintln(os.Stderr, "C28CHILD cannot open log files")
		os.Exit(4)
	}
	for i := spec.From; i < spec.To; i++ {
		p := c28GenParams(spec.Seed, spec.Kind, i)
		pj, _ := json.Marshal(p)
		logf.Write(append(pj, '\n'))
		res := &c28Result{I: i, Class: p.Class, Kind: p.Kind, Cnt: map[string]int{}}
		c28ResMu.Lock()
		c28Cur = res
		c28ResMu.Unlock()
		done := make(chan struct{})
		go func() {
			defer close(done)
			switch p.Class {
			case "det-stop", "det-close":
				c28Det(p, res)
			case "setup-close":
				c28SetupClose(p, res)
			case "multi-close":
				c28MultiClose(p, res)
			default:
				c28Flood(p, res)
			}
		}()
		<-done
		c28ResMu.Lock()
		stuck := res.Inconc != ""
		rj, _ := json.Marshal(res)
		c28ResMu.Unlock()
		resf.Write(append(rj, '\n'))
		if stuck {
			// goroutines of the stuck trial may linger: start the next trial in a fresh process
			buf := make([]byte, 1<<20)
			n := runtime.Stack(buf, true)
			fmt.Fprintf(os.Stderr, "C28CHILD stuck trial %d: %s\n%s\n", i, res.Inconc, buf[:n])
			os.Exit(3)
		}
	}
}

// ---------------------------------------------------------------- parent side

var c28FrameRe = regexp.MustCompile(`(?m)^\s+(\S+)\n\s+(\S+?):(\d+)`)
var c28ArgsRe = regexp.MustCompile(`\([^()]*\)$`)

// c28RaceOwners classifies the two accesses of a race report: for each access the
// innermost frame that belongs to the repository or the harness decides.
func c28RaceOwners(block, repo string) (owners []string, fns []string) {
	secRe := regexp.MustCompile(`(?m)^(?:Read|Write|Previous read|Previous write|Atomic|Previous atomic)[^\n]* by `)
	idx := secRe.FindAllStringIndex(block, -1)
	for k, loc := range idx {
		if k >= 2 {
			break
		}
		end := len(block)
		if k+1 < len(idx) {
			end = idx[k+1][0]
		}
		sec := block[loc[0]:end]
		if j := strings.Index(sec, "\nGoroutine "); j >= 0 {
			sec = sec[:j]
		}
		owner, fn := "other", "?"
		for _, m := range c28FrameRe.FindAllStringSubmatch(sec, -1) {
			path := m[2]
			if strings.HasPrefix(path, repo+"/client/") {
				owner, fn = "client", c28ArgsRe.ReplaceAllString(m[1], "")
				break
			}
			if strings.HasPrefix(path, repo+"/") {
				owner, fn = "repo", c28ArgsRe.ReplaceAllString(m[1], "")
				break
			}
			if strings.HasPrefix(path, "/verif/") {
				owner, fn = "harness", c28ArgsRe.ReplaceAllString(m[1], "")
				break
			}
		}
		owners = append(owners, owner)
		fns = append(fns, fn)
	}
	return
}

func TestC28(t *testing.T) {
	if spec := os.Getenv("VERIF_C28_CHILD"); spec != "" {
		c28Child(t, spec)
		return
	}
	r := evid.Start(t, "C28", "exploration")
	repo := strings.TrimRight(os.Getenv("VERIF_REPO"), "/")
	if repo == "" {
		repo = "/repo"
	}
	perKind := r.N(300, 10000)
	chunk := r.N(50, 500)
	dir := t.TempDir()
	type batch struct {
		kind     string
		from, to int
	}
	var batches []batch
	for _, k := range []string{"stream", "monitor", "query"} {
		for f := 0; f < perKind; f += chunk {
			batches = append(batches, batch{k, f, min(f+chunk, perKind)})
		}
	}
	const maxPanicsPerBatch = 3
	var raceMu sync.Mutex
	var raceFiles []string

	r.Cases("batch", len(batches), 8, func(bi int, _ *rand.Rand) {
		b := batches[bi]
		from := b.from
		panics := 0
		stucks := 0
		for run := 0; from < b.to; run++ {
			tag := fmt.Sprintf("b%03d.%d", bi, run)
			spec := c28Spec{Seed: r.Seed, Kind: b.kind, From: from, To: b.to,
				Log: filepath.Join(dir, tag+".log"), Res: filepath.Join(dir, tag+".res")}
			sj, _ := json.Marshal(spec)
			specPath := filepath.Join(dir, tag+".spec")
			_ = os.WriteFile(specPath, sj, 0o644)
			stderrPath := filepath.Join(dir, tag+".stderr")
			stderrF, _ := os.Create(stderrPath)
			cmd := exec.Command(os.Args[0], "-test.run", "^TestC28$", "-test.count=1", "-test.timeout=30m")
			var env []string
			for _, e := range os.Environ() {
				if strings.HasPrefix(e, "GORACE=") || strings.HasPrefix(e, "VERIF_RESULT=") || strings.HasPrefix(e, "VERIF_C28_CHILD=") {
					continue
				}
				env = append(env, e)
			}
			racePrefix := filepath.Join(dir, "race."+tag)
			env = append(env, "VERIF_C28_CHILD="+specPath, "GORACE=halt_on_error=0 log_path="+racePrefix, "GOTRACEBACK=all")
			cmd.Env = env
			cmd.Stdout = io.Discard
			cmd.Stderr = stderrF
			r.Count("children_spawned", 1)
			done := make(chan error, 1)
			if err := cmd.Start(); err != nil {
				stderrF.Close()
				r.Inconclusive("cannot start child: " + err.Error())
				return
			}
			go func() { done <- cmd.Wait() }()
			var werr error
			timedOut := false
			select {
			case werr = <-done:
			case <-time.After(25 * time.Minute):
				timedOut = true
				_ = cmd.Process.Signal(syscall.SIGQUIT)
				select {
				case werr = <-done:
				case <-time.After(30 * time.Second):
					_ = cmd.Process.Kill()
					werr = <-done
				}
			}
			stderrF.Close()
			if m, _ := filepath.Glob(racePrefix + ".*"); len(m) > 0 {
				raceMu.Lock()
				raceFiles = append(raceFiles, m...)
				raceMu.Unlock()
			}

			// results
			last := from - 1
			resb, _ := os.ReadFile(spec.Res)
			for _, line := range strings.Split(string(resb), "\n") {
				if strings.TrimSpace(line) == "" {
					continue
				}
				var res c28Result
				if json.Unmarshal([]byte(line), &res) != nil {
					continue
				}
				last = res.I
				r.Eval(1)
				r.Count("trials_"+res.Class, 1)
				for k, v := range res.Cnt {
					r.Count(k, v)
				}
				for _, v := range res.Viol {
					r.Violation(v.Key, bi, fmt.Sprintf("trial %s/%d (%s): %s", res.Kind, res.I, res.Class, v.Msg), c28GenParams(r.Seed, b.kind, res.I))
				}
				if res.Inconc != "" {
					r.Inconclusive(fmt.Sprintf("trial %s/%d (%s) stuck: %s", res.Kind, res.I, res.Class, res.Inconc))
				} else if res.NonTrivial {
					r.Distinct(res.Sig)
					r.Count("nontrivial_"+res.Class, 1)
				}
				if (res.I < 3 && b.kind == "stream") || (res.I == 0) {
					r.Sample(map[string]any{"trial": fmt.Sprintf("%s/%d", res.Kind, res.I), "class": res.Class, "signature": res.Sig, "observed": res.Cnt})
				}
			}
			if timedOut {
				r.Inconclusive(fmt.Sprintf("batch %d: child timed out", bi))
				return
			}
			if last+1 >= b.to {
				return // batch complete (a non-zero exit here is the race detector's exit code)
			}
			// the child died before finishing: which trial was running?
			crashed := last + 1
			logb, _ := os.ReadFile(spec.Log)
			lines := strings.Split(strings.TrimSpace(string(logb)), "\n")
			var wit c28Params
			if len(lines) > 0 {
				_ = json.Unmarshal([]byte(lines[len(lines)-1]), &wit)
				crashed = wit.I
			}
			se, _ := os.ReadFile(stderrPath)
			ses := string(se)
			pm := regexp.MustCompile(`(?m)^(panic: .*|fatal error: .*)$`).FindStringIndex(ses)
			switch {
			case pm != nil:
				head := ses[pm[0]:pm[1]]
				rest := ses[pm[0]:]
				// the panicking goroutine is the first stack after the message
				stack := rest
				if j := strings.Index(rest, "\n\ngoroutine "); j >= 0 {
					stack = rest[:j+2]
					rest2 := rest[j+2:]
					if k := strings.Index(rest2, "\n\n"); k >= 0 {
						stack += rest2[:k]
					} else {
						stack += rest2
					}
				}
				if len(stack) > 6000 {
					stack = stack[:6000]
				}
				inClient := strings.Contains(stack, "github.com/hashicorp/serf/client.")
				kind := "panic"
				switch {
				case strings.Contains(head, "send on closed channel"):
					kind = "send-on-closed-channel"
				case strings.Contains(head, "close of closed channel"):
					kind = "close-of-closed-channel"
				}
				if inClient {
					key := kind + ":" + wit.Class
					r.Count("child_panics_inside_client", 1)
					r.Violation(key, bi, fmt.Sprintf("child process died in trial %s/%d (%s): %s", b.kind, crashed, wit.Class, head),
						map[string]any{"trial": wit, "panic": head, "stack": stack})
					panics++
				} else {
					r.Inconclusive(fmt.Sprintf("child crashed outside client/ in trial %s/%d: %s", b.kind, crashed, head))
					r.Extra(fmt.Sprintf("crash_%s_%d", b.kind, crashed), stack)
					panics++
				}
			case werr != nil && strings.Contains(ses, "C28CHILD stuck"):
				// already recorded as inconclusive from the result line; keep the goroutine dump
				tail := ses
				if len(tail) > 20000 {
					tail = tail[:20000]
				}
				r.Extra(fmt.Sprintf("stuck_%s_%d", b.kind, crashed), tail)
				from = crashed + 1
				stucks++
				if stucks >= 2 {
					r.Count("trials_skipped_after_stuck_trials", b.to-from)
					return
				}
				continue
			default:
				tail := ses
				if len(tail) > 1500 {
					tail = tail[len(tail)-1500:]
				}
				r.Inconclusive(fmt.Sprintf("child of batch %d ended early (%v) without a panic: %s", bi, werr, tail))
				return
			}
			r.Eval(1)
			from = crashed + 1
			if panics >= maxPanicsPerBatch {
				r.Count("trials_skipped_after_repeated_panics", b.to-from)
				return
			}
		}
	})

	// race reports of all children
	type raceAgg struct {
		n     int
		block string
	}
	races := map[string]*raceAgg{}
	noise := map[string]*raceAgg{}
	total := 0
	for _, f := range raceFiles {
		b, err := os.ReadFile(f)
		if err != nil {
			continue
		}
		parts := strings.Split(string(b), "WARNING: DATA RACE")
		for _, blk := range parts[1:] {
			blk, _, _ = strings.Cut(blk, "==================")
			total++
			owners, fns := c28RaceOwners(blk, repo)
			sort.Strings(fns)
			key := strings.Join(fns, " <-> ")
			tgt := noise
			if len(owners) == 2 && owners[0] == "client" && owners[1] == "client" {
				tgt = races
			}
			if tgt[key] == nil {
				tgt[key] = &raceAgg{block: blk}
			}
			tgt[key].n++
		}
	}
	r.Count("race_reports_total", total)
	r.Count("race_reports_distinct_inside_client", len(races))
	var raceList []string
	for k, v := range races {
		raceList = append(raceList, fmt.Sprintf("%s (x%d)", k, v.n))
	}
	sort.Strings(raceList)
	r.Extra("race_reports_inside_client", raceList)
	for k, v := range races {
		blk := v.block
		if len(blk) > 5000 {
			blk = blk[:5000]
		}
		r.Violation("data-race", -1, fmt.Sprintf("data race inside client/ (x%d): %s", v.n, k), map[string]any{"functions": k, "count": v.n, "report": "WARNING: DATA RACE" + blk})
	}
	for k, v := range noise {
		blk := v.block
		if len(blk) > 3000 {
			blk = blk[:3000]
		}
		r.Inconclusive(fmt.Sprintf("race report not attributable to client/ alone (x%d): %s", v.n, k))
		r.Extra("race_noise_"+k, blk)
	}

	r.Finish("per subscription kind (stream, monitor, query) a fixed number of seeded trials run in child processes against a scripted fake agent on loopback TCP: "+
		"det-stop / det-close (record split between header and body, reader observed parked inside Handle, body released only after the stop request was read), "+
		"flood (free-running records on 1-3 subscriptions vs Stop after k deliveries and Close at a random point), setup-close (Close racing the initial response); "+
		"distinct = distinct signatures of trials in which Stop/Close provably overlapped in-flight records (class, kinds, capacities, pre-records, stop counts, close mode, delivery bucket)",
		r.N(40, 150),
		"loopback TCP and the Go scheduler decide the flood interleavings; only the det-* schedules are forced",
		"Stop is only applied to handles returned by Stream/Monitor (queries end by 'done' records or Close)",
		"race reports are attributed to the property only when both accesses are in "+repo+"/client",
		"a stuck trial (watchdog 60 s) is inconclusive, never a verdict")
}
