package props

import (
	"fmt"
	"math"
	"math/big"
	"math/rand"
	"testing"
	"time"

	"github.com/hashicorp/serf/coordinate"

	"verif/harness/evid"
)

// C21: round-trip estimates follow the documented formula.
//
// Every generated pair (a,b) of valid coordinates is given to the real
// Coordinate.DistanceTo in both directions. Oracles:
//   - result >= 0 (heights are non-negative),
//   - |d(a,b) - d(b,a)| <= 1 ns,
//   - deviation from two independent evaluations of the documented formula
//     (math/big at 256 bits; float64 with scaling and reversed summation)
//     within rel 1e-9 of the operand scale + 2 ns; when the exact adjusted sum is
//     within that tolerance of zero, either branch of the guard is accepted,
//   - different dimensions: both directions must panic with DimensionalityConflictError.
//
// Magnitudes follow the property's quantifier: components, heights (and, as
// "realistic magnitudes", adjustments) up to 1e4 seconds, any sign for
// components and adjustments.

const c21Lim = 1.0e4

type c21Coord struct {
	c    *coordinate.Coordinate
	vcls string
	hcls string
}

func c21Component(rng *rand.Rand, cls int) float64 {
	sign := 1.0
	if rng.Intn(2) == 0 {
		sign = -1
	}
	switch cls {
	case 0:
		return 0
	case 1: // subnormal / tiny
		return sign * []float64{5e-324, 2.2250738585072014e-308, 1e-300, 1e-160, 1e-30}[rng.Intn(5)]
	case 2: // micro- to milliseconds
		return sign * math.Pow(10, -7+4*rng.Float64())
	case 3: // typical: 1 ms .. 1 s
		return sign * math.Pow(10, -3+3*rng.Float64())
	case 4: // large: 1 s .. 1e4 s
		return sign * math.Pow(10, 4*rng.Float64())
	default: // the limit itself and its neighbours
		return sign * []float64{c21Lim, math.Nextafter(c21Lim, 0), c21Lim / 2, 9999.999999999}[rng.Intn(4)]
	}
}

var c21VecCls = []string{"zero", "tiny", "micro", "typ", "large", "limit", "mixed"}

func c21Vec(rng *rand.Rand, dim int) ([]float64, string) {
	cls := rng.Intn(len(c21VecCls))
	v := make([]float64, dim)
	for i := range v {
		k := cls
		if cls == 6 {
			k = rng.Intn(6)
		}
		v[i] = c21Component(rng, k)
	}
	return v, c21VecCls[cls]
}

func c21Height(rng *rand.Rand) (float64, string) {
	switch rng.Intn(6) {
	case 0:
		return 0, "h0"
	case 1:
		return 10.0e-6, "hmin"
	case 2:
		return []float64{5e-324, 1e-300, 1e-12}[rng.Intn(3)], "htiny"
	case 3:
		return math.Pow(10, -5+4*rng.Float64()), "hsmall"
	case 4:
		return math.Pow(10, 4*rng.Float64()), "hlarge"
	default:
		return c21Lim, "hlimit"
	}
}

func c21Gen(rng *rand.Rand, dim int) c21Coord {
	v, vc := c21Vec(rng, dim)
	h, hc := c21Height(rng)
	return c21Coord{c: &coordinate.Coordinate{Vec: v, Height: h, Error: 1.5 * rng.Float64()}, vcls: vc, hcls: hc}
}

// c21Related derives b from a: coincident, one ulp apart, or very close, so that
// the Euclidean part is zero or dominated by cancellation.
func c21Related(rng *rand.Rand, a c21Coord) c21Coord {
	v := make([]float64, len(a.c.Vec))
	copy(v, a.c.Vec)
	cls := "same"
	switch rng.Intn(3) {
	case 1:
		cls = "ulp"
		for i := range v {
			if rng.Intn(2) == 0 {
				v[i] = math.Nextafter(v[i], math.Inf(1-2*rng.Intn(2)))
			}
		}
	case 2:
		cls = "near"
		for i := range v {
			v[i] += (rng.Float64() - 0.5) * 2e-6
			if math.Abs(v[i]) > c21Lim {
				v[i] = a.c.Vec[i]
			}
		}
	}
	h, hc := c21Height(rng)
	return c21Coord{c: &coordinate.Coordinate{Vec: v, Height: h, Error: 1.5 * rng.Float64()}, vcls: cls, hcls: hc}
}

// c21RawFloat: float64 evaluation of Euclid + heights in a different way than
// the code under test (scaled by the largest difference, summed backwards,
// heights added to each other first).
func c21RawFloat(a, b *coordinate.Coordinate) float64 {
	n := len(a.Vec)
	scale := 0.0
	d := make([]float64, n)
	for i := n - 1; i >= 0; i-- {
		d[i] = b.Vec[i] - a.Vec[i]
		if m := math.Abs(d[i]); m > scale {
			scale = m
		}
	}
	e := 0.0
	if scale > 0 {
		s := 0.0
		for i := n - 1; i >= 0; i-- {
			q := d[i] / scale
			s += q * q
		}
		e = scale * math.Sqrt(s)
	}
	return e + (b.Height + a.Height)
}

const c21Prec = 256

func c21Big(x float64) *big.Float { return new(big.Float).SetPrec(c21Prec).SetFloat64(x) }

// c21RawBig: exact-to-256-bits evaluation; returns raw distance and adjusted sum.
func c21RefBig(a, b *coordinate.Coordinate) (raw, adj float64) {
	sum := new(big.Float).SetPrec(c21Prec)
	for i := range a.Vec {
		d := new(big.Float).SetPrec(c21Prec).Sub(c21Big(a.Vec[i]), c21Big(b.Vec[i]))
		sum.Add(sum, d.Mul(d, d))
	}
	e := new(big.Float).SetPrec(c21Prec)
	if sum.Sign() > 0 {
		e.Sqrt(sum)
	}
	e.Add(e, c21Big(a.Height))
	e.Add(e, c21Big(b.Height))
	raw, _ = e.Float64()
	e.Add(e, c21Big(a.Adjustment))
	e.Add(e, c21Big(b.Adjustment))
	adj, _ = e.Float64()
	return
}

// c21Call runs DistanceTo and reports a panic value instead of crashing.
func c21Call(a, b *coordinate.Coordinate) (d time.Duration, pv any) {
	defer func() { pv = recover() }()
	return a.DistanceTo(b), nil
}

func c21Str(c *coordinate.Coordinate) string {
	return fmt.Sprintf("{Vec:%v Height:%v Adj:%v}", c.Vec, c.Height, c.Adjustment)
}

func TestC21(t *testing.T) {
	r := evid.Start(t, "C21", "exploration")
	const chunk = 2000
	nPairs := r.N(4000000, 50000000)
	chunks := nPairs / chunk
	dims := []int{1, 2, 3, 8, 8, 8, 16, 4, 5, 6, 7, 9, 10, 11, 13, 31}

	r.Cases("pairs", chunks, 0, func(ci int, rng *rand.Rand) {
		cnt := map[string]int{}
		sigs := map[string]struct{}{}
		var maxDev, maxAsym float64
		for k := 0; k < chunk; k++ {
			dim := dims[rng.Intn(len(dims))]
			a := c21Gen(rng, dim)
			var b c21Coord
			if rng.Intn(5) == 0 {
				b = c21Related(rng, a)
			} else {
				b = c21Gen(rng, dim)
			}

			// dimension mismatch: must raise, in both directions
			if rng.Intn(50) == 0 {
				od := dims[rng.Intn(len(dims))]
				if od == dim {
					od = dim + 1 + rng.Intn(3)
				}
				if rng.Intn(8) == 0 {
					od = 0
				}
				o := c21Gen(rng, od)
				for dir, p := range [][2]*coordinate.Coordinate{{a.c, o.c}, {o.c, a.c}} {
					d, pv := c21Call(p[0], p[1])
					if _, ok := pv.(coordinate.DimensionalityConflictError); !ok {
						r.Violation("dimension-mismatch-compared", ci,
							fmt.Sprintf("DistanceTo between %d and %d dimensions (direction %d) returned %v / panic value %v instead of DimensionalityConflictError", len(p[0].Vec), len(p[1].Vec), dir, d, pv),
							map[string]any{"a": c21Str(p[0]), "b": c21Str(p[1])})
					} else {
						cnt["dimension_conflicts_raised"]++
					}
				}
				sigs[fmt.Sprintf("dimconf-%d-%d", dim, od)] = struct{}{}
			}

			// adjustments: chosen after the raw distance is known so that the guard
			// boundary (adjusted sum around zero) is hit on purpose
			raw0 := c21RawFloat(a.c, b.c)
			acls := ""
			switch rng.Intn(8) {
			case 0:
				acls = "none"
			case 1:
				acls = "small"
				a.c.Adjustment = (rng.Float64() - 0.5) * 2e-3
				b.c.Adjustment = (rng.Float64() - 0.5) * 2e-3
			case 2:
				acls = "any"
				a.c.Adjustment = (rng.Float64() - 0.5) * 2 * c21Lim
				b.c.Adjustment = (rng.Float64() - 0.5) * 2 * c21Lim
			case 3:
				acls = "one-sided"
				a.c.Adjustment = -rng.Float64() * 2 * raw0
			case 4: // sum of adjustments ~ -raw (guard boundary), split unevenly
				acls = "boundary"
				f := rng.Float64()
				a.c.Adjustment = -raw0 * f
				b.c.Adjustment = -raw0 - a.c.Adjustment
				switch rng.Intn(4) {
				case 0:
					b.c.Adjustment = math.Nextafter(b.c.Adjustment, math.Inf(1))
				case 1:
					b.c.Adjustment = math.Nextafter(b.c.Adjustment, math.Inf(-1))
				case 2:
					b.c.Adjustment += (rng.Float64() - 0.5) * 1e-8
				}
			case 5:
				acls = "negative"
				a.c.Adjustment = -rng.Float64() * c21Lim
				b.c.Adjustment = -rng.Float64() * c21Lim
			case 6:
				acls = "cancel"
				a.c.Adjustment = (rng.Float64() - 0.5) * 2 * c21Lim
				b.c.Adjustment = -a.c.Adjustment
			default:
				acls = "positive"
				a.c.Adjustment = rng.Float64() * math.Pow(10, -4+8*rng.Float64())
				b.c.Adjustment = rng.Float64() * math.Pow(10, -4+8*rng.Float64())
			}
			if math.Abs(a.c.Adjustment) > c21Lim {
				a.c.Adjustment = math.Copysign(c21Lim, a.c.Adjustment)
			}
			if math.Abs(b.c.Adjustment) > c21Lim {
				b.c.Adjustment = math.Copysign(c21Lim, b.c.Adjustment)
			}

			dab, p1 := c21Call(a.c, b.c)
			dba, p2 := c21Call(b.c, a.c)
			cnt["pairs_judged"]++
			wit := func() map[string]any {
				return map[string]any{"a": c21Str(a.c), "b": c21Str(b.c), "d_ab_ns": int64(dab), "d_ba_ns": int64(dba),
					"a_bits": fmt.Sprintf("%x h=%x adj=%x", c21Bits(a.c.Vec), math.Float64bits(a.c.Height), math.Float64bits(a.c.Adjustment)),
					"b_bits": fmt.Sprintf("%x h=%x adj=%x", c21Bits(b.c.Vec), math.Float64bits(b.c.Height), math.Float64bits(b.c.Adjustment))}
			}
			if p1 != nil || p2 != nil {
				r.Violation("panic-equal-dimensions", ci, fmt.Sprintf("DistanceTo panicked on equal dimensions: %v / %v", p1, p2), wit())
				continue
			}
			if dab < 0 || dba < 0 {
				r.Violation("negative-estimate", ci, fmt.Sprintf("negative estimate: d(a,b)=%d ns d(b,a)=%d ns", dab, dba), wit())
			}
			// independent evaluations
			rawB, adjB := c21RefBig(a.c, b.c)
			rawF := c21RawFloat(a.c, b.c)
			scale := rawB + math.Abs(a.c.Adjustment) + math.Abs(b.c.Adjustment)
			tol := 1e-9*scale + 2e-9
			if math.Abs(rawF-rawB) > tol {
				// the two references disagree: the oracle itself is broken for this input
				r.Inconclusive(fmt.Sprintf("reference evaluations disagree: big=%v float=%v for %s %s", rawB, rawF, c21Str(a.c), c21Str(b.c)))
				continue
			}
			branch := ""
			var accept []float64
			switch {
			case adjB > tol:
				branch = "adjusted"
				accept = []float64{adjB}
			case adjB < -tol:
				branch = "guarded"
				accept = []float64{rawB}
			default:
				branch = "at-guard"
				accept = []float64{rawB, adjB}
			}
			cnt["branch_"+branch]++
			asym := math.Abs(float64(dab - dba))
			if asym > maxAsym {
				maxAsym = asym
			}
			if asym > 1 {
				// the failing input class is computed from the input: "at-guard" = the exact
				// adjusted sum is within rounding of zero, where the two evaluation orders
				// of the code can fall on different sides of the guard
				key := "asymmetric"
				if branch == "at-guard" {
					key = "asymmetric-at-guard-boundary"
				}
				cnt["asymmetry_"+key]++
				r.Violation(key, ci, fmt.Sprintf("d(a,b)=%d ns but d(b,a)=%d ns (adjustment class %s; exact raw=%.17g s, exact adjusted sum=%.3g s)", dab, dba, acls, rawB, adjB), wit())
			}
			for dir, got := range []time.Duration{dab, dba} {
				gs := float64(got) / 1e9
				best := math.Inf(1)
				for _, w := range accept {
					if dv := math.Abs(gs - w); dv < best {
						best = dv
					}
				}
				if best > maxDev {
					maxDev = best
				}
				if best > tol {
					r.Violation("formula-deviation-"+branch, ci,
						fmt.Sprintf("direction %d: DistanceTo=%d ns; documented formula gives raw=%.12g s, adjusted=%.12g s (branch %s, tolerance %.3g s)", dir, got, rawB, adjB, branch, tol), wit())
					break
				}
			}
			if rawB > 0 {
				sigs[fmt.Sprintf("d%d|%s/%s|%s/%s|%s|%s", dim, a.vcls, b.vcls, a.hcls, b.hcls, acls, branch)] = struct{}{}
			}
			if ci == 0 && k < 3 {
				r.Sample(map[string]any{"a": c21Str(a.c), "b": c21Str(b.c), "d_ab_ns": int64(dab), "d_ba_ns": int64(dba), "ref_raw_s": rawB, "ref_adjusted_s": adjB, "branch": branch})
			}
		}
		r.Eval(chunk)
		for k, v := range cnt {
			r.Count(k, v)
		}
		for s := range sigs {
			r.Distinct(s)
		}
		r.Max("max_deviation_from_reference_femtoseconds", int64(maxDev*1e15))
		r.Max("max_asymmetry_ns", int64(maxAsym))
	})
	if r.Counter("branch_adjusted") == 0 || r.Counter("branch_guarded") == 0 || r.Counter("branch_at-guard") == 0 || r.Counter("dimension_conflicts_raised") == 0 {
		r.Inconclusive("a branch of the formula was never observed")
	}
	r.Finish("random pairs in chunks of 2000: dimension 1-16; component classes zero/subnormal/micro/typical/large/1e4-limit/mixed, coincident/one-ulp/near pairs; heights 0..1e4 s; adjustments none/small/any sign up to 1e4 s/one-sided/at the guard boundary (sum = -raw +- ulp)/negative/cancelling/positive; distinct = (dimension, vector classes, height classes, adjustment class, formula branch) of pairs with non-zero distance",
		300,
		"components, heights and adjustments are limited to 1e4 s in magnitude (the property's 'realistic magnitudes'): beyond ~9.2e9 s the conversion to time.Duration overflows",
		"tolerance: 1e-9 x (raw distance + |adjustments|) + 2 ns; inside that band around a zero adjusted sum both branches of the guard are accepted",
		"math/big (256-bit) arithmetic is trusted as the reference")
}

func c21Bits(v []float64) []uint64 {
	out := make([]uint64, len(v))
	for i := range v {
		out[i] = math.Float64bits(v[i])
	}
	return out
}
