package props

import (
	"fmt"
	"io"
	"log"
	"math/rand"
	"os"
	"path/filepath"
	"sort"
	"strings"
	"sync"
	"testing"
	"testing/synctest"
	"time"

	"github.com/hashicorp/serf/serf"

	"verif/harness/cluster"
	"verif/harness/evid"
	"verif/harness/simnet"
)

// C13: a graceful leave is remembered across restarts.
//
// Layer 1 ("direct"): the real Snapshotter is driven with histories that contain
// exactly one Leave() at an exact point (synctest.Wait() before it), events and
// virtual-time ticks after it (post-leave compaction really runs), optional
// restarts before and after; both settings of rejoinAfterLeave and two
// compaction thresholds per history.  Every reopen is compared with the
// reference model of c10_snapmodel_test.go (leave rule: rejoin disabled =>
// empty rejoin set, enabled => the set at the moment of the leave; events after
// the leave have no effect).
// Layer 2 ("e2e"): real Serf nodes; Leave() -> Shutdown() -> snapshot reopened
// -> Create with the same snapshot; the rejoin dials seen by simnet must be none
// (rejoin disabled) or exactly the members alive at the moment of the leave.

func TestC13(t *testing.T) {
	r := evid.Start(t, "C13", "exploration")
	base := t.TempDir()

	n := r.N(400, 6000)
	r.Cases("direct", n, 0, func(ci int, rng *rand.Rand) {
		maxOps := 300
		if rng.Intn(3) == 0 {
			maxOps = 50
		}
		ops, classes := c10GenHistory(rng, c10GenOpts{MinOps: 10, MaxOps: maxOps, Newline: false, Restarts: rng.Intn(2) == 0, LeaveAt: true})
		ops = c13PostLeaveActivity(rng, ops)
		hs := c10HistoryString(ops)
		ths := []int{1, c10Thresholds[1+rng.Intn(3)]}
		for _, rejoin := range []bool{false, true} {
			for _, th := range ths {
				dir, err := os.MkdirTemp(base, "d")
				if err != nil {
					r.Inconclusive("mkdir: " + err.Error())
					return
				}
				var (
					got   c10State
					model *c10Model
					mism  []c10Mismatch
					stats c10RunStats
					derr  error
				)
				synctest.Test(t, func(t *testing.T) {
					got, model, mism, stats, derr = c10Drive(filepath.Join(dir, "snap"), ops, th, rejoin, false)
				})
				os.RemoveAll(dir)
				r.Eval(1)
				if derr != nil {
					r.Inconclusive(fmt.Sprintf("case %d: driver error %v", ci, derr))
					return
				}
				r.Count("reopen_comparisons", stats.Reopens)
				r.Count("leaves_issued", stats.Sent["LEAVE"])
				r.Count("events_sent_after_leave", stats.PostLeaveOps)
				r.Count("ticks_after_leave", stats.PostLeaveTicks)
				r.Count("compactions_after_leave", stats.PostLeaveCompactions)
				r.Count("compactions_seen", stats.Compactions)
				r.Count("sessions", stats.Sessions)
				setting := map[bool]string{false: "rejoin-disabled", true: "rejoin-enabled"}[rejoin]
				if rejoin {
					r.Count("rejoin_enabled_nonempty_set_at_leave", c13b2i(len(model.atLeave.Alive) > 0))
				} else {
					r.Count("rejoin_disabled_nonempty_set_at_leave", c13b2i(len(model.atLeave.Alive) > 0))
				}
				for _, m := range mism {
					r.Violation("direct-"+setting, ci,
						fmt.Sprintf("%s minCompactSize=%d: reopen after op %d of %d recovered %s ; reference %s (set at the moment of the leave: %s) ; classes %v ; history: %s",
							setting, th, m.At, len(ops), m.Got, m.Want, model.atLeave.String(), classes, c10Trunc(hs, 3000)),
						map[string]any{"threshold": th, "rejoin": rejoin, "ops": c10WitnessOps(ops)})
					break
				}
				_ = got
				// non-trivial: somebody was known at the moment of the leave and something happened after it
				if len(model.atLeave.Alive) > 0 && (stats.PostLeaveOps > 0 || stats.PostLeaveCompactions > 0) {
					r.Distinct(fmt.Sprintf("direct|%v|%d|%s", rejoin, th, hs))
				}
				if ci == 2 && th == 1 {
					r.Sample(map[string]any{"mode": "direct", "setting": setting, "threshold": th, "ops": len(ops),
						"set_at_leave": model.atLeave.String(), "recovered": got.String(), "events_after_leave": stats.PostLeaveOps,
						"compactions_after_leave": stats.PostLeaveCompactions, "history_head": c10Trunc(hs, 300)})
				}
			}
		}
	})

	// burst: membership events are still queued inside the snapshotter when the node shuts down
	// right after the leave (no quiescence) - they too were sent after the leave and must have no effect
	r.Cases("burst", r.N(150, 3000), 0, func(ci int, rng *rand.Rand) {
		rejoin := rng.Intn(2) == 0
		dir, err := os.MkdirTemp(base, "b")
		if err != nil {
			r.Inconclusive("mkdir: " + err.Error())
			return
		}
		defer os.RemoveAll(dir)
		path := filepath.Join(dir, "snap")
		nBefore, nBurst := 1+rng.Intn(5), 1+rng.Intn(1500)
		var got c10State
		var rerr error
		want := map[string]string{}
		synctest.Test(t, func(t *testing.T) {
			var clock serf.LamportClock
			clock.Increment()
			shut := make(chan struct{})
			out := make(chan serf.Event, 8192)
			in, snap, err := serf.NewSnapshotter(path, []int{1, 64, 128 * 1024}[rng.Intn(3)], rejoin, log.New(io.Discard, "", 0), &clock, out, shut)
			if err != nil {
				rerr = err
				return
			}
			for i := 0; i < nBefore; i++ {
				m := c10Mem{Name: fmt.Sprintf("before-%d", i), IP: []byte{10, 1, 0, byte(i + 1)}, Port: 7946}
				in <- c10Event(c10Op{Kind: "join", Members: []c10Mem{m}})
				if rejoin {
					want[m.Name] = m.addr()
				}
			}
			synctest.Wait()
			snap.Leave()
			synctest.Wait() // the moment of the leave
			for i := 0; i < nBurst; i++ {
				kind := "join"
				name := fmt.Sprintf("after-%d", i)
				if rejoin && rng.Intn(3) == 0 {
					kind, name = "failed", fmt.Sprintf("before-%d", rng.Intn(nBefore))
				}
				in <- c10Event(c10Op{Kind: kind, Members: []c10Mem{{Name: name, IP: []byte{10, 2, byte(i >> 8), byte(i)}, Port: 7946}}})
			}
			close(shut) // no quiescence: part of the burst is still queued
			snap.Wait()
			synctest.Wait()
			got, rerr = c10ReadSnapshot(path, rejoin)
			time.Sleep(time.Second)
			synctest.Wait()
		})
		r.Eval(1)
		r.Count("burst_events_after_leave", nBurst)
		if rerr != nil {
			r.Inconclusive("burst case: " + rerr.Error())
			return
		}
		wantSt := c10State{Alive: want}
		if !got.aliveEqual(wantSt) {
			r.Violation(map[bool]string{true: "burst-rejoin-enabled", false: "burst-rejoin-disabled"}[rejoin], ci, fmt.Sprintf("rejoin-after-leave=%v: %d members joined, Leave(), then %d membership events in a burst and an immediate shutdown: the reopened snapshot has the rejoin set %s, expected %s",
				rejoin, nBefore, nBurst, c10Trunc(got.String(), 400), wantSt.String()), nil)
		}
	})

	c13E2E(t, r, base)

	r.Finish("direct: random histories (10-300 steps, hostile member names except the newline class, one Leave() at an exact point, events + "+
		"clock advances + virtual-time ticks after it, restarts before/after) x {rejoin disabled, enabled} x {minCompactSize 1, one of 64/1024/131072}; "+
		"non-trivial = non-empty rejoin set at the moment of the leave and events or compactions after the leave. e2e: real nodes on simnet, "+
		"non-trivial = at least one peer alive at the moment of the leave.",
		r.N(500, 6000),
		"member names without '\\n' (that input class is the known C10 finding on the snapshot line format)",
		"the moment of the leave is exact: synctest.Wait() before Leave(); no crash during Leave()",
		"the same rejoin-after-leave setting is used before and after the restart")
}

func c13b2i(b bool) int {
	if b {
		return 1
	}
	return 0
}

// c13PostLeaveActivity makes sure that something happens after the leave in most
// histories: clock advances followed by >= 500 ms of virtual time (a tick then
// appends a clock line, which compacts when minCompactSize=1 and the set is empty),
// and member events that must be ignored.
func c13PostLeaveActivity(rng *rand.Rand, ops []c10Op) []c10Op {
	li := -1
	for i, o := range ops {
		if o.Kind == "LEAVE" {
			li = i
		}
	}
	if li < 0 || rng.Intn(8) == 0 {
		return ops
	}
	var names []c10Mem
	for _, o := range ops {
		names = append(names, o.Members...)
	}
	var clk uint64
	for _, o := range ops {
		if o.Kind == "clock" && o.LTime > clk {
			clk = o.LTime
		}
	}
	var extra []c10Op
	for k := 1 + rng.Intn(4); k > 0; k-- {
		if clk < 1<<63 {
			clk += uint64(1 + rng.Intn(3))
		}
		extra = append(extra, c10Op{Kind: "clock", LTime: clk})
		extra = append(extra, c10Op{Kind: "sleep", Gap: []time.Duration{500 * time.Millisecond, 600 * time.Millisecond, time.Second, 31 * time.Second}[rng.Intn(4)]})
		if len(names) > 0 {
			m := names[rng.Intn(len(names))]
			kind := []string{"join", "leave", "failed"}[rng.Intn(3)]
			extra = append(extra, c10Op{Kind: kind, Members: []c10Mem{m}})
		}
		if rng.Intn(2) == 0 {
			ip, port := c10GenAddr(rng)
			extra = append(extra, c10Op{Kind: "join", Members: []c10Mem{{Name: fmt.Sprintf("late%d", k), IP: ip, Port: port}}})
		}
	}
	out := append([]c10Op{}, ops[:li+1]...)
	out = append(out, extra...)
	out = append(out, ops[li+1:]...)
	return out
}

// ---------------------------------------------------------------- end to end

func c13E2E(t *testing.T, r *evid.Run, base string) {
	n := r.N(30, 400)
	r.Cases("e2e", n, 0, func(ci int, rng *rand.Rand) {
		dir, err := os.MkdirTemp(base, "e")
		if err != nil {
			r.Inconclusive("mkdir: " + err.Error())
			return
		}
		defer os.RemoveAll(dir)
		snapPath := filepath.Join(dir, "a.snap")
		rejoin := ci%2 == 1
		k := 1 + rng.Intn(3)
		type peer struct {
			name, ip string
			fate     string // before A's leave: "stay" | "leave" | "crash"
			nd       *cluster.Node
		}
		peers := make([]*peer, k)
		used := map[string]bool{"A": true}
		for i := range peers {
			cl := []string{"plain", "plain", "space-inside", "unicode", "trailing-space"}[rng.Intn(5)]
			name := c10GenName(rng, cl, ci*10+i)
			for used[name] {
				name += "x"
			}
			used[name] = true
			ip := fmt.Sprintf("10.0.3.%d", i+2)
			if rng.Intn(4) == 0 {
				ip = fmt.Sprintf("fd00::3:%x", i+2)
			}
			peers[i] = &peer{name: name, ip: ip, fate: []string{"stay", "stay", "stay", "leave", "crash"}[rng.Intn(5)]}
		}
		lateJoin := rng.Intn(2) == 0 // a new node joins the cluster after A has left
		secondRound := rng.Intn(3) == 0
		var (
			oerr              string
			atLeave           map[string]string
			snapAlive         map[string]string
			dials             = map[string]int{}
			packets           int
			mu                sync.Mutex
			membersA2         int
			snapAlive2        map[string]string
			dials2            = map[string]int{}
			lateJoinerSeenByA bool
		)
		synctest.Test(t, c10Settled(func() {
			sn := simnet.New(int64(ci) + 7)
			setRejoin := func(c *serf.Config) { c.RejoinAfterLeave = rejoin }
			a, err := cluster.Start(sn, cluster.Opts{Name: "A", IP: "10.0.3.1", Snap: snapPath, Mutate: setRejoin})
			if err != nil {
				oerr = "start A: " + err.Error()
				return
			}
			defer a.Close()
			var all []string
			for _, p := range peers {
				nd, err := cluster.Start(sn, cluster.Opts{Name: p.name, IP: p.ip})
				if err != nil {
					oerr = "start peer: " + err.Error()
					return
				}
				p.nd = nd
				defer nd.Close()
				all = append(all, nd.Addr)
				if _, err := nd.S.Join([]string{a.Addr}, false); err != nil {
					oerr = "join: " + err.Error()
					return
				}
			}
			time.Sleep(5 * time.Second)
			_ = peers[0].nd.S.UserEvent("deploy", []byte("1"), false)
			for _, p := range peers {
				switch p.fate {
				case "leave":
					_ = p.nd.S.Leave()
					p.nd.Close()
				case "crash":
					p.nd.Close()
				}
			}
			time.Sleep(45 * time.Second)
			synctest.Wait() // the moment of the leave
			atLeave = map[string]string{}
			for _, m := range a.S.Members() {
				if m.Status == serf.StatusAlive {
					atLeave[m.Name] = (&c10Mem{IP: m.Addr, Port: m.Port}).addr()
				}
			}
			if err := a.S.Leave(); err != nil {
				oerr = "leave: " + err.Error()
				return
			}
			// things that happen after the leave and must not be remembered
			if lateJoin {
				nd, err := cluster.Start(sn, cluster.Opts{Name: fmt.Sprintf("late-%d", ci), IP: "10.0.3.50"})
				if err == nil {
					defer nd.Close()
					_, _ = nd.S.Join([]string{a.Addr}, false)
					all = append(all, nd.Addr)
				}
			}
			time.Sleep(time.Duration(1+rng.Intn(5)) * time.Second)
			synctest.Wait()
			for _, m := range a.S.Members() {
				if strings.HasPrefix(m.Name, "late-") {
					lateJoinerSeenByA = true
				}
			}
			a.Close() // Shutdown()
			synctest.Wait()
			st, err := c10ReadSnapshot(snapPath, rejoin)
			if err != nil {
				oerr = "reopen: " + err.Error()
				return
			}
			snapAlive = st.Alive
			// restart: nobody can reach A and every dial of A is observed (verdict "timeout")
			sn.Partition([]string{a.Addr}, all)
			sn.OnStream = func(from, to, verdict string) {
				if from == a.Addr {
					mu.Lock()
					dials[to]++
					mu.Unlock()
				}
			}
			sn.OnPacket = func(p simnet.PacketInfo) {
				if p.From == a.Addr {
					mu.Lock()
					packets++
					mu.Unlock()
				}
			}
			a2, err := cluster.Start(sn, cluster.Opts{Name: "A", IP: "10.0.3.1", Snap: snapPath, Profile: "lan", Mutate: func(c *serf.Config) {
				setRejoin(c)
				c.ReconnectInterval = 1000 * time.Hour
			}})
			if err != nil {
				oerr = "restart A: " + err.Error()
				return
			}
			defer a2.Close()
			time.Sleep(90 * time.Second)
			synctest.Wait()
			membersA2 = len(a2.S.Members())
			if secondRound {
				// a second leave/restart round on the same file: the restarted node leaves again
				mu.Lock()
				sn.OnStream = func(from, to, verdict string) {
					if from == a.Addr {
						mu.Lock()
						dials2[to]++
						mu.Unlock()
					}
				}
				mu.Unlock()
				_ = a2.S.Leave()
				a2.Close()
				synctest.Wait()
				if st2, err := c10ReadSnapshot(snapPath, rejoin); err == nil {
					snapAlive2 = st2.Alive
				}
				a3, err := cluster.Start(sn, cluster.Opts{Name: "A", IP: "10.0.3.1", Snap: snapPath, Profile: "passive", Mutate: setRejoin})
				if err == nil {
					time.Sleep(90 * time.Second)
					synctest.Wait()
					a3.Close()
				}
			}
			mu.Lock()
			sn.OnStream, sn.OnPacket = nil, nil
			mu.Unlock()
		}))
		r.Eval(1)
		if oerr != "" {
			r.Inconclusive(fmt.Sprintf("e2e case %d: %s", ci, oerr))
			return
		}
		var names []string
		for _, p := range peers {
			names = append(names, fmt.Sprintf("%q@%s:%s", p.name, p.ip, p.fate))
		}
		sort.Strings(names)
		setting := map[bool]string{false: "rejoin-disabled", true: "rejoin-enabled"}[rejoin]
		desc := fmt.Sprintf("%s, peers %v, alive at the moment of the leave %v, late joiner %v (seen by A: %v)", setting, names, atLeave, lateJoin, lateJoinerSeenByA)
		r.Count("e2e_reopen_comparisons", 1)
		r.Count("e2e_dials_seen", len(dials))
		r.Count("e2e_late_joiner_seen_after_leave", c13b2i(lateJoinerSeenByA))
		wantSet := map[string]string{}
		if rejoin {
			wantSet = atLeave
		}
		if !(c10State{Alive: snapAlive}).aliveEqual(c10State{Alive: wantSet}) {
			r.Violation("e2e-snapshot-"+setting, ci, fmt.Sprintf("after Leave+Shutdown the snapshot holds rejoin set %v, expected %v ; %s", snapAlive, wantSet, desc), names)
		}
		wantDials := map[string]bool{}
		for name, addr := range wantSet {
			if name != "A" {
				wantDials[addr] = true
			}
		}
		bad := len(dials) != len(wantDials)
		for d := range dials {
			if !wantDials[d] {
				bad = true
			}
		}
		if bad {
			r.Violation("e2e-dials-"+setting, ci, fmt.Sprintf("restarted node dialled %v, expected %v ; %s", dials, wantDials, desc), names)
		}
		if !rejoin && (packets != 0 || membersA2 != 1) {
			r.Violation("e2e-traffic-"+setting, ci, fmt.Sprintf("restarted node sent %d packets and knows %d members although rejoin is disabled ; %s", packets, membersA2, desc), names)
		}
		if secondRound && snapAlive2 != nil {
			r.Count("e2e_second_round", 1)
			// the restarted node could reach nobody: it only ever knew itself in that session
			want2 := map[string]string{}
			if rejoin {
				want2 = atLeave // nothing changed: joins failed, no member events except its own join
			}
			if !(c10State{Alive: snapAlive2}).aliveEqual(c10State{Alive: want2}) {
				r.Violation("e2e-second-round-"+setting, ci, fmt.Sprintf("second leave: snapshot holds %v, expected %v ; %s", snapAlive2, want2, desc), names)
			}
			bad2 := false
			for d := range dials2 {
				if !wantDials[d] {
					bad2 = true
				}
			}
			if bad2 || (!rejoin && len(dials2) > 0) {
				r.Violation("e2e-second-round-dials-"+setting, ci, fmt.Sprintf("third start dialled %v, expected within %v ; %s", dials2, wantDials, desc), names)
			}
		}
		if len(atLeave) > 1 {
			r.Distinct(fmt.Sprintf("e2e|%v|%v|%v|%s", rejoin, lateJoin, secondRound, strings.Join(names, ",")))
		}
		if ci == 1 || ci == 2 {
			r.Sample(map[string]any{"mode": "e2e", "setting": setting, "peers": names, "alive_at_leave": atLeave,
				"snapshot_rejoin_set": snapAlive, "dialled_after_restart": dials, "packets_after_restart": packets})
		}
	})
}
