//go:build snapfs

package props

// Shared by C11 and C12: a recording / fault-injecting hook for the snapshotter's
// file operations (the generated overlay of tools/fsshim routes every file
// operation of the CURRENT /repo/serf/snapshot.go through serf.VerifFSHook) and a
// step-wise driver that keeps, for every step of a history, the state the
// snapshot held before and after it.

import (
	"errors"
	"fmt"
	"hash/fnv"
	"io"
	"log"
	"os"
	"path/filepath"
	"sort"
	"strings"
	"sync"
	"syscall"
	"testing/synctest"
	"time"

	"github.com/hashicorp/serf/serf"
)

// sfOpRec is one observed file operation.
type sfOpRec struct {
	Idx   int    // index among all operations of this run
	Kind  string // open read write seek fstat sync close truncate remove rename stat
	File  string // base name
	File2 string `json:",omitempty"`
	Flag  int    `json:",omitempty"`
	N     int    `json:",omitempty"` // bytes of a write
	Step  int    // driver step in progress
	Err   string `json:",omitempty"`
}

func (o sfOpRec) String() string {
	s := fmt.Sprintf("#%d %s(%s", o.Idx, o.Kind, o.File)
	if o.File2 != "" {
		s += "->" + o.File2
	}
	if o.Kind == "open" {
		var fl []string
		if o.Flag&os.O_CREATE != 0 {
			fl = append(fl, "CREATE")
		}
		if o.Flag&os.O_TRUNC != 0 {
			fl = append(fl, "TRUNC")
		}
		if o.Flag&os.O_APPEND != 0 {
			fl = append(fl, "APPEND")
		}
		s += " " + strings.Join(fl, "|")
	}
	if o.Kind == "write" {
		s += fmt.Sprintf(" %dB", o.N)
	}
	s += ")"
	if o.Err != "" {
		s += " => " + o.Err
	}
	return s
}

// sfCrashKinds are the operations the property names as crash / fault points.
var sfCrashKinds = map[string]bool{"open": true, "write": true, "sync": true, "close": true, "remove": true, "rename": true, "truncate": true}

// sfCapture is the content of the snapshot directory just before operation Before
// (process-crash semantics: what was handed to the OS is there, buffered data is not).
type sfCapture struct {
	Before sfOpRec
	Files  map[string][]byte
	Dup    bool // same content as the previous capture (not re-opened again)
}

type sfHook struct {
	mu      sync.Mutex
	dir     string
	ops     []sfOpRec
	step    int
	capture bool
	caps    []sfCapture
	lastSum uint64

	// fault plan: fail the failAt-th operation of a crash kind (counted from 0); -1 = none
	failAt     int
	failErr    error
	partial    bool
	nCrashOp   int
	injected   *sfOpRec
	injectedAt time.Time // (virtual) time of the injection
}

func newSFHook(dir string) *sfHook { return &sfHook{dir: dir, failAt: -1} }

func (h *sfHook) setStep(i int) {
	h.mu.Lock()
	h.step = i
	h.mu.Unlock()
}

func sfDirContent(dir string) (map[string][]byte, uint64) {
	files := map[string][]byte{}
	ents, _ := os.ReadDir(dir)
	names := make([]string, 0, len(ents))
	for _, e := range ents {
		if e.Type().IsRegular() {
			names = append(names, e.Name())
		}
	}
	sort.Strings(names)
	hs := fnv.New64a()
	for _, n := range names {
		b, err := os.ReadFile(filepath.Join(dir, n))
		if err != nil {
			continue
		}
		files[n] = b
		hs.Write([]byte(n))
		hs.Write([]byte{0})
		hs.Write(b)
		hs.Write([]byte{1})
	}
	return files, hs.Sum64()
}

func (h *sfHook) Before(op *serf.VerifFSOp) error {
	h.mu.Lock()
	defer h.mu.Unlock()
	rec := sfOpRec{Idx: len(h.ops), Kind: op.Kind, File: filepath.Base(op.Path), Flag: op.Flag, N: len(op.Data), Step: h.step}
	if op.Path2 != "" {
		rec.File2 = filepath.Base(op.Path2)
	}
	var inject error
	if sfCrashKinds[op.Kind] {
		if h.capture {
			files, sum := sfDirContent(h.dir)
			c := sfCapture{Before: rec}
			if len(h.caps) > 0 && sum == h.lastSum {
				c.Dup = true
			} else {
				c.Files = files
			}
			h.lastSum = sum
			h.caps = append(h.caps, c)
		}
		if h.nCrashOp == h.failAt {
			inject = h.failErr
			if inject == nil {
				inject = syscall.EIO
			}
			if h.partial && op.Kind == "write" && len(op.Data) > 1 {
				op.Partial = len(op.Data) / 2
			}
			rec.Err = "INJECTED " + inject.Error()
			r2 := rec
			h.injected = &r2
			h.injectedAt = time.Now()
		}
		h.nCrashOp++
	}
	h.ops = append(h.ops, rec)
	return inject
}

func (h *sfHook) After(op *serf.VerifFSOp) {
	if op.Err == nil {
		return
	}
	h.mu.Lock()
	defer h.mu.Unlock()
	// the record of this operation is the last one of its kind/path (operations of one
	// snapshotter are sequential)
	for i := len(h.ops) - 1; i >= 0; i-- {
		if h.ops[i].Kind == op.Kind && h.ops[i].File == filepath.Base(op.Path) {
			if h.ops[i].Err == "" {
				h.ops[i].Err = op.Err.Error()
			}
			break
		}
	}
}

// finalCapture records the directory after the last operation.
func (h *sfHook) finalCapture(step int) {
	h.mu.Lock()
	defer h.mu.Unlock()
	files, sum := sfDirContent(h.dir)
	c := sfCapture{Before: sfOpRec{Idx: len(h.ops), Kind: "end", Step: step}}
	if len(h.caps) > 0 && sum == h.lastSum {
		c.Dup = true
	} else {
		c.Files = files
	}
	h.lastSum = sum
	h.caps = append(h.caps, c)
}

// ---------------------------------------------------------------- step-wise driver

// sfStep is one step of a driven history with the state the snapshot held before
// and after it. Step 0 is the first open, steps 1..n are ops[0..n-1], step n+1
// is the final shutdown.
type sfStep struct {
	Kind      string
	Pre, Post c10State
	// Touched: member name -> addresses this step may assign ("" = removed)
	Touched   map[string][]string
	ClocksAny bool      // after a recorded leave without rejoin the clocks are reset on replay: any value accepted
	At        time.Time // (virtual) time at which the step began
}

// sfMatchPost reports whether r equals the state after step s.
func (s *sfStep) matchPost(r c10State) bool {
	if s.ClocksAny {
		return r.aliveEqual(s.Post)
	}
	return r.equal(s.Post)
}

func (s *sfStep) matchPre(r c10State, preAny bool) bool {
	if preAny {
		return r.aliveEqual(s.Pre)
	}
	return r.equal(s.Pre)
}

// matchMid reports whether r is a state the snapshot may have held in the middle
// of step s, whatever the order in which the step's parts were applied: every
// untouched member as before, every touched member as before or as one of the
// values the step gives it, every clock at its value before or after.
func (s *sfStep) matchMid(r c10State) bool {
	if !s.ClocksAny {
		in := func(v, a, b uint64) bool { return v == a || v == b }
		if !in(r.Clock, s.Pre.Clock, s.Post.Clock) || !in(r.EventClock, s.Pre.EventClock, s.Post.EventClock) ||
			!in(r.QueryClock, s.Pre.QueryClock, s.Post.QueryClock) {
			return false
		}
	}
	if s.Kind == "LEAVE" {
		return r.aliveEqual(s.Pre) || r.aliveEqual(s.Post)
	}
	names := map[string]bool{}
	for n := range r.Alive {
		names[n] = true
	}
	for n := range s.Pre.Alive {
		names[n] = true
	}
	for n := range names {
		rv, rok := r.Alive[n]
		pv, pok := s.Pre.Alive[n]
		if rok == pok && rv == pv {
			continue
		}
		vals, touched := s.Touched[n]
		if !touched {
			return false
		}
		ok := false
		for _, v := range vals {
			if (v == "" && !rok) || (v != "" && rok && rv == v) {
				ok = true
			}
		}
		if !ok {
			return false
		}
	}
	return true
}

type sfRun struct {
	Steps           []sfStep
	Sent            []string // signature of every event handed to the snapshotter
	Forwarded       []string // signature of every event seen on the pass-through channel
	Sessions        int
	Restarts        int
	RestartMismatch int
	OpenRetries     int
	FaultStep       int // step during which the fault was injected (-1 = none)
	// per restart step: what the reopen recovered and what the model expected there
	RestartRecovered map[int]c10State
	RestartExpected  map[int]c10State
	Err              error
}

func sfEventSig(e serf.Event) string {
	switch ev := e.(type) {
	case serf.MemberEvent:
		var p []string
		for _, m := range ev.Members {
			p = append(p, m.Name)
		}
		return ev.Type.String() + ":" + strings.Join(p, ",")
	case serf.UserEvent:
		return fmt.Sprintf("user:%d", ev.LTime)
	case *serf.Query:
		return fmt.Sprintf("query:%d", ev.LTime)
	}
	return fmt.Sprintf("%T", e)
}

// sfDrive runs one history against the real snapshotter in the CURRENT bubble,
// quiescing after every step. h may be nil.
func sfDrive(path string, ops []c10Op, minCompact int, rejoin bool, h *sfHook) (run sfRun) {
	run.FaultStep = -1
	model := newC10Model(rejoin)
	logger := log.New(io.Discard, "", 0)
	var (
		clock *serf.LamportClock
		shut  chan struct{}
		snap  *serf.Snapshotter
		in    chan<- serf.Event
		out   chan serf.Event
	)
	drainOut := func() {
		for len(out) > 0 {
			run.Forwarded = append(run.Forwarded, sfEventSig(<-out))
		}
	}
	open := func() error {
		clock = new(serf.LamportClock)
		clock.Increment()
		shut = make(chan struct{})
		out = make(chan serf.Event, 4096)
		var e error
		in, snap, e = serf.NewSnapshotter(path, minCompact, rejoin, logger, clock, out, shut)
		if e != nil && h != nil && h.injected != nil && run.OpenRetries == 0 {
			// the injected fault hit the open itself: the node fails to start (no crash); start it again
			run.OpenRetries++
			in, snap, e = serf.NewSnapshotter(path, minCompact, rejoin, logger, clock, out, shut)
		}
		if e != nil {
			return e
		}
		run.Sessions++
		clock.Witness(snap.LastClock())
		return nil
	}
	noteFault := func(step int) {
		if h != nil && h.injected != nil && run.FaultStep < 0 {
			run.FaultStep = step
		}
	}
	closeSession := func() {
		synctest.Wait()
		drainOut()
		close(shut)
		snap.Wait()
		synctest.Wait()
		drainOut()
	}
	clocksAny := false
	stepAt := time.Now()
	addStep := func(kind string, pre c10State, touched map[string][]string) {
		run.Steps = append(run.Steps, sfStep{Kind: kind, Pre: pre, Post: model.st.clone(), Touched: touched, ClocksAny: clocksAny, At: stepAt})
	}
	setStep := func(i int) {
		if h != nil {
			h.setStep(i)
		}
	}

	setStep(0)
	if run.Err = open(); run.Err != nil {
		return
	}
	{
		st := c10SnapState(snap)
		model.st = st.clone()
		addStep("open", st.clone(), nil)
		noteFault(0)
	}
	for i, o := range ops {
		step := i + 1
		setStep(step)
		stepAt = time.Now()
		pre := model.st.clone()
		var touched map[string][]string
		switch o.Kind {
		case "sleep":
			time.Sleep(o.Gap)
			synctest.Wait()
		case "wait":
			synctest.Wait()
		case "clock":
			clock.Witness(serf.LamportTime(o.LTime))
		case "restart":
			closeSession()
			// the shutdown sampled the member clock
			model.st.Clock = uint64(snap.LastClock())
			left := model.left
			if run.Err = open(); run.Err != nil {
				return
			}
			run.Restarts++
			st := c10SnapState(snap)
			if left && !rejoin {
				// replaying a recorded leave resets the clocks
				model.st.Clock, model.st.EventClock, model.st.QueryClock = st.Clock, st.EventClock, st.QueryClock
			}
			if run.RestartRecovered == nil {
				run.RestartRecovered, run.RestartExpected = map[int]c10State{}, map[int]c10State{}
			}
			run.RestartRecovered[step], run.RestartExpected[step] = st.clone(), model.st.clone()
			if !st.equal(model.st) {
				// a clean restart that does not restore the state is C10's subject, not this
				// driver's: adopt what was recovered so that later steps stay exact
				run.RestartMismatch++
				model.st = st.clone()
			}
			model.left = false
			clocksAny = false
		case "LEAVE":
			snap.Leave()
			synctest.Wait()
			model.apply(o)
			if !rejoin {
				clocksAny = true
			}
		default:
			ev := c10Event(o)
			run.Sent = append(run.Sent, sfEventSig(ev))
			in <- ev
			synctest.Wait()
			drainOut()
			if !model.left {
				touched = map[string][]string{}
				for _, m := range o.Members {
					switch o.Kind {
					case "join":
						touched[m.Name] = append(touched[m.Name], m.addr())
					case "leave", "failed":
						touched[m.Name] = append(touched[m.Name], "")
					}
				}
			}
			model.apply(o)
		}
		if o.Kind != "restart" {
			// the member clock component is whatever the snapshotter sampled (read at quiescence)
			model.st.Clock = uint64(snap.LastClock())
		}
		addStep(o.Kind, pre, touched)
		noteFault(step)
	}
	setStep(len(ops) + 1)
	stepAt = time.Now()
	pre := model.st.clone()
	closeSession()
	model.st.Clock = uint64(snap.LastClock())
	addStep("shutdown", pre, nil)
	noteFault(len(ops) + 1)
	if h != nil {
		h.finalCapture(len(ops) + 1)
	}
	return
}

// sfPositions returns every position r can have among the steps 0..maxStep:
// 2i = the state after step i, 2i-1 = a state strictly inside step i.
func sfPositions(steps []sfStep, r c10State, maxStep int) []int {
	var pos []int
	for i := 0; i <= maxStep && i < len(steps); i++ {
		s := &steps[i]
		post := s.matchPost(r)
		if i >= 1 && !post && s.matchMid(r) {
			// also when r equals the state before the step: a step may pass through its
			// initial state again (join x@a, x@b over x@b), so "inside step i" is a
			// position of its own for such a state
			pos = append(pos, 2*i-1)
		}
		if post {
			pos = append(pos, 2*i)
		}
	}
	return pos
}

// sfMaterialize writes a capture into a fresh directory.
func sfMaterialize(base string, c *sfCapture) (string, error) {
	dir, err := os.MkdirTemp(base, "cap")
	if err != nil {
		return "", err
	}
	for n, b := range c.Files {
		if err := os.WriteFile(filepath.Join(dir, n), b, 0o644); err != nil {
			return dir, err
		}
	}
	return dir, nil
}

func sfFileList(c *sfCapture) string {
	var p []string
	for n, b := range c.Files {
		p = append(p, fmt.Sprintf("%s(%dB)", n, len(b)))
	}
	sort.Strings(p)
	return strings.Join(p, " ")
}

var errSFInjected = errors.New("injected")

func sfFileClass(f string) string {
	if strings.HasSuffix(f, ".compact") {
		return "compact"
	}
	if f == "" {
		return "-"
	}
	return "snap"
}
