package props

import (
	"bytes"
	"encoding/base64"
	"encoding/json"
	"fmt"
	"io"
	"math/rand"
	"os"
	"path/filepath"
	"sort"
	"strings"
	"testing"
	"testing/synctest"
	"time"

	"github.com/hashicorp/memberlist"
	"github.com/hashicorp/serf/cmd/serf/command/agent"
	"github.com/hashicorp/serf/serf"

	"verif/harness/cluster"
	"verif/harness/evid"
	"verif/harness/simnet"
)

// C22: keyring changes are persisted and reload exactly.
//
// One real node with a keyring and a keyring file (loaded through the agent's
// own loader, as `serf agent -keyring-file` does at start) runs in a synctest
// bubble. Random sequences of install/use/remove/list requests go through the
// public KeyManager, one after another. After every request (at quiescence) the
// file is reloaded through agent.Create and compared with the node's live
// memberlist keyring: same key set, same primary. A request that the node
// reported as failed must leave keyring and file as they were. A small
// reference keyring predicts accept/reject and the resulting state; it is only
// used to classify cases (non-triviality) and as a harness sanity check
// (disagreement => inconclusive), not as a verdict – the statement does not say
// which requests are accepted.

type c22Op struct {
	Kind string // install | use | remove | list
	Key  string // base64 text handed to the KeyManager
	Desc string // human readable key class
	// Fault: the keyring file cannot be written while the request is handled the first time
	// (its directory is moved away); the operator then repeats the same request
	Fault bool
	// Occupied: while the request is handled the keyring file's place is taken by a directory
	// (the directory around it stays writable); the request fails with a write error, the
	// operator carries on with other requests. Until the next accepted request rewrites the
	// file, file and keyring may legitimately differ (the fault, not the node, is to blame);
	// the file must still load, and after the next accepted request they agree again.
	Occupied bool
}

type c22State struct {
	Keys    []string // base64, in ring order
	Primary string
}

func (s c22State) set() string {
	k := append([]string(nil), s.Keys...)
	sort.Strings(k)
	return strings.Join(k, ",") + " primary=" + s.Primary
}

func c22B64(b []byte) string { return base64.StdEncoding.EncodeToString(b) }

// c22Load reloads the keyring file exactly as an agent does at its next start.
func c22Load(path string) (c22State, error) {
	sc := serf.DefaultConfig()
	ac := agent.DefaultConfig()
	ac.KeyringFile = path
	if _, err := agent.Create(ac, sc, io.Discard); err != nil {
		return c22State{}, err
	}
	kr := sc.MemberlistConfig.Keyring
	if kr == nil {
		return c22State{}, fmt.Errorf("loader left no keyring")
	}
	return c22Ring(kr), nil
}

func c22Ring(kr *memberlist.Keyring) c22State {
	var st c22State
	for _, k := range kr.GetKeys() {
		st.Keys = append(st.Keys, c22B64(k))
	}
	st.Primary = c22B64(kr.GetPrimaryKey())
	return st
}

// reference keyring (ordered: primary first)
type c22Model struct{ keys []string } // raw key bytes as string

func (m *c22Model) has(k string) bool {
	for _, x := range m.keys {
		if x == k {
			return true
		}
	}
	return false
}

// apply returns (rejected, changed)
func (m *c22Model) apply(op c22Op) (bool, bool) {
	if op.Kind == "list" {
		return false, false
	}
	raw, err := base64.StdEncoding.DecodeString(op.Key)
	if err != nil {
		return true, false
	}
	k := string(raw)
	switch op.Kind {
	case "install":
		if l := len(k); l != 16 && l != 24 && l != 32 {
			return true, false
		}
		if m.has(k) {
			return false, false
		}
		m.keys = append(m.keys, k)
		return false, true
	case "use":
		if !m.has(k) {
			return true, false
		}
		if m.keys[0] == k {
			return false, false
		}
		nk := []string{k}
		for _, x := range m.keys {
			if x != k {
				nk = append(nk, x)
			}
		}
		m.keys = nk
		return false, true
	case "remove":
		if m.keys[0] == k {
			return true, false
		}
		for i, x := range m.keys {
			if x == k {
				m.keys = append(append([]string(nil), m.keys[:i]...), m.keys[i+1:]...)
				return false, true
			}
		}
		return false, false
	}
	return false, false
}

func (m *c22Model) state() c22State {
	var st c22State
	for _, k := range m.keys {
		st.Keys = append(st.Keys, c22B64([]byte(k)))
	}
	st.Primary = st.Keys[0]
	return st
}

type c22Case struct {
	Init []string // base64 keys, primary first
	Ops  []c22Op
}

func c22Gen(rng *rand.Rand) c22Case {
	// pool of valid keys of the three legal sizes
	sizes := []int{16, 24, 32}
	var pool [][]byte
	for i := 0; i < 6; i++ {
		k := make([]byte, sizes[i%3])
		rng.Read(k)
		pool = append(pool, k)
	}
	nInit := 1 + rng.Intn(3)
	perm := rng.Perm(len(pool))
	var c c22Case
	for i := 0; i < nInit; i++ {
		c.Init = append(c.Init, c22B64(pool[perm[i]]))
	}
	badLens := []int{0, 1, 8, 15, 17, 23, 25, 31, 33, 48, 64}
	badB64 := []string{"!!!not-base64!!!", "abc", "AAAA=AAA", "Zm9v YmFy", "Zm9vYmFy=", "\x00\x01"}
	nOps := 1 + rng.Intn(12)
	cur := append([]string(nil), c.Init...) // rough tracking to bias towards present keys
	if rng.Intn(15) == 0 {
		// a long history that fills the ring: 36-46 distinct keys installed one after the other
		// (a list-keys reply holds about 40), then the usual mix
		for i, n := 0, 36+rng.Intn(11); i < n; i++ {
			k := make([]byte, sizes[i%3])
			rng.Read(k)
			c.Ops = append(c.Ops, c22Op{Kind: "install", Key: c22B64(k), Desc: fmt.Sprintf("fill%d", i)})
			cur = append(cur, c22B64(k))
		}
	}
	for i := 0; i < nOps; i++ {
		var op c22Op
		switch x := rng.Intn(20); {
		case x < 7:
			op.Kind = "install"
		case x < 13:
			op.Kind = "use"
		case x < 19:
			op.Kind = "remove"
		default:
			op.Kind = "list"
		}
		switch y := rng.Intn(20); {
		case op.Kind == "list":
			op.Desc = "-"
		case y < 7: // a pool key (present or absent)
			k := pool[rng.Intn(len(pool))]
			op.Key, op.Desc = c22B64(k), fmt.Sprintf("pool%d", len(k))
		case y < 13: // a key currently believed present (non-primary when there is one)
			if len(cur) > 1 {
				op.Key, op.Desc = cur[1+rng.Intn(len(cur)-1)], "present"
			} else {
				op.Key, op.Desc = cur[0], "primary"
			}
		case y < 15: // the primary as the harness believes it
			op.Key, op.Desc = cur[0], "primary"
		case y < 18: // wrong length
			k := make([]byte, badLens[rng.Intn(len(badLens))])
			rng.Read(k)
			op.Key, op.Desc = c22B64(k), fmt.Sprintf("len%d", len(k))
		default:
			op.Key, op.Desc = badB64[rng.Intn(len(badB64))], "badb64"
		}
		if op.Kind != "list" && rng.Intn(12) == 0 {
			if rng.Intn(2) == 0 {
				op.Fault = true
				op.Desc += "+write-fault-then-repeat"
			} else {
				op.Occupied = true
				op.Desc += "+file-place-occupied"
			}
		}
		c.Ops = append(c.Ops, op)
		// keep `cur` roughly in step (only a generation bias; the oracle uses c22Model)
		m := &c22Model{}
		for _, k := range cur {
			raw, _ := base64.StdEncoding.DecodeString(k)
			m.keys = append(m.keys, string(raw))
		}
		m.apply(op)
		cur = m.state().Keys
	}
	return c
}

func (c c22Case) String() string {
	var sb strings.Builder
	fmt.Fprintf(&sb, "init=%d:", len(c.Init))
	for _, o := range c.Ops {
		fmt.Fprintf(&sb, " %s(%s)", o.Kind, o.Desc)
	}
	return sb.String()
}

type c22Result struct {
	viol               string
	violKey            string
	inconc             string
	ops                int
	accepted           int
	rejected           int
	changed            int
	rewrites           int // file content (bytes) differed after an op
	modelAgree         int
	faults             int
	noChangeUnderFault int
	occupied           int
	staleSpans         int
	healed             int
	trace              []string
}

func c22Run(t *testing.T, c c22Case, dir string, seed int64) c22Result {
	var res c22Result
	path := filepath.Join(dir, "keyring.json")
	// the keyring file as an operator creates it: JSON list of base64 keys, first = primary
	b, _ := json.MarshalIndent(c.Init, "", "  ")
	if err := os.WriteFile(path, b, 0o600); err != nil {
		res.inconc = "cannot write initial keyring file: " + err.Error()
		return res
	}
	// agent start: the loader builds the keyring the node runs with
	sc := serf.DefaultConfig()
	ac := agent.DefaultConfig()
	ac.KeyringFile = path
	if _, err := agent.Create(ac, sc, io.Discard); err != nil {
		res.inconc = "loader refused the initial keyring file: " + err.Error()
		return res
	}
	ring := sc.MemberlistConfig.Keyring
	model := &c22Model{}
	for _, k := range c.Init {
		raw, _ := base64.StdEncoding.DecodeString(k)
		model.keys = append(model.keys, string(raw))
	}

	synctest.Test(t, func(t *testing.T) {
		net := simnet.New(seed)
		// runs after every Close below: virtual time stops when the bubble's root function returns, so let
		// timer-bound goroutines of the closed instances (probe timeouts against dead peers) run out first
		defer time.Sleep(time.Minute)
		nd, err := cluster.Start(net, cluster.Opts{Name: "n1", IP: "10.0.0.1", Keyring: ring,
			Mutate: func(sc *serf.Config) { sc.KeyringFile = path }})
		if err != nil {
			res.inconc = "node start: " + err.Error()
			return
		}
		defer nd.Close()
		km := nd.S.KeyManager()
		synctest.Wait()

		stale := false // a write fault left the file behind the keyring; the next accepted request heals it
		check := func(step string) (c22State, c22State, []byte, bool) {
			live := c22Ring(nd.ML.Keyring)
			raw, _ := os.ReadFile(path)
			file, err := c22Load(path)
			if err != nil {
				res.viol = fmt.Sprintf("%s: keyring file does not load at the next start: %v (file: %q; live keyring: %s)", step, err, raw, live.set())
				res.violKey = "file-unloadable"
				return live, file, raw, false
			}
			if file.set() != live.set() && !stale {
				res.viol = fmt.Sprintf("%s: keyring file loads into {%s} but the node's keyring is {%s}", step, file.set(), live.set())
				res.violKey = "file-differs-from-keyring"
				return live, file, raw, false
			}
			return live, file, raw, true
		}
		// noChange: by the reference, the request leaves key set and primary key as they are (a copy is
		// asked, the reference itself is not touched)
		noChange := func(op c22Op) bool {
			cp := c22Model{keys: append([]string(nil), model.keys...)}
			_, chg := cp.apply(op)
			return !chg && op.Kind != "list"
		}
		prevLive, prevFile, prevRaw, ok := check("before any request")
		if !ok {
			return
		}
		for i, op := range c.Ops {
			var err error
			var kr *serf.KeyResponse
			if op.Occupied {
				kept := path + ".kept-by-harness"
				if os.Rename(path, kept) != nil || os.Mkdir(path, 0o700) != nil {
					res.inconc = "cannot occupy the keyring file's place"
					return
				}
				switch op.Kind {
				case "install":
					_, _ = km.InstallKey(op.Key)
				case "use":
					_, _ = km.UseKey(op.Key)
				case "remove":
					_, _ = km.RemoveKey(op.Key)
				}
				synctest.Wait()
				if os.Remove(path) != nil || os.Rename(kept, path) != nil {
					res.inconc = "cannot restore the keyring file"
					return
				}
				res.occupied++
				live := c22Ring(nd.ML.Keyring)
				if noChange(op) {
					res.noChangeUnderFault++
					if !stale && live.set() != prevLive.set() {
						res.viol = fmt.Sprintf("step %d %s(%s key=%q), handled while the keyring file could not be written, asks for nothing to change (the key is already installed / not in the keyring / already primary / invalid), so no write was needed; yet the node's keyring went from {%s} to {%s} and the file still loads into {%s}", i, op.Kind, op.Desc, op.Key, prevLive.set(), live.set(), prevFile.set())
						res.violKey = "file-differs-from-keyring/no-change-request-under-write-fault"
						return
					}
				}
				if live.set() != prevLive.set() {
					stale = true
					res.staleSpans++
				}
				// the reference follows the node: what a request does to the keyring when its file write
				// fails is not part of the property
				model.keys = nil
				for _, k := range live.Keys {
					raw, _ := base64.StdEncoding.DecodeString(k)
					model.keys = append(model.keys, string(raw))
				}
				prevLive = live
				res.trace = append(res.trace, fmt.Sprintf("step %d %s(%s key=%q) with the file's place occupied -> live={%s}", i, op.Kind, op.Desc, op.Key, live.set()))
				continue
			}
			if op.Fault {
				// first attempt while the file cannot be written; only survival is judged here
				away := dir + ".away"
				if os.Rename(dir, away) == nil {
					switch op.Kind {
					case "install":
						_, _ = km.InstallKey(op.Key)
					case "use":
						_, _ = km.UseKey(op.Key)
					case "remove":
						_, _ = km.RemoveKey(op.Key)
					}
					synctest.Wait()
					_ = os.Rename(away, dir)
					res.faults++
					if noChange(op) {
						res.noChangeUnderFault++
						if live := c22Ring(nd.ML.Keyring); !stale && live.set() != prevLive.set() {
							res.viol = fmt.Sprintf("step %d %s(%s key=%q), first handled while the keyring file could not be written, asks for nothing to change (the key is already installed / not in the keyring / already primary / invalid), so no write was needed; yet the node's keyring went from {%s} to {%s} and the file still loads into {%s}", i, op.Kind, op.Desc, op.Key, prevLive.set(), live.set(), prevFile.set())
							res.violKey = "file-differs-from-keyring/no-change-request-under-write-fault"
							return
						}
					}
				}
			}
			switch op.Kind {
			case "install":
				kr, err = km.InstallKey(op.Key)
			case "use":
				kr, err = km.UseKey(op.Key)
			case "remove":
				kr, err = km.RemoveKey(op.Key)
			case "list":
				kr, err = km.ListKeys()
			}
			synctest.Wait()
			res.ops++
			step := fmt.Sprintf("step %d %s(%s key=%q)", i, op.Kind, op.Desc, op.Key)
			rejected := err != nil
			if !rejected && op.Kind != "list" && stale {
				stale = false // an accepted request rewrites the whole file
				res.healed++
			}
			mRej, mChg := model.apply(op)
			if kr != nil && err == nil && (kr.NumResp != 1 || kr.NumNodes != 1) {
				res.inconc = fmt.Sprintf("%s: unexpected reply count %d/%d on a single node", step, kr.NumResp, kr.NumNodes)
				return
			}
			live, file, raw, ok := check("after " + step)
			res.trace = append(res.trace, fmt.Sprintf("%s -> err=%v live={%s}", step, err, live.set()))
			if !ok {
				return
			}
			if rejected {
				res.rejected++
				if strings.Join(live.Keys, ",") != strings.Join(prevLive.Keys, ",") {
					res.viol = fmt.Sprintf("after %s: request was rejected (%v) but the keyring changed from [%s] to [%s]", step, err, strings.Join(prevLive.Keys, ","), strings.Join(live.Keys, ","))
					res.violKey = "rejected-changed-keyring"
					return
				}
				if !bytes.Equal(raw, prevRaw) && strings.Join(file.Keys, ",") != strings.Join(prevFile.Keys, ",") {
					res.viol = fmt.Sprintf("after %s: request was rejected (%v) but the file changed from [%s] to [%s]", step, err, strings.Join(prevFile.Keys, ","), strings.Join(file.Keys, ","))
					res.violKey = "rejected-changed-file"
					return
				}
			} else {
				res.accepted++
			}
			if !bytes.Equal(raw, prevRaw) {
				res.rewrites++
			}
			if live.set() != prevLive.set() {
				res.changed++
			}
			// harness sanity: the reference keyring must agree with what the node did
			if mRej != rejected || model.state().set() != live.set() || mChg != (live.set() != prevLive.set()) {
				res.inconc = fmt.Sprintf("after %s: reference keyring disagrees with the node (model rejected=%v state={%s}; node err=%v state={%s})", step, mRej, model.state().set(), err, live.set())
				return
			}
			res.modelAgree++
			prevLive, prevFile, prevRaw = live, file, raw
		}
	})
	return res
}

func TestC22(t *testing.T) {
	r := evid.Start(t, "C22", "exploration")
	n := r.N(6000, 150000)
	base, err := os.MkdirTemp("", "verif-c22-")
	if err != nil {
		r.Inconclusive("no temp dir: " + err.Error())
		r.Finish("n/a", 1)
		return
	}
	defer os.RemoveAll(base)
	r.Cases("seq", n, 0, func(ci int, rng *rand.Rand) {
		c := c22Gen(rng)
		dir := filepath.Join(base, fmt.Sprint(ci))
		_ = os.MkdirAll(dir, 0o700)
		res := c22Run(t, c, dir, int64(ci))
		_ = os.RemoveAll(dir)
		r.Eval(1)
		r.Count("requests", res.ops)
		r.Count("requests_accepted", res.accepted)
		r.Count("requests_rejected", res.rejected)
		r.Count("keyring_changes", res.changed)
		r.Count("file_rewrites_with_new_content", res.rewrites)
		r.Count("file_reloads_compared", res.ops+1)
		r.Count("model_agreements", res.modelAgree)
		r.Count("requests_repeated_after_a_failed_file_write", res.faults)
		r.Count("requests_changing_nothing_handled_under_a_write_fault", res.noChangeUnderFault)
		r.Count("requests_failed_with_the_file_place_occupied", res.occupied)
		r.Count("of_those_leaving_the_file_behind_the_keyring", res.staleSpans)
		r.Count("stale_files_healed_by_the_next_accepted_request", res.healed)
		r.Max("max_requests_in_sequence", int64(res.ops))
		if res.inconc != "" {
			r.Inconclusive(fmt.Sprintf("case %d: %s", ci, res.inconc))
		}
		if res.viol != "" {
			r.Violation(res.violKey, ci, res.viol+" ; sequence: "+c.String(), map[string]any{"init": c.Init, "ops": c.Ops, "trace": res.trace})
		}
		if res.changed > 0 && res.inconc == "" {
			r.Distinct(c.String())
		}
		if ci < 3 {
			r.Sample(map[string]any{"sequence": c.String(), "trace": res.trace})
		}
	})
	r.Finish("random sequences of 1-12 install/use/remove/list requests through the public KeyManager on one real node started from a keyring file (1-3 keys) loaded by the agent loader; keys: 6 valid pool keys (16/24/32 bytes), currently present keys, the primary, wrong lengths (0..64), invalid base64; after every request the file is reloaded with agent.Create and compared (key set + primary) with the live memberlist keyring; non-trivial = at least one request changed the keyring; distinct by (initial size, request kinds and key classes)",
		r.N(1500, 30000),
		"requests are issued one after another (the statement's 'handled one after another')",
		"a request counts as rejected when the KeyManager call returned an error",
		"file/keyring equality is compared as key set + primary key, as the statement words it")
}
