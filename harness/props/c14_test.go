package props

import (
	"fmt"
	"math"
	"math/rand"
	"net"
	"os"
	"path/filepath"
	"strings"
	"testing"
	"testing/synctest"
	"time"

	"github.com/hashicorp/serf/serf"

	"verif/harness/cluster"
	"verif/harness/evid"
	"verif/harness/simnet"
	"verif/harness/wire"
)

// C14: a node restarted from its snapshot never delivers a user event or query
// whose Lamport time is at or below the newest one recorded in the snapshot,
// however the message reaches it (gossip, state sync, join replay).
//
// One scenario = one bubble: a real node A with a snapshot and a real peer B.
// Old messages are delivered to A (and B), virtual time passes so that the
// snapshot records them, A is crashed, its snapshot file is read (cut-offs),
// A is re-created from the snapshot and old, boundary and new messages are
// replayed through every path; every delivery on the restarted node's EventCh
// is attributed to the path that caused it and compared with the cut-offs.

type c14Msg struct {
	Query   bool
	LTime   uint64
	Name    string
	Payload []byte
	ID      uint32
	Flags   uint32
	CC      bool
	Class   string // "old" (delivered before the crash) | "old-unseen" | "boundary" | "new"
}

func (m c14Msg) String() string {
	k := "U"
	if m.Query {
		k = "Q"
	}
	return fmt.Sprintf("%s(%d,%q,%s)", k, m.LTime, m.Name, m.Class)
}

func (m c14Msg) encode(srcIP net.IP, srcPort uint16, srcName string) []byte {
	if m.Query {
		return wire.Encode(wire.Query, &wire.MsgQuery{LTime: m.LTime, ID: m.ID, Addr: []byte(srcIP), Port: srcPort, SourceNode: srcName,
			Flags: m.Flags, Timeout: 5 * time.Second, Name: m.Name, Payload: m.Payload})
	}
	return wire.Encode(wire.UserEvent, &wire.MsgUserEvent{LTime: m.LTime, Name: m.Name, Payload: m.Payload, CC: m.CC})
}

// c14PushPull builds a harness-encoded state-sync message carrying user events.
func c14PushPull(rng *rand.Rand, msgs []c14Msg, peerName string) []byte {
	by := map[uint64]*wire.UserEvents{}
	var order []uint64
	var maxL uint64
	for _, m := range msgs {
		if m.Query {
			continue
		}
		ue := by[m.LTime]
		if ue == nil {
			ue = &wire.UserEvents{LTime: m.LTime}
			by[m.LTime] = ue
			order = append(order, m.LTime)
		}
		ue.Events = append(ue.Events, wire.UserEv{Name: m.Name, Payload: m.Payload})
		if m.LTime > maxL {
			maxL = m.LTime
		}
	}
	pp := wire.MsgPushPull{LTime: 1, StatusLTimes: map[string]uint64{peerName: 1}, LeftMembers: []string{}, EventLTime: maxL + 1, QueryLTime: 1}
	for _, l := range order {
		if rng.Intn(4) == 0 {
			pp.Events = append(pp.Events, nil) // serf's ring buffer has empty slots
		}
		pp.Events = append(pp.Events, by[l])
	}
	return wire.Encode(wire.PushPull, &pp)
}

type c14Delivery struct {
	Query   bool
	LTime   uint64
	Name    string
	Payload string
}

func (d c14Delivery) String() string {
	k := "U"
	if d.Query {
		k = "Q"
	}
	return fmt.Sprintf("%s(%d,%q,#%s)", k, d.LTime, d.Name, d.Payload)
}

// c14Deliveries returns the user events / queries in the node's event log from raw
// index `from` on, and the raw length of the log.
func c14Deliveries(nd *cluster.Node, from int) ([]c14Delivery, int) {
	var out []c14Delivery
	evs := nd.Events()
	for _, le := range evs[from:] {
		switch e := le.E.(type) {
		case serf.UserEvent:
			out = append(out, c14Delivery{LTime: uint64(e.LTime), Name: e.Name, Payload: string(e.Payload)})
		case *serf.Query:
			out = append(out, c14Delivery{Query: true, LTime: uint64(e.LTime), Name: e.Name, Payload: string(e.Payload)})
		}
	}
	return out, len(evs)
}

// c14AfterCompaction: the node is stopped right after its snapshot was compacted (a real node
// compacts once the file passes 128 KiB: several thousand events), the compaction having been
// set off by the newest event or query itself. The restarted node must not deliver that newest
// message, nor any older one, again.
func c14AfterCompaction(t *testing.T, rng *rand.Rand, base string, ci int) (viol string, stats map[string]int, setupErr string) {
	stats = map[string]int{}
	dir, err := os.MkdirTemp(base, "ac")
	if err != nil {
		return "", stats, err.Error()
	}
	defer os.RemoveAll(dir)
	snap := filepath.Join(dir, "snap")
	queries := rng.Intn(2) == 0
	synctest.Test(t, c10Settled(func() {
		nw := simnet.New(int64(ci))
		nd, err := cluster.Start(nw, cluster.Opts{Name: "ac", IP: "10.14.9.1", Profile: "passive", Snap: snap, EventBuf: 1 << 16})
		if err != nil {
			setupErr = err.Error()
			return
		}
		closed := false
		defer func() {
			if !closed {
				nd.Close()
			}
		}()
		mk := func(lt uint64) []byte {
			if queries {
				return wire.Encode(wire.Query, &wire.MsgQuery{LTime: lt, ID: uint32(lt), Addr: []byte{10, 14, 9, 2}, Port: 7946, SourceNode: "src", Timeout: time.Second, Name: "q"})
			}
			return wire.Encode(wire.UserEvent, &wire.MsgUserEvent{LTime: lt, Name: "e", Payload: []byte("p")})
		}
		ino0, _ := c10Inode(snap)
		var last uint64
		start := uint64(1 + rng.Intn(1000))
		for lt := start; lt < start+20000; lt++ {
			nd.NotifyMsg(mk(lt))
			synctest.Wait()
			last = lt
			if ino, _ := c10Inode(snap); ino != ino0 && ino0 != 0 {
				stats["compaction_set_off_by_newest_message"]++
				break
			}
			if lt%64 == 0 {
				time.Sleep(600 * time.Millisecond) // let the periodic flush run
			}
		}
		if stats["compaction_set_off_by_newest_message"] == 0 {
			setupErr = "no compaction within 20000 messages"
			return
		}
		stats["messages_before_compaction"] = int(last - start + 1)
		nd.Close() // stop at once
		closed = true
		nd2, err := cluster.Start(nw, cluster.Opts{Name: "ac", IP: "10.14.9.1", Profile: "passive", Snap: snap, EventBuf: 1 << 16})
		if err != nil {
			setupErr = "restart: " + err.Error()
			return
		}
		defer nd2.Close()
		before := nd2.EventCount()
		for _, lt := range []uint64{last, last - 1, last - 2, start} {
			nd2.NotifyMsg(mk(lt))
		}
		synctest.Wait()
		for _, le := range nd2.Events()[before:] {
			var got uint64
			switch e := le.E.(type) {
			case serf.UserEvent:
				got = uint64(e.LTime)
			case *serf.Query:
				got = uint64(e.LTime)
			default:
				continue
			}
			if got <= last {
				viol = fmt.Sprintf("node stopped right after the snapshot compaction that message %d (queries=%v) had set off, %d messages after the first; restarted from the snapshot it delivered message %d again", last, queries, last-start+1, got)
			}
		}
		// a newer one is still delivered
		nd2.NotifyMsg(mk(last + 1))
		synctest.Wait()
		stats["restarts_after_compaction"]++
	}))
	return
}

func TestC14(t *testing.T) {
	r := evid.Start(t, "C14", "exploration")
	base := t.TempDir()
	n := r.N(500, 10000)
	r.Cases("after-compaction", r.N(6, 100), 0, func(ci int, rng *rand.Rand) {
		viol, stats, setupErr := c14AfterCompaction(t, rng, base, ci)
		r.Eval(1)
		for k, v := range stats {
			r.Count(k, v)
		}
		if setupErr != "" {
			r.Inconclusive("after-compaction case: " + setupErr)
			return
		}
		if viol != "" {
			r.Violation("redelivered-after-compaction", ci, viol, viol)
		}
	})
	r.Cases("restart", n, 0, func(ci int, rng *rand.Rand) {
		dir, err := os.MkdirTemp(base, "c")
		if err != nil {
			r.Inconclusive("mkdir: " + err.Error())
			return
		}
		defer os.RemoveAll(dir)
		snapPath := filepath.Join(dir, "a.snap")
		profile := "passive"
		if ci%4 == 3 {
			profile = "lan" // real gossip / reconnect / push-pull loops carry the replays as well
		}
		preJoined := rng.Intn(2) == 0 // A knows B before the crash => automatic rejoin (join replay) at restart
		rounds := 1 + rng.Intn(4)/3   // 1/4 of the scenarios restart twice
		// a fifth of the nodes were upgraded from a release that persisted its network coordinate: their
		// snapshot starts with lines today's replay skips. They restart twice.
		legacy := rng.Intn(5) == 0
		if legacy {
			rounds = 2
			head := "clock: 1\n"
			for k := 1 + rng.Intn(3); k > 0; k-- {
				head += fmt.Sprintf("coordinate: {\"Vec\":[0.0%d,0,0,0,0,0,0,0],\"Error\":1.5,\"Adjustment\":0,\"Height\":1e-05}\n", k)
			}
			// ... followed by what that release went on to record (its clock, once per second)
			for k := rng.Intn(60); k > 0; k-- {
				head += fmt.Sprintf("clock: %d\n", 1+k/8)
			}
			if err := os.WriteFile(snapPath, []byte(head), 0o644); err != nil {
				r.Inconclusive("seed snapshot: " + err.Error())
				return
			}
			r.Count("nodes_with_a_snapshot_from_an_older_release", 1)
		}
		lbase := []uint64{0, 1, 2, 40, 511, 512, 513, 5000, 1 << 32, 1 << 63, math.MaxUint64 - 200}[rng.Intn(11)]
		qbase := []uint64{0, 1, 7, 512, 100000, 1 << 40, math.MaxUint64 - 200}[rng.Intn(7)]
		uniq := 0
		gen := func(query bool, lt uint64, class string) c14Msg {
			uniq++
			m := c14Msg{Query: query, LTime: lt, Class: class, Name: []string{"deploy", "restart", "x", ""}[rng.Intn(4)],
				Payload: []byte(fmt.Sprintf("%d-%d", ci, uniq)), ID: rng.Uint32(), CC: rng.Intn(3) == 0}
			if query {
				m.Flags = []uint32{0, 0, wire.FlagAck, wire.FlagNoBroadcast}[rng.Intn(4)]
				if rng.Intn(12) == 0 {
					m.Name = "_serf_ping" // internal query: recorded in the snapshot, never delivered
				}
			}
			return m
		}
		var old []c14Msg
		for k := 1 + rng.Intn(24); k > 0; k-- {
			q := rng.Intn(5) < 2
			b := lbase
			if q {
				b = qbase
			}
			old = append(old, gen(q, b+uint64(rng.Intn(40)), "old"))
		}

		type violation struct{ key, msg string }
		var (
			oerr     string
			viols    []violation
			trace    []string
			counts   = map[string]int{}
			pathsOld = map[string]bool{}
			newDeliv int
		)
		note := func(f string, a ...any) {
			if len(trace) < 400 {
				trace = append(trace, fmt.Sprintf(f, a...))
			}
		}
		synctest.Test(t, c10Settled(func() {
			sn := simnet.New(int64(ci) + 11)
			bNode, err := cluster.Start(sn, cluster.Opts{Name: "B", IP: "10.0.4.2", Profile: profile})
			if err != nil {
				oerr = "start B: " + err.Error()
				return
			}
			defer bNode.Close()
			bIP, bPort := net.ParseIP("10.0.4.2").To4(), uint16(7946)
			enc := func(m c14Msg) []byte { return m.encode(bIP, bPort, "B") }
			start := func() (*cluster.Node, error) {
				return cluster.Start(sn, cluster.Opts{Name: "A", IP: "10.0.4.1", Snap: snapPath, Profile: profile})
			}
			a, err := start()
			if err != nil {
				oerr = "start A: " + err.Error()
				return
			}
			defer func() { a.Close() }()
			if preJoined {
				if _, err := a.S.Join([]string{bNode.Addr}, false); err != nil {
					oerr = "join: " + err.Error()
					return
				}
			}
			synctest.Wait()

			// ---- before the crash: deliver the old messages to A (and to B, whose buffer will replay them)
			for _, m := range old {
				switch {
				case !m.Query && rng.Intn(4) == 0:
					a.ML.Delegate.MergeRemoteState(c14PushPull(rng, []c14Msg{m}, "B"), rng.Intn(2) == 0)
				default:
					a.NotifyMsg(enc(m))
				}
				if rng.Intn(4) != 0 {
					bNode.NotifyMsg(enc(m))
				}
				if rng.Intn(3) == 0 {
					time.Sleep(time.Duration(rng.Intn(400)) * time.Millisecond)
				}
			}
			known := append([]c14Msg{}, old...) // everything ever sent with an LTime that may end up at or below a cut-off
			var prevCutE, prevCutQ uint64
			for round := 1; round <= rounds; round++ {
				// "the snapshot keeps up": quiescence, >= 1 s of virtual time (flush + clock tick), quiescence
				synctest.Wait()
				time.Sleep(1500 * time.Millisecond)
				synctest.Wait()
				var maxE, maxQ uint64
				var anyE, anyQ bool
				before, _ := c14Deliveries(a, 0)
				for _, d := range before {
					if d.Query {
						anyQ = true
						if d.LTime > maxQ {
							maxQ = d.LTime
						}
					} else {
						anyE = true
						if d.LTime > maxE {
							maxE = d.LTime
						}
					}
				}
				counts["delivered_before_crash"] += len(before)
				a.Close() // crash: Shutdown without Leave
				synctest.Wait()
				st, err := c10ReadSnapshot(snapPath, false)
				if err != nil {
					oerr = "reopen: " + err.Error()
					return
				}
				cutE, cutQ := st.EventClock, st.QueryClock
				counts["snapshots_read"]++
				note("round %d: delivered max user=%d(%v) query=%d(%v); snapshot records event-clock=%d query-clock=%d", round, maxE, anyE, maxQ, anyQ, cutE, cutQ)
				// everything delivered must have been recorded (otherwise the restart cannot know about it)
				if anyE && cutE < maxE {
					viols = append(viols, violation{"not-recorded:user", fmt.Sprintf("round %d: user event with LTime %d was delivered, %v of quiet virtual time passed, but the snapshot records event clock %d", round, maxE, 1500*time.Millisecond, cutE)})
				}
				if anyQ && cutQ < maxQ {
					viols = append(viols, violation{"not-recorded:query", fmt.Sprintf("round %d: query with LTime %d was delivered but the snapshot records query clock %d", round, maxQ, cutQ)})
				}
				if cutE < prevCutE || cutQ < prevCutQ {
					viols = append(viols, violation{"cutoff-went-back", fmt.Sprintf("round %d: recorded clocks %d/%d after %d/%d in the previous incarnation", round, cutE, cutQ, prevCutE, prevCutQ)})
				}
				prevCutE, prevCutQ = cutE, cutQ
				if cutE >= math.MaxUint64-1 || cutQ >= math.MaxUint64-1 {
					oerr = "cut-off at 2^64-1 (excluded)"
					return
				}

				// B may learn new and old messages while A is down
				var fresh []c14Msg
				for k := rng.Intn(6); k > 0; k-- {
					q := rng.Intn(5) < 2
					var m c14Msg
					switch x := rng.Intn(4); {
					case x == 0: // boundary: exactly the cut-off (never delivered content)
						m = gen(q, map[bool]uint64{false: cutE, true: cutQ}[q], "boundary")
					case x == 1:
						c := map[bool]uint64{false: cutE, true: cutQ}[q]
						m = gen(q, c-uint64(rng.Int63n(int64(min(c, 30))+1)), "old-unseen")
					default:
						m = gen(q, map[bool]uint64{false: cutE, true: cutQ}[q]+1+uint64(rng.Intn(20)), "new")
					}
					fresh = append(fresh, m)
					bNode.NotifyMsg(enc(m))
				}
				known = append(known, fresh...)
				synctest.Wait()

				// ---- restart from the snapshot
				a, err = start()
				if err != nil {
					oerr = "restart A: " + err.Error()
					return
				}
				counts["restarts"]++
				seen := 0
				check := func(path string) {
					synctest.Wait()
					ds, next := c14Deliveries(a, seen)
					seen = next
					for _, d := range ds {
						cut := cutE
						kind := "user"
						if d.Query {
							cut, kind = cutQ, "query"
						}
						counts["deliveries_after_restart"]++
						if d.LTime <= cut {
							viols = append(viols, violation{"redelivery:" + kind + ":" + path,
								fmt.Sprintf("round %d: restarted node delivered %s %q with LTime %d via %s; the snapshot had recorded %s clock %d", round, kind, d.Name, d.LTime, path, kind, cut)})
						} else {
							newDeliv++
						}
					}
					if len(ds) > 0 {
						note("  %s -> delivered %v", path, ds)
					}
				}
				isOld := func(m c14Msg) bool {
					if m.Query {
						return m.LTime <= cutQ
					}
					return m.LTime <= cutE
				}
				check("automatic-rejoin") // Create may already have re-joined B (push/pull with join=true)
				if profile == "lan" {
					time.Sleep(40 * time.Second) // B's reconnect loop, gossip and periodic push/pull
					check("background-lan")
				}

				// candidates: all old ones again, contents never seen with old LTimes, boundaries, new ones
				var extra []c14Msg
				for _, q := range []bool{false, true} {
					c := map[bool]uint64{false: cutE, true: cutQ}[q]
					extra = append(extra, gen(q, c, "boundary"), gen(q, c+1, "new"))
					for k := rng.Intn(4); k > 0; k-- {
						extra = append(extra, gen(q, c-uint64(rng.Int63n(int64(min(c, 600))+1)), "old-unseen"))
					}
					for k := rng.Intn(4); k > 0; k-- {
						extra = append(extra, gen(q, c+2+uint64(rng.Intn(30)), "new"))
					}
				}
				known = append(known, extra...)
				cand := append([]c14Msg{}, known...)
				rng.Shuffle(len(cand), func(i, j int) { cand[i], cand[j] = cand[j], cand[i] })
				joined := false
				for i := 0; i < len(cand); {
					m := cand[i]
					path := []string{"gossip", "gossip", "pushpull", "pushpull-join", "peer-rebroadcast", "join", "join-ignore-old"}[rng.Intn(7)]
					switch path {
					case "gossip":
						a.NotifyMsg(enc(m))
						i++
						if isOld(m) {
							pathsOld[path] = true
							counts["old_replayed_via_"+path]++
						}
					case "pushpull", "pushpull-join":
						// a batch of user events in one state-sync message
						var batch []c14Msg
						for j := i; j < len(cand) && len(batch) < 1+rng.Intn(8); j++ {
							if !cand[j].Query {
								batch = append(batch, cand[j])
							}
						}
						i++
						if len(batch) == 0 {
							continue
						}
						for _, bm := range batch {
							if isOld(bm) {
								pathsOld[path] = true
								counts["old_replayed_via_"+path]++
							}
						}
						a.ML.Delegate.MergeRemoteState(c14PushPull(rng, batch, "B"), path == "pushpull-join")
					case "peer-rebroadcast":
						// B accepts the message and its own rebroadcast (a real serf message) is handed to A
						bNode.NotifyMsg(enc(m))
						i++
						for _, raw := range bNode.DrainBroadcasts() {
							if len(raw) > 0 && (raw[0] == wire.UserEvent || raw[0] == wire.Query) {
								a.NotifyMsg(raw)
								counts["peer_rebroadcasts_delivered"]++
							}
						}
						if isOld(m) {
							pathsOld[path] = true
							counts["old_replayed_via_"+path]++
						}
					case "join", "join-ignore-old":
						// a real Join: B's LocalState (its event buffer holds old and new events) is merged with join=true
						if joined && rng.Intn(3) != 0 {
							continue
						}
						if !m.Query {
							bNode.NotifyMsg(enc(m))
							i++
						}
						held := 0
						if st, err := bNode.State(); err == nil {
							for _, ue := range st.Events {
								if ue != nil && ue.LTime <= cutE {
									held += len(ue.Events)
								}
							}
						}
						if _, err := a.S.Join([]string{bNode.Addr}, path == "join-ignore-old"); err != nil {
							note("  join failed: %v", err)
							continue
						}
						joined = true
						counts["real_joins"]++
						if held > 0 {
							pathsOld[path] = true
							counts["old_replayed_via_"+path] += held
						}
					}
					check(path)
				}
				if profile == "lan" {
					time.Sleep(35 * time.Second)
					check("background-lan")
				}
				if st, err := bNode.State(); err == nil {
					for _, ue := range st.Events {
						if ue != nil {
							counts["peer_buffer_events"] += len(ue.Events)
						}
					}
				}
			}
		}))
		r.Eval(1)
		if oerr != "" {
			if strings.HasPrefix(oerr, "cut-off at") {
				r.Count("scenarios_excluded_max_uint64", 1)
				return
			}
			r.Inconclusive(fmt.Sprintf("case %d: %s", ci, oerr))
			return
		}
		for k, v := range counts {
			r.Count(k, v)
		}
		r.Count("new_messages_delivered_after_restart", newDeliv)
		var olds []string
		for _, m := range old {
			olds = append(olds, m.String())
		}
		desc := fmt.Sprintf("profile=%s preJoined=%v rounds=%d old=%v", profile, preJoined, rounds, olds)
		reported := map[string]bool{}
		for _, v := range viols {
			if reported[v.key] {
				continue
			}
			reported[v.key] = true
			r.Violation(v.key, ci, v.msg+" ; "+desc, map[string]any{"scenario": desc, "trace": trace})
		}
		// non-trivial: old messages were replayed through at least two different paths and the
		// restarted node was shown to deliver newer ones (the guard is not simply closed)
		if len(pathsOld) >= 2 && newDeliv > 0 {
			r.Distinct(desc)
		}
		if ci == 0 || ci == 3 {
			tr := trace
			if len(tr) > 12 {
				tr = tr[:12]
			}
			r.Sample(map[string]any{"scenario": c10Trunc(desc, 600), "trace_head": tr})
		}
	})
	r.Finish("random restart scenarios: 1-24 old user events/queries (LTime bases 0..2^64-200, several per LTime, internal queries, ack/no-broadcast flags) "+
		"delivered to a real node with a snapshot via gossip or state sync; >=1.5 s quiet virtual time; crash; cut-offs read from the snapshot file; restart (1 or 2 "+
		"rounds); replay of old / never-seen-old / boundary / new messages via gossip, harness-encoded push/pull (join and non-join), the peer's real rebroadcasts, "+
		"real Join (with and without ignoreOld), automatic rejoin, and (lan profile) the real gossip/reconnect/push-pull loops; non-trivial = old messages replayed "+
		"through >= 2 paths and at least one newer message delivered after the restart.",
		r.N(300, 6000),
		"LTime 2^64-1 is never generated and scenarios whose cut-off would reach it are excluded (DESIGN 9)",
		"the snapshot has recorded everything delivered: quiescence + 1.5 s virtual time + quiescence before the crash; the crash is Shutdown() without Leave()",
		"no graceful leave between the deliveries and the restart")
}
