package props

import (
	"bytes"
	"context"
	"encoding/hex"
	"encoding/json"
	"fmt"
	"io"
	"math"
	"math/rand"
	"net"
	"os"
	"os/exec"
	"path/filepath"
	"regexp"
	"strconv"
	"strings"
	"sync"
	"sync/atomic"
	"testing"
	"testing/synctest"
	"time"

	"github.com/hashicorp/go-msgpack/v2/codec"
	"github.com/hashicorp/memberlist"
	"github.com/hashicorp/serf/coordinate"
	"github.com/hashicorp/serf/serf"

	"verif/harness/cluster"
	"verif/harness/evid"
	"verif/harness/simnet"
	"verif/harness/wire"
)

// C09: no network input crashes a node.
//
// Inputs are generated in child processes (the test binary re-executed) so a
// panic costs one child: the child logs every input BEFORE handing it to the
// node; the parent classifies a crash by the innermost serf frame of the panic
// stack and uses the last logged input as the witness. After every input the
// child waits for quiescence (synctest.Wait) so that panics in goroutines the
// input started (internal query handlers, conflict resolution) are attributed
// to it, and a canary ("still serving") runs periodically.

type c09Merge struct{}

func (c09Merge) NotifyMerge([]*serf.Member) error { return nil }

type c09Input struct {
	Entry string
	Class string
	Buf   []byte
	Aux   int64
}

// ---- generic msgpack tree mutation

func c09DecodeTree(b []byte) (any, bool) {
	var v any
	h := codec.MsgpackHandle{}
	if err := codec.NewDecoder(bytes.NewReader(b), &h).Decode(&v); err != nil {
		return nil, false
	}
	return v, true
}

func c09EncodeTree(v any) []byte {
	buf := bytes.NewBuffer(nil)
	h := codec.MsgpackHandle{}
	h.WriteExt = true
	if err := codec.NewEncoder(buf, &h).Encode(v); err != nil {
		return nil
	}
	return buf.Bytes()
}

func c09Boundary(rng *rand.Rand) any {
	switch rng.Intn(22) {
	case 0:
		return nil
	case 1:
		return []byte{}
	case 2:
		return []byte{0}
	case 3:
		return ""
	case 4:
		return uint64(math.MaxUint64)
	case 5:
		return uint64(0)
	case 6:
		return int64(-1)
	case 7:
		return int64(math.MinInt64)
	case 8:
		return math.NaN()
	case 9:
		return math.Inf(1)
	case 10:
		return []any{}
	case 11:
		return []any{[]byte{}, []byte{}, nil}
	case 12:
		return map[string]any{}
	case 13:
		return bytes.Repeat([]byte{0xff}, 1+rng.Intn(3000))
	case 14:
		return strings.Repeat("x", rng.Intn(2000))
	case 15:
		return true
	case 16:
		return uint64(math.MaxUint64 - 1)
	case 17:
		return []any{uint64(1), "a", nil}
	case 18:
		return map[string]any{"": nil, "a": []byte{}}
	case 19:
		return uint64(rng.Intn(8))
	case 20:
		return []any{[]byte{0}, []byte{1}, []byte{2, 0x90}, []byte{0xc1}}
	default:
		return float64(rng.NormFloat64() * 1e300)
	}
}

// c09MutateTree replaces one random node; returns a path description.
func c09MutateTree(rng *rand.Rand, v any, path string) (any, string) {
	switch t := v.(type) {
	case map[any]any:
		if len(t) > 0 && rng.Intn(5) != 0 {
			keys := make([]any, 0, len(t))
			for k := range t {
				keys = append(keys, k)
			}
			// deterministic order
			for i := range keys {
				for j := i + 1; j < len(keys); j++ {
					if fmt.Sprint(keys[j]) < fmt.Sprint(keys[i]) {
						keys[i], keys[j] = keys[j], keys[i]
					}
				}
			}
			k := keys[rng.Intn(len(keys))]
			nv, p := c09MutateTree(rng, t[k], path+"."+fmt.Sprint(k))
			t[k] = nv
			return t, p
		}
	case []any:
		if len(t) > 0 && rng.Intn(4) != 0 {
			i := rng.Intn(len(t))
			nv, p := c09MutateTree(rng, t[i], path+"[]")
			t[i] = nv
			return t, p
		}
	}
	return c09Boundary(rng), path
}

func c09ByteMutate(rng *rand.Rand, b []byte) []byte {
	b = append([]byte(nil), b...)
	switch rng.Intn(5) {
	case 0:
		if len(b) > 1 {
			b = b[:1+rng.Intn(len(b)-1)]
		}
	case 1:
		if len(b) > 1 {
			b[1+rng.Intn(len(b)-1)] ^= byte(1 << uint(rng.Intn(8)))
		}
	case 2:
		if len(b) > 1 {
			i := 1 + rng.Intn(len(b)-1)
			b = append(b[:i], append([]byte{byte(rng.Intn(256))}, b[i:]...)...)
		}
	case 3:
		if len(b) > 2 {
			i := 1 + rng.Intn(len(b)-2)
			b = append(b[:i], b[i+1:]...)
		}
	default:
		if len(b) > 1 {
			b[1+rng.Intn(len(b)-1)] = []byte{0xc0, 0xc1, 0xdf, 0xdd, 0xdb, 0x90, 0x80, 0xff}[rng.Intn(8)]
		}
	}
	return b
}

// ---- seeds: valid messages

func c09Seeds(rng *rand.Rand, self string) [][]byte {
	names := []string{self, "peer1", "peer2", "ghost", ""}
	nm := func() string { return names[rng.Intn(len(names))] }
	lt := func() uint64 {
		switch rng.Intn(6) {
		case 0:
			return 0
		case 1:
			return math.MaxUint64
		case 2:
			return math.MaxUint64 - 1
		default:
			return uint64(rng.Intn(50))
		}
	}
	keyreq := wire.Encode(wire.KeyRequest, &wire.KeyReq{Key: bytes.Repeat([]byte{1}, []int{0, 1, 16, 24, 32, 33}[rng.Intn(6)])})
	qnames := []string{"app", "_serf_ping", "_serf_conflict", "_serf_install-key", "_serf_use-key", "_serf_remove-key", "_serf_list-keys", "_serf_unknown", "_serf_"}
	payloads := [][]byte{nil, {}, {7}, {0}, keyreq, keyreq[:2], []byte(self), []byte("peer1"), bytes.Repeat([]byte{9}, 900)}
	filters := [][][]byte{nil, {}, {{}}, {wire.EncodeFilterNodes([]string{self})}, {wire.EncodeFilterTag("role", "^w.*")}, {wire.EncodeFilterTag("role", "(")},
		{{0}}, {{1}}, {{2, 1, 2}}, {wire.EncodeFilterNodes(nil), {}}, {{0, 0xc1}}, {wire.EncodeFilterNodes([]string{self}), wire.EncodeFilterTag("", "")}}
	q := &wire.MsgQuery{LTime: lt(), ID: uint32(rng.Intn(4)), Addr: []byte{10, 0, 0, byte(rng.Intn(4))}, Port: 7946, SourceNode: nm(),
		Filters: filters[rng.Intn(len(filters))], Flags: uint32(rng.Intn(4)), RelayFactor: uint8(rng.Intn(4)), Timeout: time.Duration(rng.Intn(3)) * time.Second,
		Name: qnames[rng.Intn(len(qnames))], Payload: payloads[rng.Intn(len(payloads))]}
	if rng.Intn(4) == 0 {
		q.Addr = [][]byte{nil, {}, {1}, bytes.Repeat([]byte{1}, 5), bytes.Repeat([]byte{1}, 16), bytes.Repeat([]byte{1}, 300)}[rng.Intn(6)]
	}
	resp := &wire.MsgQueryResponse{LTime: lt(), ID: uint32(rng.Intn(4)), From: nm(), Flags: uint32(rng.Intn(2)), Payload: payloads[rng.Intn(len(payloads))]}
	inner := wire.Encode(wire.QueryResponse, resp)
	pp := &wire.MsgPushPull{LTime: lt(), StatusLTimes: map[string]uint64{nm(): lt(), nm(): lt()}, LeftMembers: []string{nm()}, EventLTime: lt(),
		Events: []*wire.UserEvents{nil, {LTime: lt(), Events: []wire.UserEv{{Name: "e", Payload: []byte("p")}, {}}}}, QueryLTime: lt()}
	return [][]byte{
		wire.Encode(wire.Leave, &wire.MsgLeave{LTime: lt(), Node: nm(), Prune: rng.Intn(2) == 0}),
		wire.Encode(wire.Join, &wire.MsgJoin{LTime: lt(), Node: nm()}),
		wire.Encode(wire.PushPull, pp),
		wire.Encode(wire.UserEvent, &wire.MsgUserEvent{LTime: lt(), Name: nm(), Payload: payloads[rng.Intn(len(payloads))], CC: rng.Intn(2) == 0}),
		wire.Encode(wire.Query, q),
		inner,
		wire.Encode(wire.ConflictResponse, &wire.Member{Name: nm(), Addr: net.IP{10, 0, 0, 1}, Port: 7946}),
		keyreq,
		wire.Encode(wire.KeyResponse, &wire.NodeKeyResponse{Result: true, Keys: []string{"a", "b"}, PrimaryKey: "a"}),
		wire.EncodeRelay(net.UDPAddr{IP: net.IP{10, 0, 0, byte(rng.Intn(4))}, Port: 7946}, nm(), inner),
		wire.EncodeRelay(net.UDPAddr{IP: net.IP{10, 0, 0, 1}, Port: 7946}, self, wire.EncodeRelay(net.UDPAddr{IP: net.IP{10, 0, 0, 1}, Port: 7946}, self, inner)),
	}
}

func c09GenMsg(rng *rand.Rand, self string) (buf []byte, class string) {
	seeds := c09Seeds(rng, self)
	s := seeds[rng.Intn(len(seeds))]
	switch x := rng.Intn(20); {
	case x < 3:
		return s, fmt.Sprintf("valid/t%d", s[0])
	case x < 13:
		if s[0] == wire.Relay {
			return c09ByteMutate(rng, s), "bytemut/t9"
		}
		tree, ok := c09DecodeTree(s[1:])
		if !ok {
			return c09ByteMutate(rng, s), fmt.Sprintf("bytemut/t%d", s[0])
		}
		nt, path := c09MutateTree(rng, tree, "")
		if rng.Intn(3) == 0 {
			var p2 string
			nt, p2 = c09MutateTree(rng, nt, "")
			path += "+" + p2
		}
		enc := c09EncodeTree(nt)
		if enc == nil {
			return c09ByteMutate(rng, s), fmt.Sprintf("bytemut/t%d", s[0])
		}
		t := s[0]
		if rng.Intn(15) == 0 {
			t = byte(rng.Intn(12)) // same body, other type byte
			return append([]byte{t}, enc...), fmt.Sprintf("retype/t%d", t)
		}
		return append([]byte{t}, enc...), fmt.Sprintf("treemut/t%d%s", t, regexp.MustCompile(`[0-9]+`).ReplaceAllString(path, "N"))
	case x < 17:
		return c09ByteMutate(rng, s), fmt.Sprintf("bytemut/t%d", s[0])
	case x < 19:
		n := rng.Intn(64)
		b := make([]byte, n)
		rng.Read(b)
		if n > 0 && rng.Intn(2) == 0 {
			b[0] = byte(rng.Intn(11))
		}
		return b, "random"
	default:
		return []byte{byte(rng.Intn(256))}, "onebyte"
	}
}

func c09GenInput(rng *rand.Rand, self string) c09Input {
	switch x := rng.Intn(100); {
	case x < 62:
		b, c := c09GenMsg(rng, self)
		return c09Input{Entry: "NotifyMsg", Class: c, Buf: b}
	case x < 74:
		b, c := c09GenMsg(rng, self)
		if rng.Intn(3) != 0 && len(b) > 0 {
			b[0] = wire.PushPull
		}
		return c09Input{Entry: "MergeRemoteState", Class: c, Buf: b, Aux: int64(rng.Intn(2))}
	case x < 82:
		// ping payload: version byte + msgpack coordinate
		co := coordinate.NewCoordinate(coordinate.DefaultConfig())
		switch rng.Intn(6) {
		case 0:
			co.Vec = nil
		case 1:
			co.Vec = make([]float64, 1+rng.Intn(20))
		case 2:
			co.Vec[0] = math.NaN()
		case 3:
			co.Height = math.Inf(-1)
		case 4:
			co.Error = -1
		}
		body := wire.EncodeBody(co)
		b := append([]byte{byte(1 - rng.Intn(2)*rng.Intn(3))}, body...)
		cls := "ping/valid"
		if rng.Intn(2) == 0 {
			b = c09ByteMutate(rng, b)
			cls = "ping/bytemut"
		}
		if rng.Intn(10) == 0 {
			b = nil
		}
		rtts := []int64{0, 1, -1, int64(time.Second), int64(11 * time.Second), math.MaxInt64, math.MinInt64}
		return c09Input{Entry: "NotifyPingComplete", Class: cls, Buf: b, Aux: rtts[rng.Intn(len(rtts))]}
	case x < 92:
		var meta []byte
		cls := "meta/"
		switch rng.Intn(7) {
		case 0:
			meta = nil
			cls += "nil"
		case 1:
			meta = []byte("role-only")
			cls += "role"
		case 2:
			meta = wire.EncodeTags(map[string]string{"a": "b", "role": "x"})
			cls += "tags"
		case 3:
			meta = c09ByteMutate(rng, wire.EncodeTags(map[string]string{"a": "b", "role": "x"}))
			meta[0] = 255
			cls += "tagsmut"
		case 4:
			meta = []byte{255}
			cls += "magiconly"
		case 5:
			meta = append([]byte{255}, c09EncodeTree(c09Boundary(rng))...)
			cls += "boundary"
		default:
			meta = make([]byte, rng.Intn(600))
			rng.Read(meta)
			if len(meta) > 0 {
				meta[0] = 255
			}
			cls += "random"
		}
		ent := []string{"NotifyJoin", "NotifyUpdate", "NotifyMerge", "NotifyAlive", "NotifyLeave"}[rng.Intn(5)]
		return c09Input{Entry: ent, Class: cls, Buf: meta, Aux: int64(rng.Intn(6))}
	case x < 94:
		return c09Input{Entry: "NotifyConflict", Class: "conflict", Aux: int64(rng.Intn(4))}
	case x < 96:
		// a well-formed key query (install / use / remove / list) for the node with a persisted keyring
		return c09Input{Entry: "KeyQuery", Class: "keyquery", Aux: int64(rng.Intn(8))}
	case x < 98:
		// replies to a query the node itself is running (with / without acks requested, relay factor):
		// header fields of the reply (flags, from, id, time) take boundary values, payload arbitrary
		b, c := c09GenMsg(rng, self)
		return c09Input{Entry: "QueryReply", Class: "queryreply/" + c, Buf: b, Aux: int64(rng.Intn(4))}
	default:
		b, c := c09GenMsg(rng, self)
		return c09Input{Entry: "KeyReply", Class: "keyreply/" + c, Buf: b, Aux: int64(rng.Intn(4))}
	}
}

// ---- child

func c09Child(t *testing.T, spec string) {
	// spec: dir|seed|start|count
	f := strings.Split(spec, "|")
	dir := f[0]
	seed, _ := strconv.ParseInt(f[1], 10, 64)
	start, _ := strconv.Atoi(f[2])
	count, _ := strconv.Atoi(f[3])
	logf, err := os.OpenFile(filepath.Join(dir, "inputs.log"), os.O_CREATE|os.O_WRONLY|os.O_APPEND, 0o644)
	if err != nil {
		t.Fatal(err)
	}
	defer logf.Close()
	stats := map[string]int{}
	synctest.Test(t, func(t *testing.T) {
		snet := simnet.New(seed)
		kr, _ := memberlist.NewKeyring(nil, bytes.Repeat([]byte{3}, 16))
		mk := func(name, ip string, keyring bool, conflict bool) *cluster.Node {
			o := cluster.Opts{Name: name, IP: ip, Profile: "lan", Tags: map[string]string{"role": "web"},
				Mutate: func(c *serf.Config) {
					c.Merge = c09Merge{}
					c.EnableNameConflictResolution = conflict
					c.EventBuffer = 16
					c.QueryBuffer = 16
					// a pruning leave about an alive member makes serf sleep for
					// BroadcastTimeout+LeavePropagateDelay while holding the member lock; inside a
					// synctest bubble a goroutine waiting for that mutex is not durably blocked, so
					// virtual time could never advance. Zero delays keep the code path, not the stall.
					c.BroadcastTimeout = 0
					c.LeavePropagateDelay = 0
				}}
			if keyring {
				o.Keyring = kr
				// the keyring is persisted: key queries rewrite this file (its directory disappears
				// half way through the batch, so that the rewrite fails)
				_ = os.MkdirAll(filepath.Join(dir, "kr"), 0o755)
				inner := o.Mutate
				o.Mutate = func(c *serf.Config) {
					inner(c)
					c.KeyringFile = filepath.Join(dir, "kr", "keyring.json")
				}
			}
			nd, err := cluster.Start(snet, o)
			if err != nil {
				t.Errorf("start: %v", err)
				return nil
			}
			return nd
		}
		plain := mk("self", "10.0.0.1", false, false)
		keyed := mk("self", "10.0.1.1", true, false)
		conf := mk("self", "10.0.2.1", false, true)
		if plain == nil || keyed == nil || conf == nil {
			return
		}
		// the node with the keyring has two real memberlist peers, so that its key operations wait for
		// (and take in) more replies than its own
		for i := 0; i < 2; i++ {
			pr, _ := memberlist.NewKeyring([][]byte{bytes.Repeat([]byte{1}, 16), bytes.Repeat([]byte{2}, 16)}, bytes.Repeat([]byte{3}, 16))
			pup, err := cluster.StartPuppet(snet, cluster.PuppetOpts{Name: fmt.Sprint("kpeer", i+1), IP: fmt.Sprintf("10.0.1.%d", i+2), Keyring: pr})
			if err != nil {
				t.Errorf("puppet: %v", err)
				return
			}
			defer pup.Close()
			if _, err := pup.ML.Join([]string{keyed.Addr}); err != nil {
				t.Errorf("puppet join: %v", err)
				return
			}
		}
		synctest.Wait()
		stats["keyed_node_memberlist_members"] = keyed.S.Memberlist().NumMembers()
		nodes := []*cluster.Node{plain, keyed, conf}
		defer func() {
			for _, n := range nodes {
				n.Close()
			}
		}()
		for _, n := range nodes[:2] {
			n.NotifyJoin(cluster.FakeNode("peer1", "10.0.0.2", 7946, wire.EncodeTags(map[string]string{"role": "db"})))
			n.NotifyJoin(cluster.FakeNode("peer2", "10.0.0.3", 7946, nil))
		}
		canarySeq := 0
		canary := func(idx int) {
			for ni, n := range nodes[:2] {
				if n.S.State() != serf.SerfAlive {
					fmt.Fprintf(logf, "CANARY-FAIL %d node%d state=%v\n", idx, ni, n.S.State())
					stats["canary_fail"]++
					return
				}
				canarySeq++
				name := fmt.Sprintf("canary-%d", canarySeq)
				before := n.EventCount()
				if err := n.S.UserEvent(name, nil, false); err != nil {
					fmt.Fprintf(logf, "CANARY-FAIL %d node%d userevent err=%v\n", idx, ni, err)
					stats["canary_fail"]++
					return
				}
				synctest.Wait()
				ok := false
				for _, e := range n.Events()[before:] {
					if u, isU := e.E.(serf.UserEvent); isU && u.Name == name {
						ok = true
					}
				}
				if !ok {
					fmt.Fprintf(logf, "CANARY-FAIL %d node%d user event %s not delivered\n", idx, ni, name)
					stats["canary_fail"]++
					return
				}
				if len(n.S.Members()) < 1 {
					fmt.Fprintf(logf, "CANARY-FAIL %d node%d no members\n", idx, ni)
					stats["canary_fail"]++
				}
				n.DrainBroadcasts()
			}
			stats["canary_ok"]++
		}
		for i := start; i < start+count; i++ {
			rng := rand.New(rand.NewSource(seed*1000003 + int64(i)))
			in := c09GenInput(rng, "self")
			fmt.Fprintf(logf, "IN %d %s %s %d %s\n", i, in.Entry, in.Class, in.Aux, hex.EncodeToString(in.Buf))
			stats["entry_"+in.Entry]++
			nd := nodes[rng.Intn(2)]
			switch in.Entry {
			case "NotifyMsg":
				nd.NotifyMsg(in.Buf)
			case "MergeRemoteState":
				nd.ML.Delegate.MergeRemoteState(in.Buf, in.Aux == 1)
			case "NotifyPingComplete":
				nd.ML.Ping.NotifyPingComplete(cluster.FakeNode("peer1", "10.0.0.2", 7946, nil), time.Duration(in.Aux), in.Buf)
			case "NotifyJoin", "NotifyUpdate", "NotifyLeave", "NotifyMerge", "NotifyAlive":
				names := []string{"peer1", "peer2", "fresh", "", "self", strings.Repeat("n", 200)}
				fn := cluster.FakeNode(names[in.Aux%int64(len(names))], "10.0.0.7", 7946, in.Buf)
				if in.Aux == 3 {
					fn.Addr = net.IP{1, 2, 3}
				}
				if fn.Name == "self" && in.Entry != "NotifyMerge" && in.Entry != "NotifyAlive" {
					fn.Name = "peer2"
				}
				switch in.Entry {
				case "NotifyJoin":
					nd.NotifyJoin(fn)
				case "NotifyUpdate":
					nd.NotifyUpdate(fn)
				case "NotifyLeave":
					nd.NotifyLeave(fn)
				case "NotifyMerge":
					_ = nd.ML.Merge.NotifyMerge([]*memberlist.Node{fn, cluster.FakeNode("peer1", "10.0.0.2", 7946, in.Buf)})
				case "NotifyAlive":
					_ = nd.ML.Alive.NotifyAlive(fn)
				}
			case "NotifyConflict":
				if conf.S.State() == serf.SerfShutdown {
					// losing the (answerless) vote legitimately shuts the node down: replace it
					conf.Close()
					conf = mk("self", "10.0.2.1", false, true)
					nodes[2] = conf
					stats["conflict_node_recreated"]++
				}
				local := conf.S.Memberlist().LocalNode()
				other := cluster.FakeNode("self", "10.9.9.9", 7946, nil)
				switch in.Aux {
				case 0:
					conf.ML.Conflict.NotifyConflict(local, other)
				case 1:
					conf.ML.Conflict.NotifyConflict(cluster.FakeNode("peer1", "10.0.0.2", 7946, nil), other)
				case 2:
					// conflict + replies with arbitrary payloads
					conf.ML.Conflict.NotifyConflict(local, other)
					synctest.Wait()
					for _, m := range conf.DrainBroadcasts() {
						if m[0] == wire.Query {
							var q wire.MsgQuery
							if wire.Decode(m[1:], &q) == nil {
								for k := 0; k < 3; k++ {
									pl, _ := c09GenMsg(rng, "self")
									if k == 0 {
										pl = wire.Encode(wire.ConflictResponse, nil)
									}
									conf.NotifyMsg(wire.Encode(wire.QueryResponse, &wire.MsgQueryResponse{LTime: q.LTime, ID: q.ID, From: fmt.Sprint("peer", k), Flags: []uint32{0, 0, 1, 3, math.MaxUint32}[rng.Intn(5)], Payload: pl}))
								}
							}
						}
					}
				default:
					conf.ML.Conflict.NotifyConflict(local, cluster.FakeNode("self", "", 0, nil))
				}
				time.Sleep(20 * time.Second) // let the resolution query time out
			case "KeyQuery":
				name := []string{"_serf_install-key", "_serf_use-key", "_serf_remove-key", "_serf_list-keys"}[in.Aux%4]
				key := bytes.Repeat([]byte{byte(2 + in.Aux/4)}, 16)
				if in.Aux%4 == 1 {
					key = bytes.Repeat([]byte{3}, 16) // the primary key
				}
				stats["key_queries"]++
				keyed.NotifyMsg(wire.Encode(wire.Query, &wire.MsgQuery{LTime: uint64(1000 + i), ID: uint32(i), Addr: []byte{10, 0, 0, 2}, Port: 7946, SourceNode: "peer1",
					Timeout: time.Second, Name: name, Payload: wire.Encode(wire.KeyRequest, &wire.KeyReq{Key: key})}))
			case "QueryReply":
				params := nd.S.DefaultQueryParams()
				params.RequestAck = in.Aux&1 == 1
				params.Timeout = 5 * time.Second
				if in.Aux&2 != 0 {
					params.RelayFactor = 2
				}
				resp, qerr := nd.S.Query("app-query", []byte("x"), params)
				synctest.Wait()
				if qerr == nil {
					drained := make(chan struct{})
					go func() {
						defer close(drained)
						ack, rsp := resp.AckCh(), resp.ResponseCh()
						for ack != nil || rsp != nil {
							select {
							case _, ok := <-ack:
								if !ok {
									ack = nil
								}
							case _, ok := <-rsp:
								if !ok {
									rsp = nil
								}
							}
						}
					}()
					for _, m := range nd.DrainBroadcasts() {
						if m[0] != wire.Query {
							continue
						}
						var q wire.MsgQuery
						if wire.Decode(m[1:], &q) != nil || q.Name != "app-query" {
							continue
						}
						flags := []uint32{0, 1, 2, 3, 1 << 31, math.MaxUint32, rng.Uint32()}
						froms := []string{"peer1", "peer2", "", "self", "ghost", strings.Repeat("f", 300)}
						for k := 0; k < 8; k++ {
							r := wire.MsgQueryResponse{LTime: q.LTime, ID: q.ID, From: froms[rng.Intn(len(froms))], Flags: flags[rng.Intn(len(flags))], Payload: in.Buf}
							switch rng.Intn(8) {
							case 0:
								r.ID++
							case 1:
								r.LTime += uint64(rng.Intn(3)) - 1
							case 2:
								r.Payload = nil
							}
							msg := wire.Encode(wire.QueryResponse, &r)
							if rng.Intn(6) == 0 {
								msg = c09ByteMutate(rng, msg)
							}
							stats["query_replies_injected"]++
							nd.NotifyMsg(msg)
						}
					}
					time.Sleep(6 * time.Second) // the query times out and closes its channels
					<-drained
				}
			case "KeyReply":
				// a key operation of the keyed node receives arbitrary reply payloads
				done := make(chan struct{})
				go func() {
					defer close(done)
					switch in.Aux {
					case 0:
						_, _ = keyed.S.KeyManager().ListKeys()
					case 1:
						_, _ = keyed.S.KeyManager().InstallKey("AQEBAQEBAQEBAQEBAQEBAQ==")
					case 2:
						_, _ = keyed.S.KeyManager().RemoveKey("AQEBAQEBAQEBAQEBAQEBAQ==")
					default:
						_, _ = keyed.S.KeyManager().UseKey("AwMDAwMDAwMDAwMDAwMDAw==")
					}
				}()
				synctest.Wait()
				for _, m := range keyed.DrainBroadcasts() {
					if m[0] == wire.Query {
						var q wire.MsgQuery
						if wire.Decode(m[1:], &q) == nil {
							// two replies in either order, the operation taking in the first before the second
							// arrives (it stops reading once as many nodes have answered as memberlist counts):
							// an arbitrary payload, and a well-formed key reply whose fields are filled whatever
							// the operation was (keys and primary key also in answer to install/use/remove)
							kr := wire.NodeKeyResponse{Result: rng.Intn(2) == 0, Message: []string{"", "m"}[rng.Intn(2)]}
							for k, n := 0, rng.Intn(4); k < n; k++ {
								kr.Keys = append(kr.Keys, fmt.Sprint("k", k%2))
							}
							if rng.Intn(2) == 0 {
								kr.PrimaryKey = "k0"
							}
							structured := wire.Encode(wire.KeyResponse, &kr)
							if rng.Intn(3) == 0 {
								structured = c09ByteMutate(rng, structured)
							}
							replies := [][]byte{
								wire.Encode(wire.QueryResponse, &wire.MsgQueryResponse{LTime: q.LTime, ID: q.ID, From: "peer1", Flags: []uint32{0, 0, 1, 3, math.MaxUint32}[rng.Intn(5)], Payload: in.Buf}),
								wire.Encode(wire.QueryResponse, &wire.MsgQueryResponse{LTime: q.LTime, ID: q.ID, From: "peer2", Payload: structured}),
							}
							if rng.Intn(2) == 0 {
								replies[0], replies[1] = replies[1], replies[0]
							}
							for _, rp := range replies {
								stats["key_replies_injected"]++
								keyed.NotifyMsg(rp)
								synctest.Wait()
							}
						}
					}
				}
				time.Sleep(20 * time.Second)
				<-done
			}
			synctest.Wait()
			if i == start+count/2 {
				_ = os.RemoveAll(filepath.Join(dir, "kr"))
				stats["keyring_directory_removed"]++
			}
			if i%97 == 0 {
				time.Sleep(time.Second)
				synctest.Wait()
			}
			if i%250 == 249 || i == start+count-1 {
				canary(i)
			}
		}
	})
	b, _ := json.Marshal(stats)
	_ = os.WriteFile(filepath.Join(dir, "stats.json"), b, 0o644)
	fmt.Fprintf(logf, "DONE %d\n", start+count)
}

// c09Storm (child process, real time): replies and acks for queries - running ones, finished
// ones, ones that never existed - arrive from the network on several goroutines (memberlist
// hands every packet and stream to NotifyMsg on a goroutine of its own) while the node's own
// goroutines start queries and the queries' timers retire them. Whatever the interleaving,
// the process survives and keeps serving.
func c09Storm(t *testing.T, spec string) {
	// spec: storm|dir|seed|index
	f := strings.Split(spec, "|")
	dir := f[1]
	seed, _ := strconv.ParseInt(f[2], 10, 64)
	idx, _ := strconv.Atoi(f[3])
	logf, err := os.OpenFile(filepath.Join(dir, "inputs.log"), os.O_CREATE|os.O_WRONLY|os.O_APPEND, 0o644)
	if err != nil {
		t.Fatal(err)
	}
	defer logf.Close()
	rng := rand.New(rand.NewSource(seed*7919 + int64(idx)))
	issuers, feeders := 2+rng.Intn(5), 2+rng.Intn(7)
	perIssuer, perFeeder := 150+rng.Intn(300), 10000+rng.Intn(30000)
	fmt.Fprintf(logf, "IN %d QueryReplyStorm storm/i%d-f%d 0 %s\n", idx, issuers, feeders, hex.EncodeToString([]byte(fmt.Sprintf("issuers=%d x %d queries, feeders=%d x %d replies", issuers, perIssuer, feeders, perFeeder))))
	snet := simnet.New(seed)
	nd, err := cluster.Start(snet, cluster.Opts{Name: "self", IP: "10.0.0.1", Profile: "passive", EventBuf: 1 << 12})
	if err != nil {
		t.Fatalf("start: %v", err)
	}
	defer nd.Close()
	nd.NotifyJoin(cluster.FakeNode("peer1", "10.0.0.2", 7946, nil))
	nd.NotifyJoin(cluster.FakeNode("peer2", "10.0.0.3", 7946, nil))
	var clock atomic.Uint64
	clock.Store(1)
	var wg sync.WaitGroup
	var issued, injected atomic.Int64
	start := make(chan struct{})
	for g := 0; g < issuers; g++ {
		lr := rand.New(rand.NewSource(rng.Int63()))
		wg.Add(1)
		go func() {
			defer wg.Done()
			<-start
			for k := 0; k < perIssuer; k++ {
				p := nd.S.DefaultQueryParams()
				p.Timeout = time.Duration(200+lr.Intn(3000)) * time.Microsecond
				p.RequestAck = lr.Intn(2) == 0
				if _, err := nd.S.Query("storm", []byte("x"), p); err == nil {
					issued.Add(1)
				}
				var cur uint64
				fmt.Sscan(nd.S.Stats()["query_time"], &cur)
				clock.Store(cur)
				if lr.Intn(4) == 0 {
					time.Sleep(time.Duration(lr.Intn(300)) * time.Microsecond)
				}
			}
		}()
	}
	for g := 0; g < feeders; g++ {
		lr := rand.New(rand.NewSource(rng.Int63()))
		wg.Add(1)
		go func() {
			defer wg.Done()
			<-start
			for k := 0; k < perFeeder; k++ {
				lt := clock.Load() + uint64(lr.Intn(3))
				if d := uint64(lr.Intn(4)); lt > d {
					lt -= d
				}
				flags := uint32(0)
				if lr.Intn(2) == 0 {
					flags = 1 // ack
				}
				msg := wire.Encode(wire.QueryResponse, &wire.MsgQueryResponse{LTime: lt, ID: lr.Uint32(), From: fmt.Sprint("peer", 1+lr.Intn(2)), Flags: flags, Payload: []byte("r")})
				if lr.Intn(5) == 0 {
					msg = wire.EncodeRelay(net.UDPAddr{IP: net.IP{10, 0, 0, 1}, Port: 7946}, "self", msg)
				}
				nd.NotifyMsg(msg)
				injected.Add(1)
			}
		}()
	}
	stop := make(chan struct{})
	go func() {
		for {
			select {
			case <-stop:
				return
			case <-time.After(5 * time.Millisecond):
				nd.DrainBroadcasts()
			}
		}
	}()
	close(start)
	wg.Wait()
	close(stop)
	time.Sleep(20 * time.Millisecond)
	// canary
	if nd.S.State() != serf.SerfAlive {
		fmt.Fprintf(logf, "CANARY-FAIL %d state=%v\n", idx, nd.S.State())
	} else if err := nd.S.UserEvent("canary", nil, false); err != nil {
		fmt.Fprintf(logf, "CANARY-FAIL %d userevent err=%v\n", idx, err)
	}
	b, _ := json.Marshal(map[string]int{"storm_queries_issued": int(issued.Load()), "storm_replies_injected": int(injected.Load()), "storms": 1})
	_ = os.WriteFile(filepath.Join(dir, "stats.json"), b, 0o644)
	fmt.Fprintf(logf, "DONE %d\n", idx)
}

var c09PanicFrame = regexp.MustCompile(`(?m)^(github\.com/hashicorp/serf/[^\s(]+(?:\([^)]*\))?[^\s(]*)\(`)

func TestC09(t *testing.T) {
	if spec := os.Getenv("VERIF_C09_CHILD"); spec != "" {
		if strings.HasPrefix(spec, "storm|") {
			c09Storm(t, spec)
			return
		}
		c09Child(t, spec)
		return
	}
	r := evid.Start(t, "C09", "exploration")
	total := r.N(48000, 2400000)
	batches := 16
	if !r.Quick() {
		batches = 64
	}
	per := total / batches
	base, _ := os.MkdirTemp("/verif/.run", "c09-")
	defer os.RemoveAll(base)
	var mu sync.Mutex
	classes := map[string]int{}
	crashes := 0
	r.Cases("batch", batches, 16, func(bi int, _ *rand.Rand) {
		dir := filepath.Join(base, fmt.Sprint("b", bi))
		_ = os.MkdirAll(dir, 0o755)
		start, end := bi*per, (bi+1)*per
		respawns := 0
		for start < end && respawns < 25 {
			_ = os.Remove(filepath.Join(dir, "inputs.log"))
			ctx, cancel := context.WithTimeout(context.Background(), 12*time.Minute) // watchdog only: firing => inconclusive
			cmd := exec.CommandContext(ctx, os.Args[0], "-test.run", "^TestC09$", "-test.timeout", "20m")
			cmd.Env = append(os.Environ(), fmt.Sprintf("VERIF_C09_CHILD=%s|%d|%d|%d", dir, r.Seed, start, end-start), "VERIF_RESULT=", "GORACE=")
			errf, _ := os.Create(filepath.Join(dir, "stderr"))
			cmd.Stdout, cmd.Stderr = errf, errf
			runErr := cmd.Run()
			cancel()
			errf.Close()
			logb, _ := os.ReadFile(filepath.Join(dir, "inputs.log"))
			lines := strings.Split(strings.TrimSpace(string(logb)), "\n")
			var last string
			done := false
			nIn := 0
			for _, l := range lines {
				switch {
				case strings.HasPrefix(l, "IN "):
					last = l
					nIn++
					f := strings.SplitN(l, " ", 6)
					mu.Lock()
					classes[f[2]+"/"+f[3]]++
					mu.Unlock()
				case strings.HasPrefix(l, "CANARY-FAIL"):
					r.Violation("canary", bi, "node stopped serving: "+l+" ; last input: "+last, map[string]any{"line": l, "last_input": last})
				case strings.HasPrefix(l, "DONE"):
					done = true
				}
			}
			r.Eval(nIn)
			if sb, err := os.ReadFile(filepath.Join(dir, "stats.json")); err == nil && done {
				var st map[string]int
				if json.Unmarshal(sb, &st) == nil {
					for k, v := range st {
						r.Count(k, v)
					}
				}
			}
			if done && runErr == nil {
				break
			}
			// crashed: classify
			stderr, _ := os.ReadFile(filepath.Join(dir, "stderr"))
			se := string(stderr)
			idx := -1
			if last != "" {
				idx, _ = strconv.Atoi(strings.SplitN(last, " ", 3)[1])
			}
			pi := strings.Index(se, "panic:")
			if fi := strings.Index(se, "fatal error:"); fi >= 0 && (pi < 0 || fi < pi) {
				pi = fi
			}
			if pi < 0 || idx < 0 {
				r.Inconclusive(fmt.Sprintf("child batch %d failed without a panic (%v): %s", bi, runErr, c09Tail(se, 400)))
				break
			}
			msg := se[pi:]
			first := strings.SplitN(msg, "\n", 2)[0]
			frame := "unknown"
			for _, m := range c09PanicFrame.FindAllStringSubmatch(msg, -1) {
				fr := m[1]
				if !strings.Contains(fr, "/harness/") {
					frame = fr
					break
				}
			}
			if frame == "unknown" {
				r.Inconclusive(fmt.Sprintf("child batch %d crashed outside serf: %s", bi, c09Tail(msg, 600)))
				break
			}
			mu.Lock()
			crashes++
			mu.Unlock()
			r.Violation("panic@"+frame, idx, fmt.Sprintf("%s in %s on input: %s", first, frame, last),
				map[string]any{"input": last, "panic": first, "stack": c09Head(msg, 3000)})
			start = idx + 1
			respawns++
		}
	})
	// reply storms: the deciding observation is the survival of the child process
	storms := 12
	if !r.Quick() {
		storms = 200
	}
	r.Cases("storm", storms, 4, func(si int, _ *rand.Rand) {
		dir := filepath.Join(base, fmt.Sprint("s", si))
		_ = os.MkdirAll(dir, 0o755)
		ctx, cancel := context.WithTimeout(context.Background(), 10*time.Minute) // watchdog only
		defer cancel()
		cmd := exec.CommandContext(ctx, os.Args[0], "-test.run", "^TestC09$", "-test.timeout", "15m")
		cmd.Env = append(os.Environ(), fmt.Sprintf("VERIF_C09_CHILD=storm|%s|%d|%d", dir, r.Seed, si), "VERIF_RESULT=", "GORACE=")
		errf, _ := os.Create(filepath.Join(dir, "stderr"))
		cmd.Stdout, cmd.Stderr = errf, errf
		runErr := cmd.Run()
		errf.Close()
		logb, _ := os.ReadFile(filepath.Join(dir, "inputs.log"))
		done := strings.Contains(string(logb), "\nDONE ")
		var first string
		for _, l := range strings.Split(string(logb), "\n") {
			if strings.HasPrefix(l, "IN ") {
				first = l
				f := strings.SplitN(l, " ", 6)
				mu.Lock()
				classes[f[2]+"/"+f[3]]++
				mu.Unlock()
			}
			if strings.HasPrefix(l, "CANARY-FAIL") {
				r.Violation("canary", si, "node stopped serving after a reply storm: "+l, map[string]any{"line": l, "storm": first})
			}
		}
		r.Eval(1)
		if sb, err := os.ReadFile(filepath.Join(dir, "stats.json")); err == nil && done {
			var st map[string]int
			if json.Unmarshal(sb, &st) == nil {
				for k, v := range st {
					r.Count(k, v)
				}
			}
		}
		if done && runErr == nil {
			return
		}
		se, _ := os.ReadFile(filepath.Join(dir, "stderr"))
		msg := string(se)
		pi := strings.Index(msg, "panic:")
		if fi := strings.Index(msg, "fatal error:"); fi >= 0 && (pi < 0 || fi < pi) {
			pi = fi
		}
		if pi < 0 {
			r.Inconclusive(fmt.Sprintf("storm child %d failed without a panic (%v): %s", si, runErr, c09Tail(msg, 400)))
			return
		}
		msg = msg[pi:]
		frame := "unknown"
		for _, m := range c09PanicFrame.FindAllStringSubmatch(msg, -1) {
			if !strings.Contains(m[1], "/harness/") {
				frame = m[1]
				break
			}
		}
		if frame == "unknown" {
			r.Inconclusive(fmt.Sprintf("storm child %d crashed outside serf: %s", si, c09Tail(msg, 600)))
			return
		}
		mu.Lock()
		crashes++
		mu.Unlock()
		firstLine := strings.SplitN(msg, "\n", 2)[0]
		r.Violation("panic@"+frame, si, fmt.Sprintf("%s in %s while replies and acks arrive during the node's own queries: %s", firstLine, frame, first),
			map[string]any{"storm": first, "panic": firstLine, "stack": c09Head(msg, 3000)})
	})
	mu.Lock()
	for k, v := range classes {
		r.Distinct(k)
		_ = v
	}
	nClasses := len(classes)
	// per-entry totals
	perEntry := map[string]int{}
	for k, v := range classes {
		perEntry[strings.SplitN(k, "/", 2)[0]] += v
	}
	mu.Unlock()
	r.Extra("inputs_per_entry_point", perEntry)
	r.Extra("distinct_input_classes", nClasses)
	r.Count("child_crashes", crashes)
	r.Sample(map[string]any{"entry": "NotifyMsg", "class": "treemut/t4.Filters", "hex": hex.EncodeToString(wire.Encode(wire.Query, &wire.MsgQuery{LTime: 3, Name: "app", Filters: [][]byte{{}}}))})
	r.Finish("structure-aware mutation (one or two msgpack tree nodes replaced by boundary values), byte-level mutation, re-typed bodies and random bytes over valid messages of all ten gossip types, push/pull state, ping payloads, member metadata, conflict and key-reply payloads; distinct = (entry point, message type, mutated field path) classes; every input logged before the call in a child process, quiescence after each, canary every 250 inputs; replies to the node's own key operations arrive in either order from two real memberlist peers (well-formed key replies with every field filled whatever the operation, and arbitrary payloads); plus reply storms in child processes of their own (real time): 2-8 goroutines deliver 10-40 thousand replies/acks each (direct and relayed, for running, finished and unknown queries) while 2-6 goroutines start queries with 0.2-3 ms timeouts",
		40, "panic in a goroutine started by an input surfaces before the next input (synctest.Wait quiescence)", "a conflict vote lost for lack of answers legitimately shuts the node down")
	_ = io.Discard
}

func c09Tail(s string, n int) string {
	if len(s) > n {
		return s[len(s)-n:]
	}
	return s
}
func c09Head(s string, n int) string {
	if len(s) > n {
		return s[:n]
	}
	return s
}
