package props

import (
	"bytes"
	"fmt"
	"io"
	"log"
	"math/rand"
	"net"
	"os"
	"path/filepath"
	"sort"
	"strconv"
	"strings"
	"testing"
	"time"

	"github.com/hashicorp/serf/cmd/serf/command/agent"
	"github.com/hashicorp/serf/serf"

	"verif/harness/cluster"
	"verif/harness/evid"
	"verif/harness/simnet"
	"verif/harness/wire"
)

// C27: event handler scripts are invoked per the documented contract.
//
// Real /bin/sh scripts (one per configured handler, written to t.TempDir()) dump
// the environment block they were exec'ed with (/proc/$$/environ, NUL separated)
// and their stdin to files numbered per run and write an end marker as their last
// action. Member and user events are fed straight into
// agent.ScriptEventHandler.HandleEvent; queries are real: Serf.Query on a real
// one-node serf (simnet, real time) whose EventCh event is forwarded to the
// handler, so the script's output travels back to ResponseCh of the very same
// query. Whether the handler itself answered is decided without any timing by
// probing Query.Respond afterwards ("response already sent" <=> it did).
//
// HandleEvent runs the scripts synchronously (cmd.Wait), so when it returns every
// run has finished; the end marker is still required (a missing one is
// inconclusive, never a verdict).

const (
	c27MaxOut = 8 * 1024
)

type c27Elem struct {
	Typ   string // "*", event type, or unknown type
	Name  string // for user:/query:
	Named bool
}

type c27Handler struct {
	Spec    string
	Elems   []c27Elem // nil => no filter given (all events)
	Dir     string
	OutLen  int // bytes printed (queries use it as the response)
	ErrFrom int // bytes [ErrFrom:] go to stderr instead of stdout
	Exit    int
}

type c27Run struct {
	Env   map[string][]string // name -> values (as seen in the exec environment)
	Stdin []byte
	Ended bool
}

var c27EventTypes = []string{"member-join", "member-leave", "member-failed", "member-update", "member-reap", "user", "query"}
var c27Names = []string{"deploy", "deploy2", "dep", "load", "re start", "x.y-z", "déploy", "uptime", "deploy:prod", "deploy:", "a:b:c", "load:"}

// c27Sanitize is the oracle's own reading of "sanitized": upper-case, everything
// outside [A-Z0-9_] becomes '_'. Only used for ASCII tag names (for other names
// the per-rune/per-byte choice is not fixed by the statement).
func c27Sanitize(name string) (string, bool) {
	var sb strings.Builder
	for i := 0; i < len(name); i++ {
		c := name[i]
		switch {
		case c >= 0x80:
			return "", false
		case c >= 'a' && c <= 'z':
			sb.WriteByte(c - 32)
		case (c >= 'A' && c <= 'Z') || (c >= '0' && c <= '9') || c == '_':
			sb.WriteByte(c)
		default:
			sb.WriteByte('_')
		}
	}
	return sb.String(), true
}

func c27ValidEnvName(s string) bool {
	for i := 0; i < len(s); i++ {
		c := s[i]
		if !((c >= 'A' && c <= 'Z') || (c >= '0' && c <= '9') || c == '_') {
			return false
		}
	}
	return true
}

func c27Esc(s string) string {
	s = strings.ReplaceAll(s, "\t", "\\t")
	s = strings.ReplaceAll(s, "\n", "\\n")
	return s
}

// random string over an alphabet that stresses escaping / sanitising (never NUL).
func c27Str(rng *rand.Rand, kind string, maxLen int) string {
	var alpha []string
	switch kind {
	case "tagname":
		alpha = []string{"a", "b", "R", "z", "0", "7", "_", "-", ".", " ", ":", "/", "ü", "ſ", "$", "role"}
	case "plain":
		alpha = []string{"a", "b", "c", "n", "t", "0", "1", "-", "."}
	default: // values and member names
		alpha = []string{"a", "b", "Z", "0", "\t", "\n", "\\", "\\t", "\\n", " ", "=", ",", "\"", "'", "$x", "`", "\r", "é", "\xff", ";", "*"}
	}
	n := rng.Intn(maxLen + 1)
	var sb strings.Builder
	for i := 0; i < n; i++ {
		sb.WriteString(alpha[rng.Intn(len(alpha))])
	}
	return sb.String()
}

func c27Tags(rng *rand.Rand) map[string]string {
	tags := map[string]string{}
	n := rng.Intn(5)
	for i := 0; i < n; i++ {
		var k string
		switch rng.Intn(6) {
		case 0:
			k = "role"
		case 1: // collision family: all sanitise to A_B
			k = []string{"a-b", "a_b", "A.B", "a b", "A_B"}[rng.Intn(5)]
		default:
			k = c27Str(rng, "tagname", 4)
		}
		v := c27Str(rng, "value", 6)
		if rng.Intn(3) == 0 {
			v = c27Str(rng, "plain", 6)
		}
		tags[k] = v
	}
	return tags
}

func c27Member(rng *rand.Rand) serf.Member {
	var name string
	if rng.Intn(2) == 0 {
		name = "node-" + c27Str(rng, "plain", 5)
	} else {
		name = c27Str(rng, "value", 6)
	}
	var ip net.IP
	switch rng.Intn(3) {
	case 0:
		ip = net.IPv4(10, byte(rng.Intn(256)), byte(rng.Intn(256)), byte(1+rng.Intn(254)))
	case 1:
		ip = net.IPv4(192, 168, byte(rng.Intn(256)), byte(1+rng.Intn(254))).To4()
	default:
		ip = net.ParseIP(fmt.Sprintf("fd00::%x:%x", rng.Intn(65536), 1+rng.Intn(65535)))
	}
	return serf.Member{Name: name, Addr: ip, Port: uint16(1 + rng.Intn(65000)), Tags: c27Tags(rng), Status: serf.StatusAlive}
}

func c27GenFilter(rng *rand.Rand) (string, []c27Elem) {
	n := 1
	switch rng.Intn(4) {
	case 0:
		n = 2
	case 1:
		n = 1 + rng.Intn(4)
	}
	var parts []string
	var elems []c27Elem
	for i := 0; i < n; i++ {
		switch rng.Intn(10) {
		case 0:
			parts = append(parts, "*")
			elems = append(elems, c27Elem{Typ: "*"})
		case 1, 2, 3:
			nm := c27Names[rng.Intn(len(c27Names))]
			parts = append(parts, "user:"+nm)
			elems = append(elems, c27Elem{Typ: "user", Name: nm, Named: true})
		case 4, 5, 6:
			nm := c27Names[rng.Intn(len(c27Names))]
			parts = append(parts, "query:"+nm)
			elems = append(elems, c27Elem{Typ: "query", Name: nm, Named: true})
		case 7:
			u := []string{"member", "member-joined", "users", "event", "queries"}[rng.Intn(5)]
			parts = append(parts, u)
			elems = append(elems, c27Elem{Typ: u})
		default:
			ty := c27EventTypes[rng.Intn(len(c27EventTypes))]
			parts = append(parts, ty)
			elems = append(elems, c27Elem{Typ: ty})
		}
	}
	return strings.Join(parts, ","), elems
}

// c27Matches counts the filter elements selecting the event (oracle, written from
// the documentation, not from event_handler.go).
func c27Matches(h *c27Handler, evType, evName string) int {
	if h.Elems == nil {
		return 1
	}
	n := 0
	for _, e := range h.Elems {
		switch {
		case e.Typ == "*":
			n++
		case e.Typ != evType:
		case e.Named && e.Name != evName:
		default:
			n++
		}
	}
	return n
}

func c27Pattern(seed, n int) []byte {
	b := make([]byte, n)
	for i := range b {
		// position dependent, printable, never repeats with period 8192
		x := (i*131 + seed*17 + i/251) % 89
		b[i] = byte(33 + x)
		if i%97 == 96 {
			b[i] = '\n'
		}
	}
	return b
}

func c27WriteHandler(h *c27Handler, idx int) error {
	if err := os.MkdirAll(h.Dir, 0o755); err != nil {
		return err
	}
	out := c27Pattern(idx, h.OutLen)
	if err := os.WriteFile(filepath.Join(h.Dir, "out1"), out[:h.ErrFrom], 0o644); err != nil {
		return err
	}
	if err := os.WriteFile(filepath.Join(h.Dir, "out2"), out[h.ErrFrom:], 0o644); err != nil {
		return err
	}
	var sb strings.Builder
	sb.WriteString("D='" + h.Dir + "'\n")
	sb.WriteString("n=0\nwhile [ -e \"$D/$n.env\" ]; do n=$((n+1)); done\n")
	sb.WriteString("cat /proc/$$/environ > \"$D/$n.env\" 2>/dev/null\n")
	sb.WriteString("cat > \"$D/$n.in\" 2>/dev/null\n")
	if h.ErrFrom > 0 {
		sb.WriteString("cat \"$D/out1\"\n")
	}
	if h.ErrFrom < h.OutLen {
		sb.WriteString("cat \"$D/out2\" >&2\n")
	}
	sb.WriteString(": > \"$D/$n.end\"\n")
	sb.WriteString(fmt.Sprintf("exit %d\n", h.Exit))
	return os.WriteFile(filepath.Join(h.Dir, "h.sh"), []byte(sb.String()), 0o644)
}

func c27ReadRuns(dir string) []c27Run {
	var runs []c27Run
	for n := 0; ; n++ {
		envb, err := os.ReadFile(filepath.Join(dir, fmt.Sprintf("%d.env", n)))
		if err != nil {
			break
		}
		run := c27Run{Env: map[string][]string{}}
		for _, kv := range bytes.Split(envb, []byte{0}) {
			if len(kv) == 0 {
				continue
			}
			k, v, _ := strings.Cut(string(kv), "=")
			run.Env[k] = append(run.Env[k], v)
		}
		run.Stdin, _ = os.ReadFile(filepath.Join(dir, fmt.Sprintf("%d.in", n)))
		_, err = os.Stat(filepath.Join(dir, fmt.Sprintf("%d.end", n)))
		run.Ended = err == nil
		runs = append(runs, run)
	}
	return runs
}

func c27Perms(xs []string, f func([]string) bool) bool {
	var rec func(k int) bool
	rec = func(k int) bool {
		if k == len(xs) {
			return f(xs)
		}
		for i := k; i < len(xs); i++ {
			xs[k], xs[i] = xs[i], xs[k]
			if rec(k + 1) {
				xs[k], xs[i] = xs[i], xs[k]
				return true
			}
			xs[k], xs[i] = xs[i], xs[k]
		}
		return false
	}
	return rec(0)
}

func c27Q(s string) string {
	if len(s) > 200 {
		return strconv.Quote(s[:200]) + "…"
	}
	return strconv.Quote(s)
}

// c27CheckEnv returns (key, message) of the first environment deviation.
func c27CheckEnv(run *c27Run, self serf.Member, evType, evName string, ltime uint64) (string, string) {
	one := func(name, want string, missingIsEmpty bool) (string, string) {
		vals, ok := run.Env[name]
		if !ok {
			if missingIsEmpty && want == "" {
				return "", ""
			}
			return "env-" + name, fmt.Sprintf("%s missing from the script's environment (want %s)", name, c27Q(want))
		}
		for _, v := range vals { // a duplicated name: the script may see either
			if v == want {
				return "", ""
			}
		}
		return "env-" + name, fmt.Sprintf("%s=%s, want %s", name, c27Q(strings.Join(vals, "|")), c27Q(want))
	}
	if k, m := one("SERF_EVENT", evType, false); k != "" {
		return k, m
	}
	if k, m := one("SERF_SELF_NAME", self.Name, false); k != "" {
		return k, m
	}
	if k, m := one("SERF_SELF_ROLE", self.Tags["role"], true); k != "" {
		return k, m
	}
	switch evType {
	case "user":
		if k, m := one("SERF_USER_EVENT", evName, false); k != "" {
			return k, m
		}
		if k, m := one("SERF_USER_LTIME", strconv.FormatUint(ltime, 10), false); k != "" {
			return k, m
		}
	case "query":
		if k, m := one("SERF_QUERY_NAME", evName, false); k != "" {
			return k, m
		}
		if k, m := one("SERF_QUERY_LTIME", strconv.FormatUint(ltime, 10), false); k != "" {
			return k, m
		}
	}
	// every SERF_TAG_ variable has a sanitised name
	for name := range run.Env {
		if strings.HasPrefix(name, "SERF_TAG_") && !c27ValidEnvName(name) {
			return "env-tag-name", fmt.Sprintf("variable %s is not sanitised to [A-Z0-9_]", c27Q(name))
		}
	}
	// ASCII tag names: exact variable; two tags with one sanitised name: either value (DESIGN 9)
	groups := map[string][]string{}
	for k, v := range self.Tags {
		if s, ok := c27Sanitize(k); ok {
			groups["SERF_TAG_"+s] = append(groups["SERF_TAG_"+s], v)
		}
	}
	// a tag with a non-ASCII name sanitises to an unspecified name and may therefore
	// collide with (and shadow) any other tag: its value is admissible everywhere
	var wild []string
	for k, v := range self.Tags {
		if _, ok := c27Sanitize(k); !ok {
			wild = append(wild, v)
		}
	}
	for k, v := range self.Tags {
		s, ok := c27Sanitize(k)
		if ok {
			name := "SERF_TAG_" + s
			vals, present := run.Env[name]
			if !present {
				return "env-tag", fmt.Sprintf("tag %s: %s missing", c27Q(k), name)
			}
			good := false
			for _, got := range vals {
				for _, want := range append(append([]string{}, groups[name]...), wild...) {
					if got == want {
						good = true
					}
				}
			}
			if !good {
				return "env-tag", fmt.Sprintf("tag %s: %s=%s, want one of %q", c27Q(k), name, c27Q(strings.Join(vals, "|")), groups[name])
			}
			continue
		}
		// non-ASCII tag name: some sanitised SERF_TAG_ variable carries the value, unless
		// another tag may legitimately shadow it (then nothing can be said)
		found := false
		for name, vals := range run.Env {
			if !strings.HasPrefix(name, "SERF_TAG_") {
				continue
			}
			for _, got := range vals {
				if got == v {
					found = true
				}
			}
		}
		if !found && len(self.Tags) == 1 {
			return "env-tag", fmt.Sprintf("tag %s (non-ASCII name): no SERF_TAG_ variable carries its value %s", c27Q(k), c27Q(v))
		}
	}
	return "", ""
}

func c27CheckMemberStdin(stdin []byte, members []serf.Member) (string, string) {
	if len(members) == 0 {
		if len(stdin) != 0 {
			return "stdin-lines", fmt.Sprintf("no members but stdin=%s", c27Q(string(stdin)))
		}
		return "", ""
	}
	s := string(stdin)
	if !strings.HasSuffix(s, "\n") {
		return "stdin-lines", fmt.Sprintf("member stdin does not end in a newline: %s", c27Q(s))
	}
	lines := strings.Split(strings.TrimSuffix(s, "\n"), "\n")
	if len(lines) != len(members) {
		return "stdin-lines", fmt.Sprintf("%d members but %d stdin lines: %s", len(members), len(lines), c27Q(s))
	}
	for i, ln := range lines {
		f := strings.Split(ln, "\t")
		if len(f) != 4 {
			return "stdin-fields", fmt.Sprintf("line %d has %d tab-separated fields, want 4: %s", i, len(f), c27Q(ln))
		}
		m := members[i]
		if f[0] != c27Esc(m.Name) {
			return "stdin-name", fmt.Sprintf("line %d name field %s, want %s", i, c27Q(f[0]), c27Q(c27Esc(m.Name)))
		}
		if f[1] != m.Addr.String() {
			return "stdin-addr", fmt.Sprintf("line %d address field %s, want %s", i, c27Q(f[1]), m.Addr.String())
		}
		if f[2] != c27Esc(m.Tags["role"]) {
			return "stdin-role", fmt.Sprintf("line %d role field %s, want %s", i, c27Q(f[2]), c27Q(c27Esc(m.Tags["role"])))
		}
		var pairs []string
		for k, v := range m.Tags {
			pairs = append(pairs, k+"="+v)
		}
		sort.Strings(pairs)
		ok := c27Perms(pairs, func(p []string) bool { return c27Esc(strings.Join(p, ",")) == f[3] })
		if !ok {
			return "stdin-tags", fmt.Sprintf("line %d tags field %s is no ordering of %q (escaped)", i, c27Q(f[3]), pairs)
		}
	}
	return "", ""
}

func c27CheckPayloadStdin(stdin, payload []byte) (string, string) {
	switch {
	case len(payload) == 0:
		if len(stdin) == 0 || string(stdin) == "\n" {
			return "", ""
		}
	case payload[len(payload)-1] == '\n':
		if bytes.Equal(stdin, payload) || bytes.Equal(stdin, append(append([]byte{}, payload...), '\n')) {
			return "", ""
		}
	default:
		if bytes.Equal(stdin, append(append([]byte{}, payload...), '\n')) {
			return "", ""
		}
	}
	return "stdin-payload", fmt.Sprintf("stdin (%d bytes) %s is not the payload (%d bytes) %s with a trailing newline", len(stdin), c27Q(string(stdin)), len(payload), c27Q(string(payload)))
}

func c27Payload(rng *rand.Rand, max int) []byte {
	var n int
	switch rng.Intn(6) {
	case 0:
		n = 0
	case 1:
		n = 1
	case 2:
		n = max/2 + rng.Intn(max/2+1)
	default:
		n = 1 + rng.Intn(40)
	}
	if n > max {
		n = max
	}
	b := make([]byte, n)
	for i := range b {
		switch rng.Intn(8) {
		case 0:
			b[i] = '\n'
		case 1:
			b[i] = '\t'
		case 2:
			b[i] = byte(rng.Intn(256)) // may be NUL: stdin carries it
		default:
			b[i] = byte('a' + rng.Intn(26))
		}
	}
	if n > 0 && rng.Intn(3) == 0 {
		b[n-1] = '\n'
	}
	return b
}

func TestC27(t *testing.T) {
	r := evid.Start(t, "C27", "exploration")
	n := r.N(300, 8000)
	base := t.TempDir()
	logger := log.New(io.Discard, "", 0)
	watchdog := 120 * time.Second

	r.Cases("invoke", n, 12, func(ci int, rng *rand.Rand) {
		dir := filepath.Join(base, fmt.Sprintf("c%05d", ci))
		defer os.RemoveAll(dir)
		r.Eval(1)

		// ---- event kind
		var evType string
		switch x := rng.Intn(10); {
		case x < 3:
			evType = c27EventTypes[rng.Intn(5)]
		case x < 6:
			evType = "user"
		default:
			evType = "query"
		}
		evName := c27Names[rng.Intn(len(c27Names))]

		// ---- self
		self := c27Member(rng)
		if evType == "query" {
			self.Name = fmt.Sprintf("q%d-%s", ci, c27Str(rng, "plain", 4))
		}

		// ---- handlers
		nh := 1 + rng.Intn(3)
		hs := make([]*c27Handler, nh)
		var scripts []agent.EventScript
		for k := range hs {
			h := &c27Handler{Dir: filepath.Join(dir, fmt.Sprintf("h%d", k))}
			script := ". '" + filepath.Join(h.Dir, "h.sh") + "'"
			if rng.Intn(5) == 0 {
				script = "C27X=1; " + script // '=' inside the script part
			}
			if rng.Intn(6) == 0 {
				h.Spec = script // no filter: every event
				if strings.Contains(script, "=") {
					h.Spec = ". '" + filepath.Join(h.Dir, "h.sh") + "'"
				}
			} else {
				f, el := c27GenFilter(rng)
				// make matches frequent: bias one element to the event at hand
				if rng.Intn(2) == 0 {
					switch rng.Intn(3) {
					case 0:
						f, el = evType, []c27Elem{{Typ: evType}}
					case 1:
						if evType == "user" || evType == "query" {
							f, el = evType+":"+evName, []c27Elem{{Typ: evType, Name: evName, Named: true}}
						}
					default:
						f2, el2 := c27GenFilter(rng)
						f, el = f2+","+evType, append(el2, c27Elem{Typ: evType})
					}
				}
				h.Elems = el
				h.Spec = f + "=" + script
			}
			if evType == "query" {
				switch rng.Intn(9) {
				case 0:
					h.OutLen = 0
				case 1:
					h.OutLen = 1
				case 2:
					h.OutLen = c27MaxOut - 1 + rng.Intn(3)
				case 3:
					h.OutLen = c27MaxOut + 1 + rng.Intn(20000)
				case 4:
					h.OutLen = 800 + rng.Intn(400) // around the default limit
				default:
					h.OutLen = 1 + rng.Intn(600)
				}
				if rng.Intn(4) == 0 {
					h.Exit = 1 + rng.Intn(3)
				}
			} else if rng.Intn(4) == 0 {
				h.OutLen = rng.Intn(300)
				h.Exit = rng.Intn(2)
			}
			h.ErrFrom = h.OutLen
			if h.OutLen > 0 {
				switch rng.Intn(3) {
				case 0:
					h.ErrFrom = 0
				case 1:
					h.ErrFrom = rng.Intn(h.OutLen + 1)
				}
			}
			if err := c27WriteHandler(h, ci*7+k); err != nil {
				r.Inconclusive("cannot write script: " + err.Error())
				return
			}
			hs[k] = h
			scripts = append(scripts, agent.ParseEventScript(h.Spec)...)
		}
		handler := &agent.ScriptEventHandler{
			SelfFunc: func() serf.Member { return self },
			Scripts:  scripts,
			Logger:   logger,
		}
		// a quarter of the cases: the handler list in effect was installed by a reload. The agent starts
		// with a stale handler (it matches every event and leaves a mark) and is then reloaded to the list
		// of this case - half of the time to an EMPTY list. Only the reloaded list may run.
		reloaded := rng.Intn(4) == 0
		stale := filepath.Join(dir, "stale-handler-ran")
		if reloaded {
			_ = os.MkdirAll(dir, 0o755)
			if rng.Intn(2) == 0 {
				for _, h := range hs {
					os.RemoveAll(h.Dir)
				}
				hs, scripts = nil, []agent.EventScript{}
			}
			handler.Scripts = agent.ParseEventScript(": > '" + stale + "'")
			handler.UpdateScripts(scripts)
			r.Count("cases_with_reloaded_handler_list", 1)
			if len(scripts) == 0 {
				r.Count("cases_reloaded_to_an_empty_handler_list", 1)
			}
		}

		// ---- the event
		var ev serf.Event
		var members []serf.Member
		var payload []byte
		var ltime uint64
		var qresp *serf.QueryResponse
		var query *serf.Query
		limit := 0
		var nd *cluster.Node
		switch evType {
		case "user":
			payload = c27Payload(rng, 3000)
			if rng.Intn(20) == 0 {
				payload = c27Payload(rng, 200000)
			}
			switch rng.Intn(4) {
			case 0:
				ltime = uint64(rng.Intn(100))
			case 1:
				ltime = ^uint64(0) - uint64(rng.Intn(3))
			default:
				ltime = rng.Uint64()
			}
			ev = serf.UserEvent{LTime: serf.LamportTime(ltime), Name: evName, Payload: append([]byte(nil), payload...), Coalesce: rng.Intn(2) == 0}
		case "query":
			limit = []int{1024, 1024, 9000, 400}[rng.Intn(4)]
			var err error
			nd, err = cluster.Start(simnet.New(int64(ci)+1), cluster.Opts{Name: self.Name, IP: "10.9.0.1", Profile: "local", NoDrain: true,
				Mutate: func(c *serf.Config) { c.QueryResponseSizeLimit = limit; c.QuerySizeLimit = 8192 }})
			if err != nil {
				r.Inconclusive("cannot start serf node: " + err.Error())
				return
			}
			defer nd.Close()
			// advance the query clock so that SERF_QUERY_LTIME varies
			for k := rng.Intn(4); k > 0; k-- {
				if _, err := nd.S.Query("warmup", nil, &serf.QueryParam{Timeout: time.Hour}); err != nil {
					r.Inconclusive("warmup query: " + err.Error())
					return
				}
			}
			payload = c27Payload(rng, 3000)
			qresp, err = nd.S.Query(evName, append([]byte(nil), payload...), &serf.QueryParam{Timeout: time.Hour})
			if err != nil {
				r.Inconclusive("query: " + err.Error())
				return
			}
			wd := time.After(watchdog)
		find:
			for {
				select {
				case e := <-nd.Ch:
					if q, ok := e.(*serf.Query); ok && q.Name == evName && q.Name != "warmup" {
						query = q
						break find
					}
				case <-wd:
					r.Inconclusive("query event did not reach EventCh")
					return
				}
			}
			ltime = uint64(query.LTime)
			ev = query
		default:
			nm := rng.Intn(5)
			for k := 0; k < nm; k++ {
				members = append(members, c27Member(rng))
			}
			var ty serf.EventType
			for _, c := range []serf.EventType{serf.EventMemberJoin, serf.EventMemberLeave, serf.EventMemberFailed, serf.EventMemberUpdate, serf.EventMemberReap} {
				if c.String() == evType {
					ty = c
				}
			}
			ev = serf.MemberEvent{Type: ty, Members: members}
		}

		// ---- a third of the cases: the same handler object has already served an earlier event while the
		// node carried other tags (tags change at run time through the tags RPC, without a reload). What the
		// scripts see for the event under test must be the node as it is now (seeded C27-j: the
		// event-independent part of the environment kept from the first invocation).
		if rng.Intn(3) == 0 {
			cur := self
			self = c27Member(rng)
			self.Name = cur.Name
			var warm serf.Event = serf.UserEvent{LTime: 1, Name: evName, Payload: []byte("earlier")}
			if me, ok := ev.(serf.MemberEvent); ok {
				warm = serf.MemberEvent{Type: me.Type}
			}
			wdone := make(chan struct{})
			go func() {
				defer close(wdone)
				handler.HandleEvent(warm)
			}()
			select {
			case <-wdone:
			case <-time.After(watchdog):
				r.Inconclusive(fmt.Sprintf("case %d: HandleEvent (earlier event) did not return within the watchdog", ci))
				return
			}
			self = cur
			earlier := 0
			for _, h := range hs {
				for n := 0; ; n++ {
					if os.Remove(filepath.Join(h.Dir, fmt.Sprintf("%d.env", n))) != nil {
						break
					}
					_ = os.Remove(filepath.Join(h.Dir, fmt.Sprintf("%d.in", n)))
					_ = os.Remove(filepath.Join(h.Dir, fmt.Sprintf("%d.end", n)))
					earlier++
				}
			}
			r.Count("cases_with_an_earlier_event_under_other_tags", 1)
			r.Count("script_runs_for_the_earlier_event", earlier)
		}

		// ---- run (synchronous); watchdog => inconclusive only
		done := make(chan struct{})
		go func() {
			defer close(done)
			handler.HandleEvent(ev)
		}()
		select {
		case <-done:
		case <-time.After(watchdog):
			r.Inconclusive(fmt.Sprintf("case %d: HandleEvent did not return within the watchdog", ci))
			return
		}

		if reloaded {
			if _, err := os.Stat(stale); err == nil {
				r.Violation("reload-ignored", ci, fmt.Sprintf("event handlers were reloaded to %d handler(s) before the %s event, but the handler of the old list still ran", len(scripts), evType),
					map[string]any{"event": evType, "event_name": evName, "new_handlers": len(scripts)})
			}
		}
		witness := func(h *c27Handler) map[string]any {
			w := map[string]any{"spec": h.Spec, "event": evType, "event_name": evName, "self_name": self.Name, "self_tags": fmt.Sprintf("%q", self.Tags),
				"ltime": fmt.Sprint(ltime), "payload": c27Q(string(payload)), "out_len": h.OutLen, "exit": h.Exit}
			if members != nil {
				w["members"] = fmt.Sprintf("%q", members)
			}
			return w
		}

		// ---- oracle per handler
		responders := 0 // handlers that must have answered (definitely fits)
		var wantResp [][]byte
		mayRespond := false
		anyRan := false
		sig := []string{evType}
		for _, h := range hs {
			want := c27Matches(h, evType, evName)
			runs := c27ReadRuns(h.Dir)
			r.Count("script_runs", len(runs))
			if want > 0 {
				r.Count("handlers_matching", 1)
			} else {
				r.Count("handlers_not_matching", 1)
			}
			shape := "none"
			if h.Elems != nil {
				var ks []string
				for _, e := range h.Elems {
					k := e.Typ
					if e.Named {
						k += ":N"
					}
					ks = append(ks, k)
				}
				shape = strings.Join(ks, ",")
			}
			sig = append(sig, fmt.Sprintf("%s>%d", shape, want))
			switch {
			case want == 0 && len(runs) > 0:
				r.Violation("ran-without-match", ci, fmt.Sprintf("handler %s ran %d time(s) for event %s/%s although its filter does not match", c27Q(h.Spec), len(runs), evType, c27Q(evName)), witness(h))
			case want > 0 && len(runs) == 0:
				r.Violation("not-run", ci, fmt.Sprintf("handler %s did not run for event %s/%s although its filter matches", c27Q(h.Spec), evType, c27Q(evName)), witness(h))
			case len(runs) > want:
				r.Violation("ran-too-often", ci, fmt.Sprintf("handler %s ran %d times for one event, %d filter element(s) match", c27Q(h.Spec), len(runs), want), witness(h))
			}
			for ri := range runs {
				run := &runs[ri]
				anyRan = true
				if !run.Ended {
					r.Inconclusive(fmt.Sprintf("case %d: a script run left no end marker", ci))
					continue
				}
				if k, m := c27CheckEnv(run, self, evType, evName, ltime); k != "" {
					r.Violation(k, ci, m, witness(h))
				}
				r.Count("env_blocks_checked", 1)
				var k, m string
				if members != nil || (evType != "user" && evType != "query") {
					k, m = c27CheckMemberStdin(run.Stdin, members)
					r.Count("member_lines_checked", len(members))
				} else {
					k, m = c27CheckPayloadStdin(run.Stdin, payload)
					r.Count("payload_stdin_checked", 1)
				}
				if k != "" {
					r.Violation(k, ci, m, witness(h))
				}
			}
			if evType == "query" && len(runs) > 0 {
				if h.Exit == 0 && h.OutLen > 0 {
					full := append(c27MustRead(filepath.Join(h.Dir, "out1")), c27MustRead(filepath.Join(h.Dir, "out2"))...)
					if len(full) > c27MaxOut {
						full = full[len(full)-c27MaxOut:]
					}
					maxRaw := len(wire.Encode(wire.QueryResponse, wire.MsgQueryResponse{LTime: ltime, ID: ^uint32(0), From: self.Name, Flags: ^uint32(0), Payload: full}))
					minRaw := len(wire.Encode(wire.QueryResponse, wire.MsgQueryResponse{LTime: ltime, ID: 0, From: self.Name, Flags: 0, Payload: full}))
					switch {
					case maxRaw <= limit:
						responders++
						wantResp = append(wantResp, full)
						sig = append(sig, "fits")
					case minRaw > limit:
						r.Count("query_output_over_limit", 1)
						sig = append(sig, "over")
					default:
						mayRespond = true
						wantResp = append(wantResp, full)
						r.Count("query_output_at_limit_edge", 1)
					}
					if h.OutLen > c27MaxOut {
						sig = append(sig, "truncated")
					}
				} else if h.Exit == 0 {
					mayRespond = true // empty output: the statement is silent
					wantResp = append(wantResp, []byte{})
					r.Count("query_runs_without_output", 1)
				} else {
					r.Count("query_runs_failing", 1)
					sig = append(sig, "fail")
				}
			}
		}

		// ---- query response
		if evType == "query" {
			sentinel := []byte(fmt.Sprintf("c27-sentinel-%d", ci))
			perr := query.Respond(sentinel)
			handlerAnswered := perr != nil && strings.Contains(perr.Error(), "already sent")
			if perr != nil && !handlerAnswered {
				r.Inconclusive(fmt.Sprintf("case %d: probe Respond failed: %v", ci, perr))
				return
			}
			var got serf.NodeResponse
			select {
			case got = <-qresp.ResponseCh():
			case <-time.After(watchdog):
				r.Inconclusive(fmt.Sprintf("case %d: no response arrived on ResponseCh", ci))
				return
			}
			r.Count("query_responses_observed", 1)
			isSentinel := bytes.Equal(got.Payload, sentinel)
			if isSentinel == handlerAnswered {
				r.Inconclusive(fmt.Sprintf("case %d: probe and ResponseCh disagree (probe err %v)", ci, perr))
				return
			}
			w := map[string]any{"event_name": evName, "limit": limit, "self_name": self.Name, "payload": c27Q(string(payload))}
			for k, h := range hs {
				w[fmt.Sprintf("handler%d", k)] = fmt.Sprintf("spec=%s out=%d errfrom=%d exit=%d", c27Q(h.Spec), h.OutLen, h.ErrFrom, h.Exit)
			}
			switch {
			case handlerAnswered:
				r.Count("query_answered_by_handler", 1)
				ok := false
				for _, wnt := range wantResp {
					if bytes.Equal(got.Payload, wnt) {
						ok = true
					}
				}
				if ok && len(got.Payload) == c27MaxOut {
					r.Count("query_answers_of_exactly_8KiB", 1)
				}
				if got.From != self.Name {
					r.Violation("response-from", ci, fmt.Sprintf("response from %s, want %s", c27Q(got.From), c27Q(self.Name)), w)
				}
				if !ok {
					key := "response-content"
					if len(wantResp) == 0 {
						key = "response-on-failure"
						if !anyRan {
							key = "response-without-run"
						}
					}
					w["got_len"] = len(got.Payload)
					w["got_head"] = c27Q(string(got.Payload))
					r.Violation(key, ci, fmt.Sprintf("handler answered the query with %d bytes that are not the last %d bytes of a successful handler's output", len(got.Payload), c27MaxOut), w)
				}
			case responders > 0:
				r.Violation("response-missing", ci, "a matching handler succeeded with output that fits the response size limit but the node did not respond", w)
			default:
				r.Count("query_unanswered_as_expected", 1)
			}
			_ = mayRespond
		}

		// ---- evidence
		feat := []string{}
		for k := range self.Tags {
			if _, ok := c27Sanitize(k); !ok {
				feat = append(feat, "tag-nonascii")
			} else if s, _ := c27Sanitize(k); s != k {
				feat = append(feat, "tag-sanitised")
			}
		}
		coll := map[string]int{}
		for k := range self.Tags {
			if s, ok := c27Sanitize(k); ok {
				coll[s]++
				if coll[s] == 2 {
					feat = append(feat, "tag-collision")
					r.Count("cases_with_tag_collision", 1)
				}
			}
		}
		for _, m := range members {
			if strings.ContainsAny(m.Name, "\t\n") {
				feat = append(feat, "name-esc")
			}
			for k, v := range m.Tags {
				if strings.ContainsAny(k+v, "\t\n") {
					feat = append(feat, "tags-esc")
				}
			}
		}
		if members != nil {
			feat = append(feat, fmt.Sprintf("m%d", len(members)))
		}
		if evType == "user" || evType == "query" {
			switch {
			case len(payload) == 0:
				feat = append(feat, "p-empty")
			case payload[len(payload)-1] == '\n':
				feat = append(feat, "p-nl")
			default:
				feat = append(feat, "p-plain")
			}
		}
		sort.Strings(feat)
		feat = c27Uniq(feat)
		if anyRan {
			r.Distinct(strings.Join(sig, "|") + "#" + strings.Join(feat, ","))
		}
		r.Count("events_"+evType, 1)
		if ci < 3 || (evType == "query" && ci < 12) {
			var specs []string
			for _, h := range hs {
				specs = append(specs, strings.ReplaceAll(h.Spec, base, "$TMP"))
			}
			r.Sample(map[string]any{"case": ci, "event": evType, "name": evName, "handlers": specs, "self_tags": fmt.Sprintf("%q", self.Tags), "signature": strings.Join(sig, "|"), "features": feat})
		}
	})

	r.Finish("random handler specifications (no filter, *, lists of event types incl. unknown ones, user:NAME, query:NAME, '=' inside the script part) x random events "+
		"(5 member event types with 0-4 members, user events, real queries on a one-node serf) x random self names/tags/payloads (tabs, newlines, quotes, non-ASCII, colliding tag names); "+
		"distinct = distinct (event type, filter shapes with match counts, response class, input feature set) among cases where at least one script ran",
		r.N(60, 400),
		"inputs carry no NUL bytes in names, tags and event names (the OS cannot put them into an environment); payloads (stdin only) may",
		"two tags that sanitise to the same SERF_TAG_ name may show either value; tag names outside ASCII are only required to appear under some sanitised SERF_TAG_ name",
		"a filter list with several matching elements may run the script once per matching element (1..k runs accepted)",
		"for an empty payload both empty stdin and a lone newline are accepted; a payload already ending in a newline may or may not get another one",
		"query output whose encoded response is within a few bytes of the size limit (unknown query id width) and empty output are not asserted either way",
		"no response after a failing handler is taken from docs/agent/event-handlers.html.markdown ('If the handler exits with a 0 status code ...')",
		"/bin/sh is dash; /proc/$$/environ is the exec environment of the handler shell")
}

func c27MustRead(p string) []byte {
	b, _ := os.ReadFile(p)
	return b
}

func c27Uniq(xs []string) []string {
	var out []string
	for i, x := range xs {
		if i == 0 || x != xs[i-1] {
			out = append(out, x)
		}
	}
	return out
}
