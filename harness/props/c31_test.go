package props

import (
	"encoding/json"
	"fmt"
	"math/rand"
	"os"
	"path/filepath"
	"reflect"
	"sort"
	"strings"
	"testing"
	"time"

	"github.com/hashicorp/serf/cmd/serf/command/agent"

	"verif/harness/evid"
)

// C31: configuration sources layer predictably without side effects.
//
// The real agent.MergeConfig / ReadConfigPaths / DecodeConfig are run on
// reflectively generated Config values (every field of the struct, so new
// fields are covered automatically) next to a reflective reference of the
// statement's rule per field kind:
//   string  : later if non-empty, else earlier
//   number  : later if non-zero, else earlier   (Protocol: later if > 0)
//   switch  : OR                                 (EnableCompression: the later one)
//   tags    : union, later wins
//   lists   : earlier ++ later
//   struct  : field-wise
// The five *Raw duration strings are decode intermediates (their settings are
// compared through the parsed durations) and are not compared.
// Also checked: Merge(Merge(a,b),c) == Merge(a,Merge(b,c)); ReadConfigPaths ==
// folding MergeConfig over the decoded files in order; no input is modified
// (deep copy before vs after, also after the result was merged further).

var c31DurType = reflect.TypeOf(time.Duration(0))

// c31IsRaw: a string field X+"Raw" whose sibling X is a time.Duration.
func c31IsRaw(t reflect.Type, f reflect.StructField) bool {
	if f.Type.Kind() != reflect.String || !strings.HasSuffix(f.Name, "Raw") {
		return false
	}
	sib, ok := t.FieldByName(strings.TrimSuffix(f.Name, "Raw"))
	return ok && sib.Type == c31DurType
}

type c31Ctx struct {
	unsupported map[string]bool
}

// c31Ref is the reference merge; a and b are struct values of the same type.
func (cx *c31Ctx) ref(a, b reflect.Value, path string) reflect.Value {
	t := a.Type()
	out := reflect.New(t).Elem()
	for i := 0; i < t.NumField(); i++ {
		f := t.Field(i)
		name := path + f.Name
		av, bv := a.Field(i), b.Field(i)
		switch {
		case c31IsRaw(t, f):
			out.Field(i).Set(av) // not compared
		case f.Type.Kind() == reflect.String:
			if bv.String() != "" {
				out.Field(i).Set(bv)
			} else {
				out.Field(i).Set(av)
			}
		case f.Type.Kind() == reflect.Bool:
			if name == "EnableCompression" {
				out.Field(i).Set(bv)
			} else {
				out.Field(i).SetBool(av.Bool() || bv.Bool())
			}
		case f.Type.Kind() >= reflect.Int && f.Type.Kind() <= reflect.Int64:
			set := bv.Int() != 0
			if name == "Protocol" {
				set = bv.Int() > 0
			}
			if set {
				out.Field(i).Set(bv)
			} else {
				out.Field(i).Set(av)
			}
		case f.Type.Kind() >= reflect.Uint && f.Type.Kind() <= reflect.Uint64:
			if bv.Uint() != 0 {
				out.Field(i).Set(bv)
			} else {
				out.Field(i).Set(av)
			}
		case f.Type.Kind() == reflect.Float32 || f.Type.Kind() == reflect.Float64:
			if bv.Float() != 0 {
				out.Field(i).Set(bv)
			} else {
				out.Field(i).Set(av)
			}
		case f.Type.Kind() == reflect.Map && f.Type.Key().Kind() == reflect.String && f.Type.Elem().Kind() == reflect.String:
			if av.IsNil() && bv.IsNil() {
				break
			}
			m := reflect.MakeMap(f.Type)
			for _, src := range []reflect.Value{av, bv} {
				it := src.MapRange()
				for it.Next() {
					m.SetMapIndex(it.Key(), it.Value())
				}
			}
			out.Field(i).Set(m)
		case f.Type.Kind() == reflect.Slice && f.Type.Elem().Kind() == reflect.String:
			s := reflect.MakeSlice(f.Type, 0, av.Len()+bv.Len())
			s = reflect.AppendSlice(s, av)
			s = reflect.AppendSlice(s, bv)
			out.Field(i).Set(s)
		case f.Type.Kind() == reflect.Struct:
			out.Field(i).Set(cx.ref(av, bv, name+"."))
		default:
			cx.unsupported[name+" ("+f.Type.String()+")"] = true
			out.Field(i).Set(av)
		}
	}
	return out
}

// c31Diff lists the field paths in which two values differ (nil and empty
// maps/lists are the same setting; *Raw strings are skipped).
func c31Diff(x, y reflect.Value, path string, out *[]string) {
	t := x.Type()
	for i := 0; i < t.NumField(); i++ {
		f := t.Field(i)
		name := path + f.Name
		xv, yv := x.Field(i), y.Field(i)
		switch {
		case c31IsRaw(t, f):
		case f.Type.Kind() == reflect.Struct:
			c31Diff(xv, yv, name+".", out)
		case f.Type.Kind() == reflect.Map || f.Type.Kind() == reflect.Slice:
			if xv.Len() == 0 && yv.Len() == 0 {
				continue
			}
			if !reflect.DeepEqual(xv.Interface(), yv.Interface()) {
				*out = append(*out, name)
			}
		default:
			if !reflect.DeepEqual(xv.Interface(), yv.Interface()) {
				*out = append(*out, name)
			}
		}
	}
}

// c31ExactDiff: fields in which a value differs from its earlier deep copy
// (exact: any change at all is a modification).
func c31ExactDiff(x, y reflect.Value, path string, out *[]string) {
	t := x.Type()
	for i := 0; i < t.NumField(); i++ {
		f := t.Field(i)
		if f.Type.Kind() == reflect.Struct {
			c31ExactDiff(x.Field(i), y.Field(i), path+f.Name+".", out)
		} else if !reflect.DeepEqual(x.Field(i).Interface(), y.Field(i).Interface()) {
			*out = append(*out, path+f.Name)
		}
	}
}

func c31Clone(v reflect.Value) reflect.Value {
	t := v.Type()
	out := reflect.New(t).Elem()
	for i := 0; i < t.NumField(); i++ {
		fv := v.Field(i)
		switch fv.Kind() {
		case reflect.Struct:
			out.Field(i).Set(c31Clone(fv))
		case reflect.Map:
			if fv.IsNil() {
				continue
			}
			m := reflect.MakeMapWithSize(fv.Type(), fv.Len())
			it := fv.MapRange()
			for it.Next() {
				m.SetMapIndex(it.Key(), it.Value())
			}
			out.Field(i).Set(m)
		case reflect.Slice:
			if fv.IsNil() {
				continue
			}
			s := reflect.MakeSlice(fv.Type(), fv.Len(), fv.Cap()) // keep spare capacity: in-place appends must show
			reflect.Copy(s, fv)
			out.Field(i).Set(s)
		default:
			out.Field(i).Set(fv)
		}
	}
	return out
}

func c31CloneCfg(c *agent.Config) *agent.Config {
	out := c31Clone(reflect.ValueOf(c).Elem()).Interface().(agent.Config)
	return &out
}

var c31Keys = []string{"role", "dc", "rack", "ver", "k"}

// c31Fill fills a struct value with arbitrary settings; pSet = probability that a field is set.
func c31Fill(rng *rand.Rand, v reflect.Value, pSet float64, path string) {
	t := v.Type()
	for i := 0; i < t.NumField(); i++ {
		f := t.Field(i)
		fv := v.Field(i)
		set := rng.Float64() < pSet
		switch {
		case f.Type.Kind() == reflect.Struct:
			c31Fill(rng, fv, pSet, path+f.Name+".")
		case f.Type.Kind() == reflect.String:
			if set {
				fv.SetString(fmt.Sprintf("%s%d", strings.ToLower(f.Name[:1]), 1+rng.Intn(3)))
			}
		case f.Type.Kind() == reflect.Bool:
			fv.SetBool(rng.Intn(2) == 0)
		case f.Type == c31DurType:
			if set {
				fv.SetInt(int64(time.Duration(1+rng.Intn(100000)) * time.Millisecond))
			}
		case f.Type.Kind() >= reflect.Int && f.Type.Kind() <= reflect.Int64:
			if set {
				fv.SetInt(int64(1 + rng.Intn(5)))
			} else if path+f.Name == "Protocol" && rng.Intn(4) == 0 {
				fv.SetInt(-1) // the repository's own TestMergeConfig documents: not > 0 = not set
			}
		case f.Type.Kind() >= reflect.Uint && f.Type.Kind() <= reflect.Uint64:
			if set {
				fv.SetUint(uint64(1 + rng.Intn(5)))
			}
		case f.Type.Kind() == reflect.Float32 || f.Type.Kind() == reflect.Float64:
			if set {
				fv.SetFloat(float64(1 + rng.Intn(5)))
			}
		case f.Type.Kind() == reflect.Map && f.Type.Key().Kind() == reflect.String && f.Type.Elem().Kind() == reflect.String:
			switch k := rng.Intn(10); {
			case k < 3: // nil
			case k == 3:
				fv.Set(reflect.MakeMap(f.Type))
			default:
				m := reflect.MakeMap(f.Type)
				for n := 1 + rng.Intn(3); n > 0; n-- {
					m.SetMapIndex(reflect.ValueOf(c31Keys[rng.Intn(len(c31Keys))]), reflect.ValueOf(fmt.Sprintf("t%d", rng.Intn(4))))
				}
				fv.Set(m)
			}
		case f.Type.Kind() == reflect.Slice && f.Type.Elem().Kind() == reflect.String:
			switch k := rng.Intn(10); {
			case k < 3:
			case k == 3:
				fv.Set(reflect.MakeSlice(f.Type, 0, 0))
			default:
				n := 1 + rng.Intn(3)
				s := reflect.MakeSlice(f.Type, n, n+rng.Intn(3)) // spare capacity: appends in place would show
				for j := 0; j < n; j++ {
					s.Index(j).SetString(fmt.Sprintf("%s%d", strings.ToLower(f.Name[:2]), rng.Intn(4)))
				}
				fv.Set(s)
			}
		}
	}
}

func c31Gen(rng *rand.Rand) *agent.Config {
	var c agent.Config
	p := []float64{0.15, 0.4, 0.7, 0.95}[rng.Intn(4)]
	c31Fill(rng, reflect.ValueOf(&c).Elem(), p, "")
	return &c
}

// c31FileObj renders a config as the JSON object a configuration file would
// hold (mapstructure names; durations through their *Raw strings).
func c31FileObj(rng *rand.Rand, v reflect.Value) map[string]any {
	t := v.Type()
	obj := map[string]any{}
	for i := 0; i < t.NumField(); i++ {
		f := t.Field(i)
		key := f.Tag.Get("mapstructure")
		if key == "-" {
			continue
		}
		if key == "" {
			key = f.Name
		}
		fv := v.Field(i)
		switch {
		case c31IsRaw(t, f):
			if rng.Intn(2) == 0 {
				obj[key] = (time.Duration(1+rng.Intn(100000)) * time.Millisecond).String()
			}
		case f.Type.Kind() == reflect.Struct:
			if rng.Intn(3) > 0 {
				obj[key] = c31FileObj(rng, fv)
			}
		case f.Type.Kind() == reflect.Bool:
			if rng.Intn(2) == 0 { // a switch is often simply absent from a file
				obj[key] = fv.Bool()
			}
		case f.Type.Kind() == reflect.Map || f.Type.Kind() == reflect.Slice:
			if !fv.IsNil() {
				obj[key] = fv.Interface()
			}
		default:
			if !fv.IsZero() {
				obj[key] = fv.Interface()
			}
		}
	}
	return obj
}

func c31SetPattern(cfgs []*agent.Config) (sig string, conflicts int) {
	t := reflect.TypeOf(agent.Config{})
	var sb strings.Builder
	for i := 0; i < t.NumField(); i++ {
		var vals []string
		m := 0
		for j, c := range cfgs {
			fv := reflect.ValueOf(c).Elem().Field(i)
			if !fv.IsZero() {
				m |= 1 << j
				vals = append(vals, fmt.Sprint(fv.Interface()))
			}
		}
		fmt.Fprintf(&sb, "%d", m)
		if len(vals) >= 2 && vals[0] != vals[len(vals)-1] {
			conflicts++
		}
	}
	return sb.String(), conflicts
}

func c31Show(c *agent.Config) string {
	b, _ := json.Marshal(c)
	return string(b)
}

func TestC31(t *testing.T) {
	r := evid.Start(t, "C31", "exploration")
	cx := &c31Ctx{unsupported: map[string]bool{}}
	cfgT := reflect.TypeOf(agent.Config{})
	r.Extra("config_fields_covered", cfgT.NumField())

	rv := func(c *agent.Config) reflect.Value { return reflect.ValueOf(c).Elem() }
	refMerge := func(a, b *agent.Config) *agent.Config {
		out := cx.ref(rv(a), rv(b), "").Interface().(agent.Config)
		return &out
	}
	diff := func(x, y *agent.Config) []string {
		var d []string
		c31Diff(rv(x), rv(y), "", &d)
		return d
	}
	unchanged := func(now, orig *agent.Config) []string {
		var d []string
		c31ExactDiff(rv(now), rv(orig), "", &d)
		return d
	}
	fieldStr := func(c *agent.Config, path string) string {
		v := rv(c)
		for _, p := range strings.Split(path, ".") {
			v = v.FieldByName(p)
		}
		return fmt.Sprintf("%#v", v.Interface())
	}

	// ---------------- triples in memory
	nTri := r.N(20000, 1000000)
	r.Cases("triples", nTri, 0, func(ci int, rng *rand.Rand) {
		A0, B0, C0 := c31Gen(rng), c31Gen(rng), c31Gen(rng)
		a, b, c := c31CloneCfg(A0), c31CloneCfg(B0), c31CloneCfg(C0)
		wit := func() map[string]any {
			return map[string]any{"a": c31Show(A0), "b": c31Show(B0), "c": c31Show(C0)}
		}
		viol := false
		// pair
		want := refMerge(A0, B0)
		ab := agent.MergeConfig(a, b)
		for _, f := range diff(ab, want) {
			viol = true
			r.Count("mismatch_field_"+f, 1)
			r.Violation("merge-field-"+f, ci, fmt.Sprintf("MergeConfig(a,b).%s = %s; a.%s = %s, b.%s = %s, so the statement's rule gives %s", f, fieldStr(ab, f), f, fieldStr(A0, f), f, fieldStr(B0, f), fieldStr(want, f)), wit())
		}
		for i, in := range []*agent.Config{a, b} {
			for _, f := range unchanged(in, []*agent.Config{A0, B0}[i]) {
				viol = true
				r.Count("input_modified_"+f, 1)
				r.Violation("input-modified-"+f, ci, fmt.Sprintf("MergeConfig(a,b) modified its %s input: %s was %s, is now %s", []string{"first", "second"}[i], f, fieldStr([]*agent.Config{A0, B0}[i], f), fieldStr(in, f)), wit())
			}
		}
		// a result must stay what it was when its inputs are merged again with something else
		if !viol {
			_ = agent.MergeConfig(a, c31CloneCfg(C0))
			_ = agent.MergeConfig(c31CloneCfg(C0), b)
			for _, f := range diff(ab, want) {
				viol = true
				r.Count("result_changed_later_"+f, 1)
				r.Violation("result-changed-later-"+f, ci, fmt.Sprintf("MergeConfig(a,b).%s was %s; after a was merged with another source it reads %s (the result shares memory with its input)", f, fieldStr(want, f), fieldStr(ab, f)), wit())
			}
		}
		// associativity + no modification through the chained merges
		abSnap := c31CloneCfg(ab)
		left := agent.MergeConfig(ab, c)
		if !viol {
			for _, f := range unchanged(ab, abSnap) {
				viol = true
				r.Violation("input-modified-"+f, ci, fmt.Sprintf("MergeConfig(ab,c) modified its first input: %s was %s, is now %s", f, fieldStr(abSnap, f), fieldStr(ab, f)), wit())
			}
			for i, in := range []*agent.Config{a, b, c} {
				for _, f := range unchanged(in, []*agent.Config{A0, B0, C0}[i]) {
					viol = true
					r.Count("input_modified_via_alias_"+f, 1)
					r.Violation("input-modified-later-"+f, ci, fmt.Sprintf("merging the result of MergeConfig(a,b) with c modified source %s: %s was %s, is now %s (the first result shares it)", []string{"a", "b", "c"}[i], f, fieldStr([]*agent.Config{A0, B0, C0}[i], f), fieldStr(in, f)), wit())
				}
			}
		}
		b2, c2, a2 := c31CloneCfg(B0), c31CloneCfg(C0), c31CloneCfg(A0)
		bc := agent.MergeConfig(b2, c2)
		right := agent.MergeConfig(a2, bc)
		if !viol {
			for _, f := range diff(left, right) {
				r.Count("associativity_field_"+f, 1)
				r.Violation("associativity-"+f, ci, fmt.Sprintf("Merge(Merge(a,b),c).%s = %s but Merge(a,Merge(b,c)).%s = %s", f, fieldStr(left, f), f, fieldStr(right, f)), wit())
			}
			want3 := refMerge(refMerge(A0, B0), C0)
			for _, f := range diff(left, want3) {
				r.Violation("merge-field-"+f, ci, fmt.Sprintf("Merge(Merge(a,b),c).%s = %s, the rule gives %s", f, fieldStr(left, f), fieldStr(want3, f)), wit())
			}
		}
		// does the result share memory with an input? (observation only)
		if ab.Tags != nil && a.Tags != nil && reflect.ValueOf(ab.Tags).Pointer() == reflect.ValueOf(a.Tags).Pointer() {
			r.Count("result_shares_tags_map_with_first_input", 1)
		}
		r.Eval(1)
		sig, conflicts := c31SetPattern([]*agent.Config{A0, B0, C0})
		if conflicts > 0 {
			r.Distinct("t|" + sig)
			r.Count("fields_set_by_several_sources_with_different_values", conflicts)
		}
		if ci < 2 {
			r.Sample(map[string]any{"kind": "triple", "a": c31Show(A0), "b": c31Show(B0), "c": c31Show(C0), "merged": c31Show(left)})
		}
	})

	// ---------------- files and directories
	nFiles := r.N(1500, 40000)
	r.Cases("files", nFiles, 0, func(ci int, rng *rand.Rand) {
		dir, err := os.MkdirTemp("", "verif-c31-")
		if err != nil {
			r.Inconclusive("MkdirTemp: " + err.Error())
			return
		}
		defer os.RemoveAll(dir)
		type src struct {
			path string
			body []byte
		}
		var order []src // files in the order they must be applied
		var paths []string
		writeCfg := func(p string) bool {
			obj := c31FileObj(rng, rv(c31Gen(rng)))
			b, _ := json.Marshal(obj)
			if err := os.WriteFile(p, b, 0o644); err != nil {
				r.Inconclusive("WriteFile: " + err.Error())
				return false
			}
			order = append(order, src{p, b})
			return true
		}
		nPaths := rng.Intn(4)
		if rng.Intn(10) > 0 {
			nPaths++
		}
		for pi := 0; pi < nPaths; pi++ {
			if rng.Intn(2) == 0 {
				p := filepath.Join(dir, fmt.Sprintf("p%d-%d.conf", pi, rng.Intn(100))) // a file path needs no .json suffix
				if !writeCfg(p) {
					return
				}
				paths = append(paths, p)
				continue
			}
			d := filepath.Join(dir, fmt.Sprintf("d%d", pi))
			_ = os.Mkdir(d, 0o755)
			names := map[string]bool{}
			for n := rng.Intn(5); n > 0; n-- {
				names[[]string{"10-", "2-", "a", "B", "z", "01", ""}[rng.Intn(7)]+fmt.Sprint(rng.Intn(30))+".json"] = true
			}
			var sorted []string
			for n := range names {
				sorted = append(sorted, n)
			}
			sort.Strings(sorted)
			for _, n := range sorted {
				if !writeCfg(filepath.Join(d, n)) {
					return
				}
			}
			// things the reader must ignore
			_ = os.WriteFile(filepath.Join(d, "notes.txt"), []byte("{ not json"), 0o644)
			_ = os.WriteFile(filepath.Join(d, "5-x.json.bak"), []byte(`{"node_name":"ignored"}`), 0o644)
			sub := filepath.Join(d, "5-sub.json")
			_ = os.Mkdir(sub, 0o755)
			_ = os.WriteFile(filepath.Join(sub, "1.json"), []byte(`{"node_name":"ignored-too"}`), 0o644)
			paths = append(paths, d)
		}
		got, err := agent.ReadConfigPaths(paths)
		wit := func() map[string]any {
			w := map[string]any{"paths": paths}
			var fs []string
			for _, s := range order {
				fs = append(fs, strings.TrimPrefix(s.path, dir+"/")+": "+string(s.body))
			}
			w["files_in_order"] = fs
			return w
		}
		r.Eval(1)
		if err != nil {
			r.Violation("readpaths-error", ci, "ReadConfigPaths failed on valid files: "+err.Error(), wit())
			return
		}
		foldReal, foldRef := new(agent.Config), new(agent.Config)
		for _, s := range order {
			f, err := os.Open(s.path)
			if err != nil {
				r.Inconclusive(err.Error())
				return
			}
			cfg, err := agent.DecodeConfig(f)
			f.Close()
			if err != nil {
				r.Violation("decode-error", ci, fmt.Sprintf("DecodeConfig failed on %s: %v", s.body, err), wit())
				return
			}
			foldReal = agent.MergeConfig(foldReal, cfg)
			foldRef = refMerge(foldRef, cfg)
		}
		for _, f := range diff(got, foldReal) {
			r.Violation("readpaths-fold-"+f, ci, fmt.Sprintf("ReadConfigPaths(...).%s = %s but merging the decoded files one by one gives %s", f, fieldStr(got, f), fieldStr(foldReal, f)), wit())
		}
		for _, f := range diff(got, foldRef) {
			r.Count("mismatch_field_"+f, 1)
			r.Violation("merge-field-"+f, ci, fmt.Sprintf("ReadConfigPaths(...).%s = %s; layering the %d files by the statement's rule gives %s", f, fieldStr(got, f), len(order), fieldStr(foldRef, f)), wit())
		}
		r.Count("config_files_read", len(order))
		if len(order) >= 2 {
			r.Distinct(fmt.Sprintf("f|%d|%s", len(paths), c31Show(foldRef)))
		}
		if ci == 0 {
			r.Sample(map[string]any{"kind": "files", "paths": len(paths), "files": len(order), "result": c31Show(got)})
		}
	})
	if len(cx.unsupported) > 0 {
		var u []string
		for k := range cx.unsupported {
			u = append(u, k)
		}
		sort.Strings(u)
		r.Inconclusive("Config has fields of a kind the reference has no rule for: " + strings.Join(u, ", "))
	}
	r.Finish("triples: every field of agent.Config (recursively) is set with probability 0.15/0.4/0.7/0.95 per config from small value pools so that sources collide; tags nil/empty/1-3 keys of 5; lists nil/empty/1-3 items with spare capacity; Protocol also -1. files: 0-4 paths, each a file or a directory with 0-4 .json files (names chosen so that lexical order differs from numeric), plus a .txt, a .json.bak and a sub-directory named *.json that must be ignored. distinct = per-field pattern of which sources set the field (triples with at least one field set differently by two sources) / distinct layered results",
		r.N(5000, 50000),
		"numbers are generated >= 0 (Protocol also -1): whether a negative number 'sets' a field is not decided by the statement",
		"*Raw duration strings are not compared; durations in files are whole milliseconds so that their string form parses back exactly",
		"nil and empty tags/lists are the same setting")
}
