package props

import (
	"fmt"
	"math/rand"
	"os"
	"sort"
	"strings"
	"sync/atomic"
	"testing"
	"testing/synctest"
	"time"

	"github.com/hashicorp/memberlist"
	"github.com/hashicorp/serf/serf"

	"verif/harness/cluster"
	"verif/harness/evid"
	"verif/harness/simnet"
	"verif/harness/wire"
)

// C02: join/leave intents resolve by Lamport time under any delivery schedule.
//
// 2-4 real Serf instances with a passive memberlist; the harness plays the rest
// of memberlist (DESIGN 3.4): it keeps, per replica, the set of members that
// replica's failure detector currently believes alive and delivers NotifyJoin /
// NotifyLeave in per-member causal order at arbitrary points; it drains every
// replica's real broadcast queues into a message pool and delivers those bytes to
// arbitrary running replicas with duplication, reordering and loss; push/pull at
// arbitrary points is B.MergeRemoteState(A.LocalState()). Lifecycle operations
// are the real API (Leave, Shutdown, RemoveFailedNode[Prune], Create); only the
// join intent of a (re)started node is re-created by the harness with exactly
// the bytes Serf.Join would broadcast (its clock after the join push/pull) and is
// then processed by the real code everywhere, including the node itself.
//
// Per-step monitors (every delivery, merge and notification): a member's status
// time never decreases; an intent whose LTime is not newer than the recorded one
// never changes the member's status. Final oracle after flushing notifications and
// two all-pairs state-sync rounds: running replicas agree; and the specific status
// is demanded where the statement is unambiguous (DESIGN C02 "oracle strength").

type c02Rep struct {
	name    string
	ip      string
	nd      *cluster.Node
	running bool
	// ground truth
	everLeft      bool // current incarnation completed a graceful Leave()
	crashed       bool
	leaveLTime    uint64
	forceLeft     bool
	joinLTime     uint64
	leaveAccepted bool            // some running replica applied this incarnation's leave
	mlAlive       map[string]bool // members this replica's failure detector believes alive
	pend          map[string][]string
	learned       map[string]bool
	restarted     bool
	prunedBefore  bool // a pruning force-leave was issued against an earlier incarnation
	pruneIssued   bool
	// a running incarnation of this member was advertised on some replica's left list
	// with a status time >= its current join time (the receiver fabricates leave = time+1)
	leftListAfterJoin bool
	prevLeaveMax      uint64 // highest LTime of any leave/force-leave about this member issued before its current incarnation joined
	// ledger: per member this replica does NOT list, the newest intent it has been handed
	// about that member since it started (what must decide the member's status when the
	// failure detector reports it)
	ledger map[string]*c02Best
	// highest leave time any push/pull receiver fabricated for this member (left-list entry: status time + 1)
	// so far, and the value of that maximum when the member's current incarnation started
	fabLeaveMax   uint64
	fabBeforeJoin uint64
}

// c02Best is the newest intent a replica received about a member it does not list.
type c02Best struct {
	leave bool
	lt    uint64
	tie   bool // an intent of the other type with the same LTime arrived later (either may win)
}

func (r *c02Rep) note(node string, leave bool, lt uint64) {
	b, ok := r.ledger[node]
	switch {
	case !ok || lt > b.lt:
		r.ledger[node] = &c02Best{leave: leave, lt: lt}
	case lt == b.lt && leave != b.leave:
		b.tie = true
	}
}

type c02Info struct {
	status serf.MemberStatus
	ltime  uint64
}

type c02World struct {
	t      *testing.T
	rng    *rand.Rand
	net    *simnet.Net
	reps   []*c02Rep
	pool   [][]byte
	inPool map[string]bool
	trk    map[*cluster.Node]*qTracker
	viols  [][2]string
	stats  map[string]int
	log    strings.Builder
	conc   bool
}

func (w *c02World) violate(key, msg string) {
	if len(w.viols) < 6 {
		w.viols = append(w.viols, [2]string{key, msg})
	}
}

func (w *c02World) info(r *c02Rep) map[string]c02Info {
	out := map[string]c02Info{}
	st, err := r.nd.State()
	if err != nil {
		return out
	}
	mm := r.nd.MemberMap()
	for n, s := range mm {
		out[n] = c02Info{s, st.StatusLTimes[n]}
	}
	return out
}

// monotone checks status times of members present before and after.
func (w *c02World) monotone(r *c02Rep, what string, before, after map[string]c02Info) {
	for n, b := range before {
		if a, ok := after[n]; ok && a.ltime < b.ltime {
			w.violate("status-time-decreased", fmt.Sprintf("%s at %s: status time of %s went from %d to %d", what, r.name, n, b.ltime, a.ltime))
		}
	}
}

func (w *c02World) start(r *c02Rep) bool {
	nd, err := cluster.Start(w.net, cluster.Opts{Name: r.name, IP: r.ip, Profile: "passive",
		Mutate: func(c *serf.Config) {
			// zero delays: a prune of a member that is still "leaving" would otherwise sleep
			// under the member lock and freeze the bubble (HARNESS_GUIDE "bubble hazard")
			c.BroadcastTimeout = 0
			c.LeavePropagateDelay = 0
			c.ReapInterval = 1000 * time.Hour
		}})
	if err != nil {
		w.violate("setup", err.Error())
		return false
	}
	r.nd, r.running = nd, true
	r.everLeft, r.crashed, r.forceLeft, r.leaveAccepted = false, false, false, false
	r.leftListAfterJoin = false
	r.mlAlive = map[string]bool{}
	r.pend = map[string][]string{}
	r.learned = map[string]bool{r.name: true}
	r.ledger = map[string]*c02Best{}
	w.trk[nd] = newQTracker()
	return true
}

func (w *c02World) running() []*c02Rep {
	var out []*c02Rep
	for _, r := range w.reps {
		if r.running {
			out = append(out, r)
		}
	}
	return out
}

func (w *c02World) byName(n string) *c02Rep {
	for _, r := range w.reps {
		if r.name == n {
			return r
		}
	}
	return nil
}

func (w *c02World) fake(r *c02Rep) *memberlist.Node { return cluster.FakeNode(r.name, r.ip, 7946, nil) }

// poll moves new queue entries of every running replica into the pool.
func (w *c02World) poll() {
	for _, r := range w.running() {
		for _, m := range w.trk[r.nd].Poll(r.nd) {
			if !w.inPool[string(m)] {
				w.inPool[string(m)] = true
				w.pool = append(w.pool, append([]byte(nil), m...))
			}
		}
	}
}

// notify delivers one pending memberlist notification (r learns x is up/down).
func (w *c02World) notify(r *c02Rep, x string) {
	q := r.pend[x]
	if len(q) == 0 {
		return
	}
	ev := q[0]
	r.pend[x] = q[1:]
	before := w.info(r)
	xr := w.byName(x)
	if ev == "up" {
		r.nd.NotifyJoin(w.fake(xr))
		r.mlAlive[x] = true
		r.learned[x] = true
		if _, listed := before[x]; !listed {
			// the member was not listed: the newest intent received about it decides
			synctest.Wait()
			a, ok := w.info(r)[x]
			want, wantLT := serf.StatusAlive, uint64(0)
			b := r.ledger[x]
			if b != nil {
				wantLT = b.lt
				if b.leave {
					want = serf.StatusLeaving
				}
			}
			w.stats["unlisted_member_reported_up"]++
			if b != nil {
				w.stats["unlisted_member_reported_up_with_buffered_intent"]++
			}
			if ok && b != nil && b.tie {
				if a.ltime != wantLT {
					w.violate("buffered-intent-not-newest", fmt.Sprintf("%s: %s reported up while unlisted; newest intents received had LTime %d, status time is %d", r.name, x, wantLT, a.ltime))
				}
			} else if ok && (a.status != want || a.ltime != wantLT) {
				kind := "join"
				if b != nil && b.leave {
					kind = "leave"
				}
				if b == nil {
					kind = "no"
				}
				w.violate("buffered-intent-not-newest", fmt.Sprintf("%s: %s reported up while unlisted; the newest intent received about it was a %s intent with LTime %d, so it should be %v with status time %d, but it is %v with status time %d", r.name, x, kind, wantLT, want, wantLT, a.status, a.ltime))
			}
		}
	} else {
		r.nd.NotifyLeave(w.fake(xr))
		delete(r.mlAlive, x)
	}
	synctest.Wait()
	w.monotone(r, "notify "+ev+"("+x+")", before, w.info(r))
	fmt.Fprintf(&w.log, "%s:%s(%s) ", r.name, ev, x)
	w.stats["notifications"]++
}

func (w *c02World) schedule(r *c02Rep, x, ev string) {
	// collapse: only schedule if it changes the eventual view
	cur := r.mlAlive[x]
	if q := r.pend[x]; len(q) > 0 {
		cur = q[len(q)-1] == "up"
	}
	if (ev == "up") == cur {
		if ev == "up" {
			// a restart while still believed alive: memberlist reports down then up, or just an update; model as down+up
			r.pend[x] = append(r.pend[x], "down", "up")
		}
		return
	}
	r.pend[x] = append(r.pend[x], ev)
}

// deliver hands a pooled message to a replica with the per-step monitors.
func (w *c02World) deliver(r *c02Rep, msg []byte) {
	before := w.info(r)
	r.nd.NotifyMsg(append([]byte(nil), msg...))
	synctest.Wait()
	after := w.info(r)
	w.monotone(r, "gossip", before, after)
	w.stats["deliveries"]++
	var node string
	var lt uint64
	kind := ""
	switch msg[0] {
	case wire.Join:
		var j wire.MsgJoin
		if wire.Decode(msg[1:], &j) == nil {
			node, lt, kind = j.Node, j.LTime, "join"
		}
	case wire.Leave:
		var l wire.MsgLeave
		if wire.Decode(msg[1:], &l) == nil {
			node, lt, kind = l.Node, l.LTime, "leave"
		}
	}
	if kind == "" {
		return
	}
	fmt.Fprintf(&w.log, "%s<-%s(%s,%d) ", r.name, kind, node, lt)
	b, known := before[node]
	if !known && node != r.name {
		r.note(node, kind == "leave", lt)
	}
	if known && lt <= b.ltime {
		w.stats["stale_intents"]++
		a, still := after[node]
		if !still || a.status != b.status {
			w.violate("stale-intent-changed-status", fmt.Sprintf("%s: %s intent about %s with LTime %d (recorded status time %d) changed status %v -> %v (present=%v)", r.name, kind, node, lt, b.ltime, b.status, a.status, still))
		}
	} else if known {
		w.stats["fresh_intents"]++
	}
	if kind == "leave" {
		if xr := w.byName(node); xr != nil && xr.everLeft && lt == xr.leaveLTime {
			if a, ok := after[node]; ok && (a.status == serf.StatusLeaving || a.status == serf.StatusLeft) {
				xr.leaveAccepted = true // cleared again below if that replica dies
			}
		}
	}
}

func (w *c02World) pushPull(a, b *c02Rep, join bool) {
	ba, bb := w.info(a), w.info(b)
	sa := a.nd.ML.Delegate.LocalState(join)
	sb := b.nd.ML.Delegate.LocalState(join)
	for _, st := range [][]byte{sa, sb} {
		var pp wire.MsgPushPull
		if len(st) > 1 && wire.Decode(st[1:], &pp) == nil {
			for _, n := range pp.LeftMembers {
				if x := w.byName(n); x != nil && x.running && pp.StatusLTimes[n]+1 >= x.joinLTime {
					x.leftListAfterJoin = true
					w.stats["left_list_entry_at_or_after_current_join"]++
				}
				if x := w.byName(n); x != nil && pp.StatusLTimes[n]+1 > x.fabLeaveMax {
					x.fabLeaveMax = pp.StatusLTimes[n] + 1
				}
			}
		}
	}
	for _, d := range []struct {
		st   []byte
		to   *c02Rep
		list map[string]c02Info
	}{{sa, b, bb}, {sb, a, ba}} {
		var pp wire.MsgPushPull
		if len(d.st) > 1 && wire.Decode(d.st[1:], &pp) == nil {
			left := map[string]bool{}
			for _, n := range pp.LeftMembers {
				left[n] = true
				if _, listed := d.list[n]; !listed && n != d.to.name {
					d.to.note(n, true, pp.StatusLTimes[n]+1)
				}
			}
			for n, lt := range pp.StatusLTimes {
				if _, listed := d.list[n]; !listed && !left[n] && n != d.to.name {
					d.to.note(n, false, lt)
				}
			}
		}
	}
	b.nd.ML.Delegate.MergeRemoteState(sa, join)
	a.nd.ML.Delegate.MergeRemoteState(sb, join)
	synctest.Wait()
	w.monotone(a, "push/pull", ba, w.info(a))
	w.monotone(b, "push/pull", bb, w.info(b))
	w.stats["pushpulls"]++
	fmt.Fprintf(&w.log, "pp(%s,%s) ", a.name, b.name)
}

// joinVia performs what Serf.Join does for a (re)started node x contacting r.
func (w *c02World) joinVia(x, r *c02Rep) {
	w.pushPull(x, r, true)
	// x's failure detector learns what r's believes alive, plus r
	for m := range r.mlAlive {
		if m != x.name {
			w.schedule(x, m, "up")
			mr := w.byName(m)
			if mr != nil && !mr.running {
				w.schedule(x, m, "down") // x will find out on its own
			}
		}
	}
	w.schedule(x, r.name, "up")
	for _, o := range w.running() {
		if o != x {
			w.schedule(o, x.name, "up")
		}
	}
	// deliver x's own view promptly (memberlist merges the remote node list during the join)
	for m := range x.pend {
		for len(x.pend[m]) > 0 && x.pend[m][0] == "up" {
			w.notify(x, m)
		}
	}
	w.notify(r, x.name)
	if len(r.pend[x.name]) > 0 {
		w.notify(r, x.name)
	}
	// the join intent exactly as broadcastJoin builds it: current clock of x
	var clk uint64
	fmt.Sscan(x.nd.S.Stats()["member_time"], &clk)
	x.joinLTime = clk
	msg := wire.Encode(wire.Join, &wire.MsgJoin{LTime: clk, Node: x.name})
	w.deliver(x, msg) // local processing (witness + own status time + queueing)
	w.poll()
	if !w.inPool[string(msg)] {
		w.inPool[string(msg)] = true
		w.pool = append(w.pool, msg)
	}
}

func (w *c02World) down(x *c02Rep) {
	x.nd.Close()
	x.running = false
	for _, o := range w.running() {
		if o.mlAlive[x.name] || len(o.pend[x.name]) > 0 {
			w.schedule(o, x.name, "down")
		}
	}
	// knowledge held only by x is gone
	w.recomputeAccepted()
}

func (w *c02World) recomputeAccepted() {
	for _, x := range w.reps {
		if !x.everLeft || x.running {
			continue
		}
		acc := false
		for _, r := range w.running() {
			if s, ok := r.nd.MemberMap()[x.name]; ok && (s == serf.StatusLeaving || s == serf.StatusLeft) {
				acc = true
			}
		}
		x.leaveAccepted = acc
	}
}

func (w *c02World) randomTraffic(n int) {
	for i := 0; i < n; i++ {
		run := w.running()
		if len(run) == 0 {
			return
		}
		w.poll()
		switch x := w.rng.Intn(10); {
		case x < 6 && len(w.pool) > 0:
			m := w.pool[w.rng.Intn(len(w.pool))]
			if w.rng.Intn(5) == 0 {
				w.stats["drops"]++
				continue
			}
			r := run[w.rng.Intn(len(run))]
			w.deliver(r, m)
			for k := w.rng.Intn(3); k > 0 && w.rng.Intn(3) == 0; k-- {
				w.deliver(run[w.rng.Intn(len(run))], m)
			}
		case x < 8:
			r := run[w.rng.Intn(len(run))]
			var keys []string
			for k, q := range r.pend {
				if len(q) > 0 {
					keys = append(keys, k)
				}
			}
			sort.Strings(keys)
			if len(keys) > 0 {
				w.notify(r, keys[w.rng.Intn(len(keys))])
			}
		case x < 9 && len(run) >= 2:
			a := run[w.rng.Intn(len(run))]
			b := run[w.rng.Intn(len(run))]
			if a != b {
				w.pushPull(a, b, false)
			}
		default:
			time.Sleep(time.Duration(w.rng.Intn(800)) * time.Millisecond)
		}
	}
}

func (w *c02World) lifecycle() {
	run := w.running()
	var downs []*c02Rep
	for _, r := range w.reps {
		if !r.running {
			downs = append(downs, r)
		}
	}
	switch x := w.rng.Intn(10); {
	case x < 3 && len(run) >= 2: // graceful leave
		m := run[w.rng.Intn(len(run))]
		fmt.Fprintf(&w.log, "LEAVE(%s) ", m.name)
		done := make(chan error, 1)
		go func() { done <- m.nd.S.Leave() }()
		fin := false
		for i := 0; i < 40 && !fin; i++ {
			synctest.Wait()
			w.poll()
			// learn the leave LTime from the queued message
			for _, pm := range w.pool {
				if pm[0] == wire.Leave {
					var l wire.MsgLeave
					if wire.Decode(pm[1:], &l) == nil && l.Node == m.name && !l.Prune && l.LTime >= m.joinLTime && l.LTime > m.leaveLTime {
						m.leaveLTime = l.LTime
					}
				}
			}
			if w.rng.Intn(2) == 0 {
				w.randomTraffic(1 + w.rng.Intn(3))
			}
			select {
			case <-done:
				fin = true
			default:
				time.Sleep(500 * time.Millisecond)
			}
		}
		if !fin {
			w.violate("setup", "Leave did not return within 20 virtual seconds")
			<-done
		}
		m.everLeft = true
		w.stats["leaves"]++
		w.down(m)
	case x < 5 && len(run) >= 2: // crash
		m := run[w.rng.Intn(len(run))]
		fmt.Fprintf(&w.log, "CRASH(%s) ", m.name)
		m.crashed = true
		w.stats["crashes"]++
		w.down(m)
	case x < 8 && len(downs) > 0 && len(run) >= 1: // restart
		m := downs[w.rng.Intn(len(downs))]
		r := run[w.rng.Intn(len(run))]
		fmt.Fprintf(&w.log, "RESTART(%s via %s) ", m.name, r.name)
		w.poll()
		for _, pm := range w.pool {
			if pm[0] == wire.Leave {
				var l wire.MsgLeave
				if wire.Decode(pm[1:], &l) == nil && l.Node == m.name && l.LTime > m.prevLeaveMax {
					m.prevLeaveMax = l.LTime
				}
			}
		}
		if !w.start(m) {
			return
		}
		m.restarted = true
		m.fabBeforeJoin = m.fabLeaveMax // includes what peers were handed while the previous incarnation was leaving
		m.prunedBefore = m.prunedBefore || m.pruneIssued
		m.pruneIssued = false
		w.stats["restarts"]++
		w.joinVia(m, r)
	case len(downs) > 0 && len(run) >= 1: // force-leave of a member that is down
		m := downs[w.rng.Intn(len(downs))]
		r := run[w.rng.Intn(len(run))]
		if _, known := r.nd.MemberMap()[m.name]; !known {
			return
		}
		prune := w.rng.Intn(4) == 0
		fmt.Fprintf(&w.log, "FORCELEAVE(%s by %s prune=%v) ", m.name, r.name, prune)
		// what the issuer had applied about the member when the operator asked
		issuerBefore := w.info(r)[m.name]
		done := make(chan error, 1)
		go func() {
			if prune {
				done <- r.nd.S.RemoveFailedNodePrune(m.name)
			} else {
				done <- r.nd.S.RemoveFailedNode(m.name)
			}
		}()
		for i := 0; i < 20; i++ {
			synctest.Wait()
			w.poll()
			select {
			case <-done:
				i = 100
			default:
				time.Sleep(500 * time.Millisecond)
			}
		}
		// the issuer had applied the member's latest join (it lists the member as failed with that
		// status time) before the force-leave was issued, so the force-leave is newer than that join
		// and the member is left at the issuer (gone with prune) as soon as the call has been processed
		if issuerBefore.status == serf.StatusFailed {
			w.stats["forceleaves_of_failed_member_checked_at_issuer"]++
			after, listed := w.info(r)[m.name]
			switch {
			case prune && listed:
				w.violate("force-leave-not-newer-than-applied-join", fmt.Sprintf("%s listed %s as failed with status time %d; after its own RemoveFailedNodePrune it still lists it as %v (status time %d)", r.name, m.name, issuerBefore.ltime, after.status, after.ltime))
			case !prune && (!listed || after.status != serf.StatusLeft):
				w.violate("force-leave-not-newer-than-applied-join", fmt.Sprintf("%s listed %s as failed with status time %d; after its own RemoveFailedNode it lists it as %v (status time %d, listed=%v) instead of left", r.name, m.name, issuerBefore.ltime, after.status, after.ltime, listed))
			}
		}
		m.forceLeft = true
		if prune {
			m.pruneIssued = true
		}
		w.stats["forceleaves"]++
	}
}

func c02Scenario(t *testing.T, rng *rand.Rand) (viols [][2]string, stats map[string]int, desc string, sig string) {
	w := &c02World{t: t, rng: rng, inPool: map[string]bool{}, trk: map[*cluster.Node]*qTracker{}, stats: map[string]int{}}
	synctest.Test(t, func(t *testing.T) {
		w.net = simnet.New(1)
		k := 2 + rng.Intn(3)
		for i := 0; i < k; i++ {
			w.reps = append(w.reps, &c02Rep{name: fmt.Sprintf("r%d", i), ip: fmt.Sprintf("10.0.0.%d", i+1)})
		}
		defer func() {
			for _, r := range w.reps {
				if r.nd != nil {
					r.nd.Close()
				}
			}
			time.Sleep(time.Minute)
		}()
		// setup: r0 alone, everyone else joins through a random earlier replica
		if !w.start(w.reps[0]) {
			return
		}
		w.reps[0].mlAlive[w.reps[0].name] = true
		for i := 1; i < k; i++ {
			if !w.start(w.reps[i]) {
				return
			}
			w.joinVia(w.reps[i], w.reps[rng.Intn(i)])
			w.randomTraffic(rng.Intn(6))
		}
		// adversarial phase
		ops := 1 + rng.Intn(5)
		for i := 0; i < ops && len(w.viols) == 0; i++ {
			w.lifecycle()
			w.randomTraffic(rng.Intn(14))
		}
		// quiet: failure detectors settle (all pending notifications, then make every running
		// replica aware of every running member), then two all-pairs state-sync rounds
		run := w.running()
		for _, r := range run {
			for _, x := range run {
				if x != r && !r.mlAlive[x.name] {
					w.schedule(r, x.name, "up")
				}
			}
		}
		for _, r := range run {
			var keys []string
			for x := range r.pend {
				keys = append(keys, x)
			}
			sort.Strings(keys)
			for _, x := range keys {
				for len(r.pend[x]) > 0 {
					w.notify(r, x)
				}
			}
		}
		w.recomputeAccepted()
		for round := 0; round < 2; round++ {
			for i := range run {
				for j := i + 1; j < len(run); j++ {
					w.pushPull(run[i], run[j], false)
				}
			}
		}
		time.Sleep(5 * time.Second)
		synctest.Wait()
		// final oracle
		var final []string
		for _, x := range w.reps {
			views := map[string]serf.MemberStatus{}
			for _, r := range run {
				if s, ok := r.nd.MemberMap()[x.name]; ok {
					views[r.name] = s
				}
			}
			distinct := map[serf.MemberStatus]bool{}
			for _, s := range views {
				distinct[s] = true
			}
			final = append(final, fmt.Sprintf("%s=%v", x.name, views))
			// A member restarted without its old clock may broadcast a join whose LTime is not
			// newer than a leave/force-leave of its previous incarnation (its contact had not
			// seen that leave). Replicas that receive the old leave late cannot tell it from a
			// newer one: listed known finding, computed from the ground truth of the scenario.
			staleJoin := x.restarted && x.joinLTime <= x.prevLeaveMax
			// the same collision with a FABRICATED leave: a replica that synced while the member was
			// down was handed leave = (status time of the old leave) + 1, and the restarted member's
			// join is newer than the real leave but not newer than that fabricated time
			fabCollision := x.restarted && !staleJoin && x.joinLTime <= x.fabBeforeJoin
			if staleJoin {
				w.stats["restart_join_not_newer_than_old_leave"]++
			}
			classify := func(def string) string {
				switch {
				case staleJoin:
					return "restart-join-not-newer-than-earlier-leave"
				case fabCollision:
					return "restart-join-not-newer-than-fabricated-leave"
				case x.leftListAfterJoin:
					return "synthetic-leave-overrides-newer-join"
				case x.restarted && x.prunedBefore:
					return "late-prune-leave-erases-restarted-member"
				}
				return def
			}
			if len(distinct) > 1 {
				if os.Getenv("VERIF_C02_DEBUG") != "" {
					for _, r := range run {
						fmt.Printf("DEBUG %s sees %v ; ledger %v\n", r.name, w.info(r), func() string {
							var sb strings.Builder
							for k, v := range r.ledger {
								fmt.Fprintf(&sb, "%s:%+v ", k, *v)
							}
							return sb.String()
						}())
					}
				}
				key := classify("disagreement")
				w.violate(key, fmt.Sprintf("after the closing state sync the running replicas disagree about %s: %v (left=%v crashed=%v forceLeft=%v leaveAccepted=%v)", x.name, views, x.everLeft, x.crashed, x.forceLeft, x.leaveAccepted))
				continue
			}
			var want serf.MemberStatus
			switch {
			case x.running:
				want = serf.StatusAlive
			case staleJoin:
				continue // agreement only
			case x.restarted:
				// a restarted member that is down again: what the survivors can know depends on
				// which of its intents reached them (knowledge union) - agreement only
				continue
			case x.crashed && !x.forceLeft:
				want = serf.StatusFailed
			case x.everLeft && x.leaveAccepted:
				want = serf.StatusLeft
			case x.everLeft && !x.leaveAccepted && !x.forceLeft:
				want = serf.StatusFailed // nobody who is still running ever learnt of the leave
			default:
				continue // force-leave cases: agreement only (DESIGN C02 oracle strength)
			}
			w.stats["specific_status_checks"] += len(views)
			for rn, s := range views {
				if s != want {
					key := classify("wrong-status")
					w.violate(key, fmt.Sprintf("%s lists %s as %v, expected %v (running=%v left=%v crashed=%v leaveAccepted=%v)", rn, x.name, s, want, x.running, x.everLeft, x.crashed, x.leaveAccepted))
				}
			}
			// a running replica that learned of a running member must list it
			if x.running {
				for _, r := range run {
					if _, ok := views[r.name]; !ok {
						w.violate(classify("missing-member"), fmt.Sprintf("%s does not list running member %s", r.name, x.name))
					}
				}
			}
		}
		sig = strings.Join(final, ";")
	})
	return w.viols, w.stats, w.log.String(), sig
}

// c02PairRace: a leave intent and a NEWER join intent about the same listed member are
// handled at the same instant on two goroutines (memberlist hands packets and streams to
// NotifyMsg concurrently). Whichever is applied first, Lamport order decides: the member ends
// alive with the join's time. Real time, spin barrier, per-round sub-microsecond skew.
func c02PairRace(rng *rand.Rand, seq, rounds int) (viols []string, stats map[string]int) {
	stats = map[string]int{}
	nw := simnet.New(int64(seq))
	nd, err := cluster.Start(nw, cluster.Opts{Name: fmt.Sprintf("pair-%d", seq), IP: "10.2.0.1", Profile: "passive", Mutate: func(c *serf.Config) {
		c.BroadcastTimeout, c.LeavePropagateDelay = 0, 0
		c.ReapInterval = 1000 * time.Hour
	}})
	if err != nil {
		return []string{"setup: " + err.Error()}, stats
	}
	defer nd.Close()
	const members = 4
	for i := 0; i < members; i++ {
		nd.NotifyJoin(cluster.FakeNode(fmt.Sprintf("x%d", i), fmt.Sprintf("10.2.1.%d", i+1), 7946, nil))
	}
	lt := uint64(10)
	for round := 0; round < rounds && len(viols) == 0; round++ {
		lt += 10
		var start atomic.Bool
		g := newBGroup()
		for i := 0; i < members; i++ {
			name := fmt.Sprintf("x%d", i)
			leave := wire.Encode(wire.Leave, &wire.MsgLeave{LTime: lt + 2, Node: name})
			join := wire.Encode(wire.Join, &wire.MsgJoin{LTime: lt + 4, Node: name})
			spinL, spinJ := rng.Intn(60), rng.Intn(60)
			g.Go(func() {
				for !start.Load() {
				}
				for k := 0; k < spinL; k++ {
					_ = start.Load()
				}
				nd.NotifyMsg(leave)
			})
			g.Go(func() {
				for !start.Load() {
				}
				for k := 0; k < spinJ; k++ {
					_ = start.Load()
				}
				nd.NotifyMsg(join)
			})
		}
		start.Store(true)
		g.Wait()
		st, err := nd.State()
		if err != nil {
			return []string{"setup: state: " + err.Error()}, stats
		}
		mm := nd.MemberMap()
		for i := 0; i < members; i++ {
			name := fmt.Sprintf("x%d", i)
			stats["pair_races"]++
			if mm[name] != serf.StatusAlive || st.StatusLTimes[name] != lt+4 {
				viols = append(viols, fmt.Sprintf("round %d: leave(%s,%d) and the newer join(%s,%d) handled at the same instant: the member is %v with status time %d, Lamport order demands alive with status time %d",
					round, name, lt+2, name, lt+4, mm[name], st.StatusLTimes[name], lt+4))
			}
		}
	}
	return
}

func TestC02(t *testing.T) {
	r := evid.Start(t, "C02", "exploration")
	if os.Getenv("VERIF_PHASE") != "race" {
		r.Cases("pairrace", r.N(8, 200), 2, func(ci int, rng *rand.Rand) {
			viols, stats := c02PairRace(rng, ci, 1500)
			r.Eval(1)
			for k, v := range stats {
				r.Count(k, v)
			}
			for _, v := range viols {
				r.Violation("pair-race-not-by-lamport-time", ci, v, v)
			}
		})
	}
	n := r.N(12000, 400000)
	if os.Getenv("VERIF_PHASE") == "race" {
		n = r.N(150, 4000)
	}
	r.Cases("sched", n, 0, func(ci int, rng *rand.Rand) {
		viols, stats, desc, sig := c02Scenario(t, rng)
		r.Eval(1)
		for k, v := range stats {
			r.Count(k, v)
		}
		if stats["stale_intents"] > 0 && stats["fresh_intents"] > 0 && stats["leaves"]+stats["crashes"]+stats["forceleaves"] > 0 {
			r.Distinct(sig + "|" + fmt.Sprint(stats["deliveries"], stats["drops"], stats["pushpulls"]))
		}
		for _, v := range viols {
			r.Violation(v[0], ci, v[1]+" ; schedule: "+desc, desc)
		}
		if ci == 3 {
			r.Sample(map[string]any{"schedule": desc, "final": sig, "stats": stats})
		}
	})
	floor := 200
	if os.Getenv("VERIF_PHASE") == "race" {
		floor = 5
	}
	r.Finish("scenarios of 2-4 real replicas: setup joins, then 1-5 lifecycle operations (Leave, crash, restart through a random peer, RemoveFailedNode[Prune] of a down member) interleaved with random delivery of the real queued intents (20% loss, duplicates, any order, any running target), memberlist up/down notifications in per-member causal order and pairwise push/pull, closed by flushing notifications and two all-pairs push/pull rounds; non-trivial = scenario with a departure and both stale and fresh intent deliveries; distinct by final status vector + delivery counts",
		floor, "the harness plays memberlist's failure detector (per-replica alive view, causal per-member notifications)", "a (re)started node's join intent is re-created with the bytes Serf.Join would broadcast and processed by the real code", "force-leave is only issued against members that are down; for force-leave histories only agreement is demanded")
}
