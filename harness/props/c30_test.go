package props

import (
	"fmt"
	"io"
	"math/rand"
	"os"
	"path/filepath"
	"sort"
	"strings"
	"testing"
	"testing/synctest"
	"time"

	"github.com/hashicorp/serf/cmd/serf/command/agent"
	"github.com/hashicorp/serf/serf"

	"verif/harness/cluster"
	"verif/harness/evid"
	"verif/harness/wire"
)

// C30: tag edits through the RPC `tags` command apply as (old − deleted) ∪ set,
// and the tags file always reloads (through the agent's own loader) to the tags
// in effect – also after an edit the node rejected (encoding > 512 bytes).
//
// Real agent (tags file configured) + AgentIPC on a pipe in a bubble; raw client.
// After every edit: effective tags (Serf().LocalMember().Tags) vs reference
// arithmetic when the edit was accepted; tags file reloaded with a fresh
// agent.Create (the real loader) vs effective tags; sometimes a full restart
// (agent.Create + Start on the same file) whose tags must equal the effective
// tags before the restart.

type c30Edit struct {
	Set map[string]string
	Del []string
}

func (e c30Edit) String() string {
	keys := make([]string, 0, len(e.Set))
	for k := range e.Set {
		keys = append(keys, k)
	}
	sort.Strings(keys)
	var sb strings.Builder
	sb.WriteString("set{")
	for i, k := range keys {
		if i > 0 {
			sb.WriteString(",")
		}
		v := e.Set[k]
		if len(v) > 24 {
			fmt.Fprintf(&sb, "%q:<%d bytes %q…>", k, len(v), v[:8])
		} else {
			fmt.Fprintf(&sb, "%q:%q", k, v)
		}
	}
	fmt.Fprintf(&sb, "} del%q", e.Del)
	return sb.String()
}

var c30Keys = []string{"role", "dc", "a", "b", "k1", "k2", "ver", "clé", "日本", "x=y", "sp ace", "q\"uote", "", "<html>&", "nl\nkey", "zone", "rack"}
var c30Atoms = []string{"", "web", "db", "1", "eu-west-1", "ü", "日本語", "a=b", "x y", "\"q\"", "<&>", "line\nbreak", " ", "\x00", "\\", "été", "🙂"}

func c30Value(rng *rand.Rand) string {
	switch x := rng.Intn(20); {
	case x < 12:
		return c30Atoms[rng.Intn(len(c30Atoms))]
	case x < 16: // medium
		return strings.Repeat(c30Atoms[1+rng.Intn(len(c30Atoms)-1)], 3+rng.Intn(8))
	case x < 19: // large: pushes towards the 512-byte limit
		return strings.Repeat(string(rune('a'+rng.Intn(26))), 60+rng.Intn(200))
	default: // over the limit on its own
		return strings.Repeat("é", 260+rng.Intn(100))
	}
}

func c30GenEdit(rng *rand.Rand, cur map[string]string) c30Edit {
	e := c30Edit{Set: map[string]string{}}
	curKeys := make([]string, 0, len(cur))
	for k := range cur {
		curKeys = append(curKeys, k)
	}
	sort.Strings(curKeys)
	pick := func() string {
		if len(curKeys) > 0 && rng.Intn(2) == 0 {
			return curKeys[rng.Intn(len(curKeys))]
		}
		return c30Keys[rng.Intn(len(c30Keys))]
	}
	for i, n := 0, rng.Intn(4); i < n; i++ {
		e.Set[pick()] = c30Value(rng)
	}
	for i, n := 0, rng.Intn(4); i < n; i++ {
		e.Del = append(e.Del, pick())
	}
	if rng.Intn(6) == 0 { // forced overlap between set and delete
		k := pick()
		e.Set[k] = c30Value(rng)
		e.Del = append(e.Del, k)
	}
	if rng.Intn(40) == 0 {
		e.Set = nil // nil map on the wire
	}
	return e
}

func c30Apply(old map[string]string, e c30Edit) map[string]string {
	out := map[string]string{}
	del := map[string]bool{}
	for _, k := range e.Del {
		del[k] = true
	}
	for k, v := range old {
		if !del[k] {
			out[k] = v
		}
	}
	for k, v := range e.Set {
		out[k] = v
	}
	return out
}

func c30ShowTags(m map[string]string) string {
	keys := make([]string, 0, len(m))
	for k := range m {
		keys = append(keys, k)
	}
	sort.Strings(keys)
	var sb strings.Builder
	sb.WriteString("{")
	for i, k := range keys {
		if i > 0 {
			sb.WriteString(", ")
		}
		v := m[k]
		if len(v) > 24 {
			fmt.Fprintf(&sb, "%q:<%d bytes>", k, len(v))
		} else {
			fmt.Fprintf(&sb, "%q:%q", k, v)
		}
	}
	sb.WriteString("}")
	return sb.String()
}

// c30Reload loads the tags file through the agent's own loader (agent.Create).
func c30Reload(path string) (map[string]string, error) {
	ac := agent.DefaultConfig()
	ac.TagsFile = path
	sc := serf.DefaultConfig()
	sc.Tags = nil
	if _, err := agent.Create(ac, sc, io.Discard); err != nil {
		return nil, err
	}
	return sc.Tags, nil
}

type c30Result struct {
	key, msg         string
	hist             []string
	accepted         int
	rejected         int
	overlaps         int
	predMismatch     int
	withPeer         bool
	timeoutEdits     int
	reloads          int
	restarts         int
	err              string
	maxEnc           int
	rejectedThenEdit bool
}

func c30Case(t *testing.T, rng *rand.Rand, dir string) (res c30Result) {
	path := filepath.Join(dir, "tags.json")
	// initial file: absent, or written by an earlier run of the agent (same JSON shape)
	initial := map[string]string{}
	if rng.Intn(3) != 0 {
		for i, n := 0, 1+rng.Intn(3); i < n; i++ {
			initial[c30Keys[rng.Intn(len(c30Keys))]] = c30Atoms[rng.Intn(len(c30Atoms))]
		}
		b := "{"
		first := true
		for k, v := range initial {
			if !first {
				b += ","
			}
			first = false
			b += fmt.Sprintf("%s:%s", c30JSON(k), c30JSON(v))
		}
		b += "}"
		if err := os.WriteFile(path, []byte(b), 0o600); err != nil {
			res.err = err.Error()
			return
		}
		res.hist = append(res.hist, "initial file "+c30ShowTags(initial))
	} else {
		res.hist = append(res.hist, "no initial file")
	}
	nEdits := 4 + rng.Intn(12)
	fail := func(key, format string, a ...any) {
		if res.key == "" {
			res.key, res.msg = key, fmt.Sprintf(format, a...)
		}
	}
	synctest.Test(t, func(t *testing.T) {
		var env *ipcEnv
		var cl *ipcClient
		var pup *cluster.Puppet
		defer func() {
			if pup != nil {
				pup.Close()
			}
			if env != nil {
				env.Close()
			}
			time.Sleep(time.Minute)
		}()
		// a third of the cases run with an alive peer and no gossip rounds: serf then applies an
		// edit but reports "timeout waiting for update broadcast" - the edit is in effect although
		// the reply carries an error
		withPeer := rng.Intn(3) == 0
		seq := uint64(10)
		start := func() bool {
			var err error
			env, err = ipcStart(ipcOpts{Seed: rng.Int63(), Name: "c30", TagsFile: path, Profile: "passive"})
			if err != nil {
				env = nil
				res.err = err.Error()
				return false
			}
			synctest.Wait()
			if withPeer {
				if pup != nil {
					pup.Close()
				}
				pup, err = cluster.StartPuppet(env.Net, cluster.PuppetOpts{Name: "peer", IP: "10.30.0.9", Profile: "passive"})
				if err == nil {
					_, err = env.Agent.Join([]string{pup.Addr}, false)
				}
				if err != nil {
					res.err = "peer: " + err.Error()
					return false
				}
				synctest.Wait()
				res.withPeer = true
			}
			cl, err = env.Dial()
			if err == nil {
				err = ipcHandshake(cl, "", synctest.Wait)
			}
			if err != nil {
				res.err = err.Error()
				return false
			}
			return true
		}
		if !start() {
			return
		}
		eff := env.Agent.Serf().LocalMember().Tags
		if !ipcTagsEqual(eff, initial) {
			fail("initial-load", "agent started with tags %s, tags file held %s", c30ShowTags(eff), c30ShowTags(initial))
			return
		}
		lastRejected := false
		for i := 0; i < nEdits && res.key == ""; i++ {
			old := ipcCopyTags(env.Agent.Serf().LocalMember().Tags)
			e := c30GenEdit(rng, old)
			want := c30Apply(old, e)
			for _, d := range e.Del {
				if _, ok := e.Set[d]; ok {
					res.overlaps++
				}
			}
			encLen := len(wire.EncodeTags(want))
			if encLen > res.maxEnc {
				res.maxEnc = encLen
			}
			if lastRejected {
				res.rejectedThenEdit = true
			}
			seq++
			cl.Send("tags", seq, &ipcTagsReq{Tags: e.Set, DeleteTags: e.Del})
			synctest.Wait()
			if withPeer {
				time.Sleep(6 * time.Second) // past the broadcast timeout
				synctest.Wait()
			}
			vals := cl.Take()
			if len(vals) != 1 || !vals[0].Hdr || vals[0].Seq != seq {
				res.err = fmt.Sprintf("edit %d: unexpected reply %v", i, vals)
				return
			}
			rejected := vals[0].Err != ""
			res.hist = append(res.hist, fmt.Sprintf("edit %s -> encoded %d bytes, reply error %q", e, encLen, vals[0].Err))
			if rejected && encLen <= 512 && withPeer && strings.Contains(vals[0].Err, "timeout") {
				res.timeoutEdits++
			} else if rejected != (encLen > 512) {
				res.predMismatch++
			}
			eff = ipcCopyTags(env.Agent.Serf().LocalMember().Tags)
			if rejected {
				res.rejected++
			} else {
				res.accepted++
				if !ipcTagsEqual(eff, want) {
					fail("edit-arithmetic", "edit %d accepted but effective tags are %s, want (old − deleted) ∪ set = %s (old %s)",
						i, c30ShowTags(eff), c30ShowTags(want), c30ShowTags(old))
					return
				}
			}
			lastRejected = rejected
			key := "file-differs-from-effective"
			if rejected {
				key = "rejected-edit-persisted"
			}
			// the loader's view of the file
			loaded, err := c30Reload(path)
			res.reloads++
			if err != nil {
				fail(key, "after edit %d the agent loader fails on the tags file: %v", i, err)
				return
			}
			if !ipcTagsEqual(loaded, eff) {
				fail(key, "after edit %d (reply error %q) the tags file reloads to %s but the tags in effect are %s",
					i, vals[0].Err, c30ShowTags(loaded), c30ShowTags(eff))
				return
			}
			// sometimes a real restart on the same file
			if rng.Intn(5) == 0 || i == nEdits-1 {
				env.Close()
				env = nil
				res.restarts++
				res.hist = append(res.hist, "restart")
				if !start() {
					if res.err != "" && strings.Contains(res.err, "agent.") {
						fail(key, "restart after edit %d fails: %s (tags in effect before the restart: %s)", i, res.err, c30ShowTags(eff))
						res.err = ""
					}
					return
				}
				now := env.Agent.Serf().LocalMember().Tags
				if !ipcTagsEqual(now, eff) {
					fail(key, "restart after edit %d came up with tags %s, tags in effect before were %s", i, c30ShowTags(now), c30ShowTags(eff))
					return
				}
			}
		}
	})
	return
}

func c30JSON(s string) string {
	// minimal JSON string encoder for the initial file (valid UTF-8 input)
	var sb strings.Builder
	sb.WriteByte('"')
	for _, r := range s {
		switch {
		case r == '"' || r == '\\':
			sb.WriteByte('\\')
			sb.WriteRune(r)
		case r < 0x20:
			fmt.Fprintf(&sb, "\\u%04x", r)
		default:
			sb.WriteRune(r)
		}
	}
	sb.WriteByte('"')
	return sb.String()
}

func TestC30(t *testing.T) {
	r := evid.Start(t, "C30", "exploration")
	n := r.N(3000, 40000)
	base, err := os.MkdirTemp("", "verif-c30-")
	if err != nil {
		r.Inconclusive("cannot create scratch dir: " + err.Error())
		r.Finish("n/a", 1)
		return
	}
	defer os.RemoveAll(base)
	r.Cases("edits", n, 0, func(ci int, rng *rand.Rand) {
		dir := filepath.Join(base, fmt.Sprint("case", ci))
		if err := os.MkdirAll(dir, 0o700); err != nil {
			r.Inconclusive(err.Error())
			return
		}
		defer os.RemoveAll(dir)
		res := c30Case(t, rng, dir)
		r.Eval(1)
		r.Count("edits_accepted", res.accepted)
		r.Count("edits_rejected_by_node", res.rejected)
		r.Count("set_delete_overlaps", res.overlaps)
		r.Count("file_reloads_through_agent_loader", res.reloads)
		r.Count("agent_restarts_on_same_file", res.restarts)
		r.Count("size_prediction_mismatches", res.predMismatch)
		r.Count("edits_in_effect_although_the_reply_reported_a_broadcast_timeout", res.timeoutEdits)
		if res.withPeer {
			r.Count("cases_with_alive_peer_and_no_gossip", 1)
		}
		r.Max("max_encoded_tags_bytes", int64(res.maxEnc))
		if res.rejectedThenEdit {
			r.Count("cases_with_edit_after_rejected_edit", 1)
		}
		if res.err != "" {
			r.Inconclusive(fmt.Sprintf("case %d: harness error: %s", ci, res.err))
			return
		}
		if res.rejected > 0 || res.overlaps > 0 {
			r.Distinct(strings.Join(res.hist, "\n"))
		}
		if res.key != "" {
			r.Violation(res.key, ci, res.msg+" ; history: "+strings.Join(res.hist, " | "), res.hist)
		}
		if ci < 2 {
			r.Sample(map[string]any{"case": ci, "history": res.hist})
		}
	})
	if r.Counter("size_prediction_mismatches") > 0 {
		r.Inconclusive("the node's accept/reject decisions differ from the 512-byte prediction; the workload may not reach the limit as intended")
	}
	r.Finish("random edit histories (4-15 edits) on an agent with a tags file: keys/values from a valid-UTF-8 alphabet (empty, unicode, quotes, newlines, NUL, JSON-escaped characters), set/delete overlaps, values sized to cross the 512-byte metadata limit; after each edit effective tags vs reference arithmetic, tags file reloaded through agent.Create vs effective tags, restarts on the same file; non-trivial = history with a rejected edit or a set/delete overlap; distinct by full history",
		r.N(500, 8000),
		"keys and values are valid UTF-8 (the property's quantifier)",
		"tags in effect = Serf().LocalMember().Tags of the running agent")
}
