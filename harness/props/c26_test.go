package props

import (
	"fmt"
	"math/rand"
	"regexp"
	"sort"
	"strings"
	"testing"
	"testing/synctest"

	"verif/harness/cluster"
	"verif/harness/evid"
	"verif/harness/wire"
)

// C26: `members-filtered` returns exactly the members whose name, status and
// each requested tag value (missing tag = "") match the pattern over the WHOLE
// string; an invalid pattern yields an error and no list.
//
// Members with arbitrary names/tags/statuses are injected through the serf
// event delegate of a real agent (NotifyJoin / NotifyLeave / leave intents);
// the request goes through the real AgentIPC; the reference evaluates
// \A(?:p)\z on the members the agent's serf reports at quiescence.

var c26Names = []string{"a", "b", "ab", "ba", "a-long-name", "xxb", "web-1", "web-2", "web.1", "web", "db-1", "db",
	"a|b", "node(1)", "n[0]", "A", "aa", "aaa", "foo$", "^foo", "foo", "foobar", "barfoo", "Ünï-1", "日本", "a\nb", "b\na", "x y", "a.b", "a+b", "*", "alive", "left", "1", "12", "abc", "cab", "WEB-1"}

var c26TagKeys = []string{"role", "dc", "ver", "rôle", "a|b"}
var c26TagVals = []string{"", "web", "db", "webserver", "my-web", "lb", "eu", "eu-west", "west", "1", "1.2", "10", "a|b", "a", "b", "ab", "x\ny", "WEB", "é"}

type c26Member struct {
	Name   string
	Status string
	Tags   map[string]string
}

func (m c26Member) String() string {
	return fmt.Sprintf("%q[%s %s]", m.Name, m.Status, c26Tags(m.Tags))
}

func c26Tags(m map[string]string) string {
	keys := make([]string, 0, len(m))
	for k := range m {
		keys = append(keys, k)
	}
	sort.Strings(keys)
	parts := make([]string, len(keys))
	for i, k := range keys {
		parts[i] = fmt.Sprintf("%q=%q", k, m[k])
	}
	return "{" + strings.Join(parts, ",") + "}"
}

// c26Pattern generates a pattern; lits are strings that occur in the member set.
func c26Pattern(rng *rand.Rand, lits []string, depth int) string {
	lit := func() string {
		s := lits[rng.Intn(len(lits))]
		if s == "" {
			return ""
		}
		r := []rune(s)
		switch rng.Intn(6) {
		case 0: // prefix
			return regexp.QuoteMeta(string(r[:1+rng.Intn(len(r))]))
		case 1: // suffix
			return regexp.QuoteMeta(string(r[rng.Intn(len(r)):]))
		case 2: // unquoted (metacharacters become operators)
			return s
		default:
			return regexp.QuoteMeta(s)
		}
	}
	if depth <= 0 {
		return lit()
	}
	sub := func() string { return c26Pattern(rng, lits, depth-1) }
	switch rng.Intn(22) {
	case 0, 1, 2, 3, 4:
		return sub() + "|" + sub() // ungrouped alternation
	case 5:
		return "|" + sub() // empty branch
	case 6:
		return sub() + "|"
	case 7:
		return "(" + sub() + "|" + sub() + ")"
	case 8:
		return "(?:" + sub() + ")" + []string{"*", "+", "?", "{2}", "{0,1}"}[rng.Intn(5)]
	case 9:
		return sub() + []string{".*", ".+", ".", "\\d+", "\\w*", "[a-z]+", "[^-]*", "\\S*", "[0-9.]*", "(?s:.*)"}[rng.Intn(10)]
	case 10:
		return []string{".*", "[a-z]*", "\\w+-", ".", "(?i)", "(?m)", "(?s)", "(?U)"}[rng.Intn(8)] + sub()
	case 11:
		return "^" + sub()
	case 12:
		return sub() + "$"
	case 13:
		return "^" + sub() + "$"
	case 14:
		return sub() + "$|^" + sub()
	case 15:
		return "(?m)" + sub() + "$|^" + sub()
	case 16:
		return "(?i)" + strings.ToUpper(sub())
	case 17: // invalid patterns
		return []string{"(", ")", "[", "a)(b", "a)|(b", ")|(", "*", "+", "?", "*a", "a**", "\\", "(?P<x", "a{2,1}", "[z-a]", "(?z)", "\\8", "{2}", "a|*", "a)", "(a", "x{1001}", "(?i"}[rng.Intn(23)]
	case 18: // invalid built from a sub pattern
		return []string{"(", ")", "[", "*"}[rng.Intn(4)] + sub()
	case 19:
		return sub() + []string{"(", ")", "[", "\\", ")|(" + "b"}[rng.Intn(5)]
	default:
		return lit()
	}
}

func c26Class(pats []string) string {
	cls := "other"
	for _, p := range pats {
		if p == "" {
			continue
		}
		if _, err := regexp.Compile(p); err != nil {
			return "invalid-pattern"
		}
		if strings.Contains(p, "|") {
			cls = "alternation"
		} else if cls == "other" && strings.Contains(p, "(?") {
			cls = "inline-flags"
		}
	}
	return cls
}

// c26Full compiles the whole-string reference for p.
func c26Full(p string) (*regexp.Regexp, error) {
	if _, err := regexp.Compile(p); err != nil {
		return nil, err
	}
	return regexp.Compile(`\A(?:` + p + `)\z`)
}

type c26Req struct {
	Name, Status string
	Tags         map[string]string
}

func (q c26Req) String() string {
	return fmt.Sprintf("name=%q status=%q tags=%s", q.Name, q.Status, c26Tags(q.Tags))
}

func (q c26Req) patterns() []string {
	out := []string{q.Name, q.Status}
	keys := make([]string, 0, len(q.Tags))
	for k := range q.Tags {
		keys = append(keys, k)
	}
	sort.Strings(keys)
	for _, k := range keys {
		out = append(out, q.Tags[k])
	}
	return out
}

type c26Result struct {
	err      string
	requests int
	viols    []c26Viol
	sigs     []string
	counts   map[string]int
	sample   any
}
type c26Viol struct {
	key, msg string
	witness  any
}

func c26Case(t *testing.T, rng *rand.Rand) (res c26Result) {
	res.counts = map[string]int{}
	nMembers := 4 + rng.Intn(9)
	nReq := 20
	synctest.Test(t, func(t *testing.T) {
		env, err := ipcStart(ipcOpts{Seed: rng.Int63(), Name: "agent-0", Profile: "passive", Tags: map[string]string{"role": "agent", "dc": "eu"}})
		if err != nil {
			res.err = err.Error()
			return
		}
		defer env.Close()
		synctest.Wait()
		// --- inject members through serf's own event delegate
		perm := rng.Perm(len(c26Names))
		lt := uint64(10)
		injected := map[string]c26Member{}
		for i := 0; i < nMembers; i++ {
			name := c26Names[perm[i]]
			tags := map[string]string{}
			for j, n := 0, rng.Intn(4); j < n; j++ {
				tags[c26TagKeys[rng.Intn(len(c26TagKeys))]] = c26TagVals[rng.Intn(len(c26TagVals))]
			}
			node := cluster.FakeNode(name, fmt.Sprintf("10.1.0.%d", i+1), 7946, wire.EncodeTags(tags))
			env.ML.Events.NotifyJoin(node)
			status := "alive"
			leaveIntent := func() {
				lt++
				env.ML.Delegate.NotifyMsg(wire.Encode(wire.Leave, &wire.MsgLeave{LTime: lt, Node: name}))
			}
			switch rng.Intn(7) {
			case 0: // failed
				env.ML.Events.NotifyLeave(node)
				status = "failed"
			case 1: // leaving
				leaveIntent()
				status = "leaving"
			case 2: // left (graceful)
				leaveIntent()
				env.ML.Events.NotifyLeave(node)
				status = "left"
			case 3: // left (failed, then forced leave)
				env.ML.Events.NotifyLeave(node)
				leaveIntent()
				status = "left"
			}
			injected[name] = c26Member{Name: name, Status: status, Tags: tags}
		}
		synctest.Wait()
		// --- ground truth: what the agent's serf reports
		var members []c26Member
		lits := []string{"alive", "left", "failed", "leaving"}
		for _, m := range env.Agent.Serf().Members() {
			cm := c26Member{Name: m.Name, Status: m.Status.String(), Tags: m.Tags}
			members = append(members, cm)
			lits = append(lits, m.Name)
			for _, v := range m.Tags {
				lits = append(lits, v)
			}
			if inj, ok := injected[m.Name]; ok {
				if inj.Status != cm.Status || !ipcTagsEqual(inj.Tags, cm.Tags) {
					res.err = fmt.Sprintf("injected member %s is reported by serf as %s", inj, cm)
					return
				}
				res.counts["members_"+cm.Status]++
			}
		}
		if len(members) != nMembers+1 {
			res.err = fmt.Sprintf("serf reports %d members, injected %d + local", len(members), nMembers)
			return
		}
		sort.Slice(members, func(i, j int) bool { return members[i].Name < members[j].Name })
		memberSig := fmt.Sprint(members)
		res.sample = map[string]any{"members": memberSig}

		var cl *ipcClient
		seq := uint64(100)
		for ri := 0; ri < nReq; ri++ {
			if cl == nil || cl.EOF() {
				cl, err = env.Dial()
				if err == nil {
					err = ipcHandshake(cl, "", synctest.Wait)
				}
				if err != nil {
					res.err = err.Error()
					return
				}
			}
			// --- request
			var q c26Req
			pat := func() string { return c26Pattern(rng, lits, rng.Intn(3)) }
			switch rng.Intn(4) {
			case 0:
				q.Name = pat()
			case 1:
				q.Status = pat()
			case 2:
				q.Tags = map[string]string{c26TagKeys[rng.Intn(len(c26TagKeys))]: pat()}
			default:
				if rng.Intn(2) == 0 {
					q.Name = pat()
				}
				if rng.Intn(3) == 0 {
					q.Status = pat()
				}
				if rng.Intn(2) == 0 {
					q.Tags = map[string]string{}
					for j, n := 0, 1+rng.Intn(2); j < n; j++ {
						q.Tags[c26TagKeys[rng.Intn(len(c26TagKeys))]] = pat()
					}
				}
			}
			// --- reference
			invalid := ""
			var nameRe, statusRe *regexp.Regexp
			tagRe := map[string]*regexp.Regexp{}
			if q.Name != "" {
				if nameRe, err = c26Full(q.Name); err != nil {
					invalid = q.Name
				}
			}
			if q.Status != "" {
				if statusRe, err = c26Full(q.Status); err != nil {
					invalid = q.Status
				}
			}
			for k, p := range q.Tags {
				// an empty tag pattern still means "value must be empty"
				re, err := c26Full(p)
				if err != nil {
					invalid = p
				}
				tagRe[k] = re
			}
			var want []string
			if invalid == "" {
			NEXT:
				for _, m := range members {
					for k, re := range tagRe {
						if !re.MatchString(m.Tags[k]) {
							continue NEXT
						}
					}
					if statusRe != nil && !statusRe.MatchString(m.Status) {
						continue
					}
					if nameRe != nil && !nameRe.MatchString(m.Name) {
						continue
					}
					want = append(want, m.Name)
				}
			}
			// --- real
			seq++
			cl.Send("members-filtered", seq, &ipcMembersFilteredReq{Tags: q.Tags, Status: q.Status, Name: q.Name})
			synctest.Wait()
			vals := cl.Take()
			frames, ferr := ipcFrames(vals)
			res.requests++
			cls := c26Class(q.patterns())
			addViol := func(kind, format string, a ...any) {
				res.viols = append(res.viols, c26Viol{key: kind + "/" + cls,
					msg:     fmt.Sprintf(format, a...) + fmt.Sprintf(" ; request %s ; members %s", q, memberSig),
					witness: map[string]any{"request": q, "members": members}})
			}
			var got []string
			gotList := false
			if ferr != nil {
				addViol("malformed-reply", "reply is not header[+body]: %v", ferr)
				continue
			}
			for _, f := range frames {
				if f.Seq != seq {
					addViol("malformed-reply", "reply carries seq %d, request had %d", f.Seq, seq)
				}
				if f.Body != nil {
					if lst, ok := f.Body["Members"]; ok {
						gotList = true
						arr, _ := lst.([]any)
						for _, x := range arr {
							mm, _ := x.(map[string]any)
							name := ipcStr(mm["Name"])
							got = append(got, name)
							// returned record must describe the member faithfully
							for _, m := range members {
								if m.Name == name && ipcStr(mm["Status"]) != m.Status {
									addViol("record-mismatch", "member %q returned with status %q, serf reports %q", name, ipcStr(mm["Status"]), m.Status)
								}
							}
						}
					}
				}
			}
			nontrivial := cls != "other" || strings.ContainsAny(strings.Join(q.patterns(), ""), `.*+?[]()\^$`)
			if invalid != "" {
				res.counts["requests_invalid_pattern"]++
				if gotList {
					addViol("invalid-pattern-listed", "invalid pattern %q was answered with a member list %q", invalid, got)
				} else {
					switch {
					case len(frames) == 0 && cl.EOF():
						res.counts["invalid_answered_by_close"]++
					case len(frames) == 1 && frames[0].Err != "":
						res.counts["invalid_answered_by_error"]++
					default:
						addViol("invalid-pattern-no-error", "invalid pattern %q: neither an error reply nor a closed connection (frames %v, eof %v)", invalid, frames, cl.EOF())
					}
				}
				res.sigs = append(res.sigs, q.String()+"@"+memberSig)
				continue
			}
			if len(frames) != 1 || frames[0].Err != "" || !gotList {
				addViol("valid-pattern-no-list", "valid pattern not answered with a list: frames %v eof %v", frames, cl.EOF())
				continue
			}
			sort.Strings(got)
			sort.Strings(want)
			if len(want) > 0 && len(want) < len(members) {
				res.counts["requests_selecting_proper_subset"]++
			}
			res.counts["members_returned"] += len(got)
			if nontrivial {
				res.sigs = append(res.sigs, q.String()+"@"+memberSig)
			}
			if fmt.Sprintf("%q", got) != fmt.Sprintf("%q", want) {
				addViol("wrong-set", "returned %q, whole-string reference selects %q", got, want)
			}
			if ri == 0 {
				res.sample = map[string]any{"members": memberSig, "request": q.String(), "returned": fmt.Sprintf("%q", got)}
			}
		}
	})
	return
}

func TestC26(t *testing.T) {
	r := evid.Start(t, "C26", "exploration")
	n := r.N(1500, 20000) // × 20 requests
	r.Cases("filters", n, 0, func(ci int, rng *rand.Rand) {
		res := c26Case(t, rng)
		r.Eval(res.requests)
		r.Count("member_sets", 1)
		for k, v := range res.counts {
			r.Count(k, v)
		}
		if res.err != "" {
			r.Inconclusive(fmt.Sprintf("case %d: harness error: %s", ci, res.err))
			return
		}
		for _, s := range res.sigs {
			r.Distinct(s)
		}
		for _, v := range res.viols {
			r.Violation(v.key, ci, v.msg, v.witness)
		}
		if ci < 3 && res.sample != nil {
			r.Sample(res.sample)
		}
	})
	r.Finish("per case: 4-12 members with names/tag values from an alphabet with regex metacharacters, unicode, newlines, prefixes/suffixes of each other; statuses alive/leaving/left/failed produced through serf's event delegate and leave intents; 20 members-filtered requests with name/status/tag patterns from a grammar (ungrouped alternation, empty branches, groups, classes, quantifiers, anchors, inline flags, invalid patterns) built from substrings of the member set; reference = \\A(?:p)\\z over serf's own member list; non-trivial = request whose patterns contain an operator or are invalid; distinct by (request, member set)",
		r.N(8000, 100000),
		"Go regexp (RE2) syntax defines pattern validity and matching; a pattern is invalid iff regexp.Compile(p) fails on p alone",
		"an invalid pattern may be answered by closing the connection (DESIGN §9)")
}
