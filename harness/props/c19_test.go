package props

import (
	"fmt"
	"math"
	"math/rand"
	"sort"
	"strings"
	"sync"
	"sync/atomic"
	"testing"
	"time"

	"github.com/anishathalye/porcupine"
	"github.com/hashicorp/serf/serf"

	"verif/harness/evid"
)

// C19: Lamport clocks never go backwards; witnessing moves past the value.
//
// (a) sequential contract on boundary + random 64-bit values,
// (b) stress: per-goroutine monotonic reads, globally unique increments,
// (c) small concurrent histories checked for linearizability with porcupine
//     against a sequential counter model.

type lcOp struct {
	Kind int // 0 Time, 1 Increment, 2 Witness
	Arg  uint64
}

func c19SetClock(c *serf.LamportClock, v uint64) {
	if v == 0 {
		return
	}
	c.Witness(serf.LamportTime(v - 1))
}

func TestC19(t *testing.T) {
	r := evid.Start(t, "C19", "exploration")
	max := uint64(math.MaxUint64)

	// ---- (a) sequential contract
	bounds := []uint64{0, 1, 2, 3, 255, 256, 1<<31 - 1, 1 << 31, 1<<32 - 1, 1 << 32, 1<<63 - 1, 1 << 63, 1<<63 + 1, max - 2, max - 1, max}
	nSeq := r.N(300000, 9000000)
	rng := r.Rand("seq")
	pick := func() uint64 {
		switch rng.Intn(4) {
		case 0:
			return bounds[rng.Intn(len(bounds))]
		case 1:
			return rng.Uint64()
		case 2:
			return uint64(rng.Intn(64))
		default:
			b := bounds[rng.Intn(len(bounds))]
			return b + uint64(rng.Intn(5)) - 2
		}
	}
	classes := map[string]int{}
	seqCase := func(i int, cur, v uint64) {
		var c serf.LamportClock
		c19SetClock(&c, cur)
		before := uint64(c.Time())
		if before != cur {
			// setting to cur itself needs Witness(cur-1); only cur==0 special
			r.Violation("setup", i, fmt.Sprintf("Witness(%d) on fresh clock gave %d", cur-1, before), nil)
			return
		}
		c.Witness(serf.LamportTime(v))
		after := uint64(c.Time())
		cls := "v<cur"
		if v >= cur {
			cls = "v>=cur"
		}
		if v == max {
			cls = "v=max"
		}
		classes[cls]++
		if after < before || after <= v {
			key := "witness"
			if v == max {
				key = "witness-max-uint64"
			}
			r.Violation(key, i, fmt.Sprintf("clock=%d Witness(%d) -> Time()=%d (must be > %d and >= %d)", before, v, after, v, before),
				map[string]any{"clock": fmt.Sprint(before), "witness": fmt.Sprint(v), "after": fmt.Sprint(after)})
		}
		// increment
		var c2 serf.LamportClock
		c19SetClock(&c2, cur)
		a := uint64(c2.Increment())
		b := uint64(c2.Time())
		if a != cur+1 || b != a || (cur == max) {
			key := "increment"
			if cur == max {
				key = "increment-at-max-uint64"
			}
			if cur == max || a <= cur {
				r.Violation(key, i, fmt.Sprintf("clock=%d Increment() -> %d, Time()=%d", cur, a, b),
					map[string]any{"clock": fmt.Sprint(cur), "inc": fmt.Sprint(a)})
			}
		}
	}
	idx := 0
	for _, cur := range bounds {
		for _, v := range bounds {
			seqCase(idx, cur, v)
			r.Distinct(fmt.Sprintf("seq-b-%d-%d", cur, v))
			idx++
		}
	}
	for i := 0; i < nSeq; i++ {
		cur, v := pick(), pick()
		seqCase(idx, cur, v)
		idx++
	}
	r.Eval(idx)
	for k, v := range classes {
		r.Count("seq_class_"+k, v)
	}
	r.Sample(map[string]any{"kind": "sequential", "clock": "9223372036854775808", "witness": "18446744073709551614"})

	// ---- (b) stress
	rounds := r.N(300, 9000)
	var contention atomic.Int64
	r.Cases("stress", rounds, 4, func(ci int, rng *rand.Rand) {
		var c serf.LamportClock
		G := 2 + rng.Intn(15)
		ops := 200 + rng.Intn(400)
		type res struct {
			incs []uint64
			bad  string
			sig  uint64
		}
		out := make([]res, G)
		var wg sync.WaitGroup
		start := make(chan struct{})
		for g := 0; g < G; g++ {
			wg.Add(1)
			seed := rng.Int63()
			go func(g int) {
				defer wg.Done()
				lr := rand.New(rand.NewSource(seed))
				<-start
				var last uint64
				var sig uint64
				for k := 0; k < ops; k++ {
					switch lr.Intn(3) {
					case 0:
						v := uint64(c.Time())
						if v < last {
							out[g].bad = fmt.Sprintf("goroutine %d: Time()=%d after having seen %d", g, v, last)
							return
						}
						last = v
						sig = sig*31 + v
					case 1:
						v := uint64(c.Increment())
						if v <= last {
							out[g].bad = fmt.Sprintf("goroutine %d: Increment()=%d after having seen %d", g, v, last)
							return
						}
						last = v
						out[g].incs = append(out[g].incs, v)
						sig = sig*31 + v
					default:
						base := last
						w := base + uint64(lr.Intn(6))
						if lr.Intn(4) == 0 && base > 3 {
							w = base - uint64(lr.Intn(3))
						}
						c.Witness(serf.LamportTime(w))
						v := uint64(c.Time())
						if v <= w || v < last {
							out[g].bad = fmt.Sprintf("goroutine %d: after Witness(%d) Time()=%d (had seen %d)", g, w, v, last)
							return
						}
						if v > w+1 {
							contention.Add(1)
						}
						last = v
						sig = sig*31 + v
					}
				}
				out[g].sig = sig
			}(g)
		}
		close(start)
		wg.Wait()
		seen := map[uint64]int{}
		var sig uint64
		for g := range out {
			if out[g].bad != "" {
				r.Violation("stress-monotonic", ci, out[g].bad, nil)
			}
			for _, v := range out[g].incs {
				if prev, ok := seen[v]; ok {
					r.Violation("stress-increment-unique", ci, fmt.Sprintf("Increment returned %d to goroutines %d and %d", v, prev, g), nil)
				}
				seen[v] = g
			}
			sig ^= out[g].sig * uint64(g+1)
		}
		r.Eval(1)
		r.Count("stress_ops", G*ops)
		r.Distinct(fmt.Sprintf("stress-%x", sig))
	})
	r.Count("witness_lost_cas_or_overtaken", int(contention.Load()))

	// ---- (c) porcupine histories
	type in struct {
		Kind int
		Arg  uint64
	}
	model := porcupine.Model{
		Init: func() any { return uint64(0) },
		Step: func(st, input, output any) (bool, any) {
			s := st.(uint64)
			i := input.(in)
			o := output.(uint64)
			switch i.Kind {
			case 0:
				return o == s, s
			case 1:
				return o == s+1, s + 1
			default:
				if i.Arg >= s {
					return true, i.Arg + 1
				}
				return true, s
			}
		},
		DescribeOperation: func(input, output any) string {
			i := input.(in)
			return fmt.Sprintf("%s(%d)->%d", []string{"Time", "Increment", "Witness"}[i.Kind], i.Arg, output.(uint64))
		},
	}
	nHist := r.N(2000, 60000)
	var clk atomic.Int64
	r.Cases("porcupine", nHist, 8, func(ci int, rng *rand.Rand) {
		var c serf.LamportClock
		C := 2 + rng.Intn(3)
		K := 2 + rng.Intn(5)
		var mu sync.Mutex
		var ops []porcupine.Operation
		var wg sync.WaitGroup
		start := make(chan struct{})
		for cl := 0; cl < C; cl++ {
			wg.Add(1)
			seed := rng.Int63()
			go func(cl int) {
				defer wg.Done()
				lr := rand.New(rand.NewSource(seed))
				<-start
				for k := 0; k < K; k++ {
					i := in{Kind: lr.Intn(3)}
					if i.Kind == 2 {
						i.Arg = uint64(lr.Intn(8))
					}
					t0 := clk.Add(1)
					var o uint64
					switch i.Kind {
					case 0:
						o = uint64(c.Time())
					case 1:
						o = uint64(c.Increment())
					default:
						c.Witness(serf.LamportTime(i.Arg))
					}
					t1 := clk.Add(1)
					mu.Lock()
					ops = append(ops, porcupine.Operation{ClientId: cl, Input: i, Call: t0, Output: o, Return: t1})
					mu.Unlock()
				}
			}(cl)
		}
		close(start)
		wg.Wait()
		res := porcupine.CheckOperationsTimeout(model, ops, 20*time.Second)
		r.Eval(1)
		sort.Slice(ops, func(a, b int) bool { return ops[a].Call < ops[b].Call })
		var sb strings.Builder
		for _, o := range ops {
			sb.WriteString(model.DescribeOperation(o.Input, o.Output))
			sb.WriteByte(';')
		}
		switch res {
		case porcupine.Illegal:
			r.Violation("linearizability", ci, "history not linearizable: "+sb.String(), sb.String())
		case porcupine.Unknown:
			r.Count("porcupine_timeouts", 1)
		default:
			r.Count("porcupine_ok", 1)
		}
		// concurrency actually observed: some op's call precedes another client's return
		overl := 0
		for a := range ops {
			for b := range ops {
				if ops[a].ClientId != ops[b].ClientId && ops[a].Call < ops[b].Return && ops[b].Call < ops[a].Return {
					overl++
				}
			}
		}
		if overl > 0 {
			r.Count("porcupine_histories_with_overlap", 1)
			r.Distinct("h-" + sb.String())
		}
		if ci < 2 {
			r.Sample(map[string]any{"kind": "history", "ops": sb.String(), "verdict": string(res)})
		}
	})
	if r.Counter("porcupine_timeouts") > int64(nHist/10) {
		r.Inconclusive("too many porcupine timeouts")
	}
	r.Finish("sequential: 16x16 boundary grid + random 64-bit (clock,value) pairs; stress: random op mixes on one clock from 2-16 goroutines (distinct = distinct result-sequence hashes); porcupine: <=4 clients x <=6 ops histories with observed overlap (distinct = distinct histories)",
		50, "values in concurrent parts stay far below 2^64-1", "porcupine v1.3.0 checker is trusted")
}
