package props

import (
	"fmt"
	"testing"
	"testing/synctest"
	"time"

	"github.com/hashicorp/serf/serf"

	"verif/harness/cluster"
	"verif/harness/simnet"
	"verif/harness/wire"
)

// TestSmoke checks the shared machinery itself: 3 real nodes + 1 puppet on simnet in a bubble.
func TestSmoke(t *testing.T) {
	synctest.Test(t, func(t *testing.T) {
		net := simnet.New(1)
		var nodes []*cluster.Node
		for i := 1; i <= 3; i++ {
			nd, err := cluster.Start(net, cluster.Opts{Name: fmt.Sprintf("n%d", i), IP: fmt.Sprintf("10.0.0.%d", i)})
			if err != nil {
				t.Error(err)
				return
			}
			defer nd.Close()
			nodes = append(nodes, nd)
		}
		p, err := cluster.StartPuppet(net, cluster.PuppetOpts{Name: "p1", IP: "10.0.0.9"})
		if err != nil {
			t.Error(err)
			return
		}
		defer p.Close()
		for _, nd := range nodes[1:] {
			if _, err := nd.S.Join([]string{nodes[0].Addr}, false); err != nil {
				t.Error("join", err)
			}
		}
		if _, err := p.ML.Join([]string{nodes[0].Addr}); err != nil {
			t.Error("puppet join", err)
		}
		time.Sleep(10 * time.Second)
		synctest.Wait()
		for _, nd := range nodes {
			if n := len(nd.S.Members()); n != 4 {
				t.Errorf("%s sees %d members", nd.Name, n)
			}
		}
		nodes[0].S.UserEvent("hello", []byte("x"), false)
		qr, err := nodes[0].S.Query("q", nil, &serf.QueryParam{RequestAck: true})
		if err != nil {
			t.Error(err)
		}
		time.Sleep(5 * time.Second)
		synctest.Wait()
		acks := 0
		for range qr.AckCh() {
			acks++
		}
		got := 0
		for _, m := range p.Received() {
			if m[0] == wire.UserEvent || m[0] == wire.Query {
				got++
			}
		}
		t.Logf("acks=%d puppet got %d event/query msgs, packets=%d streams=%d", acks, got, net.Packets.Load(), net.Streams.Load())
		if acks != 3 || got < 2 {
			t.Errorf("acks=%d got=%d", acks, got)
		}
		st, err := nodes[1].State()
		if err != nil || len(st.StatusLTimes) != 4 {
			t.Errorf("state %v %v", st, err)
		}
		// partition n3, expect failed, heal, expect alive
		net.Partition([]string{nodes[2].Addr}, []string{nodes[0].Addr, nodes[1].Addr, p.Addr})
		time.Sleep(30 * time.Second)
		if s := nodes[0].MemberMap()["n3"]; s != serf.StatusFailed {
			t.Errorf("n3 is %v at n1 after partition", s)
		}
		net.Heal()
		time.Sleep(3 * time.Minute)
		if s := nodes[0].MemberMap()["n3"]; s != serf.StatusAlive {
			t.Errorf("n3 is %v at n1 after heal", s)
		}
	})
}
