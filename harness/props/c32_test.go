package props

import (
	"bytes"
	"fmt"
	"math/rand"
	"net"
	"regexp"
	"sort"
	"strconv"
	"strings"
	"sync"
	"testing"
	"testing/synctest"
	"time"
	"unicode/utf8"

	"github.com/hashicorp/serf/serf"

	"verif/harness/cluster"
	"verif/harness/evid"
	"verif/harness/simnet"
	"verif/harness/wire"
)

// C32: tags and gossip messages survive encoding unchanged.
//
// Three real nodes A, B, C (serf protocol 2..5 each, passive memberlist, simnet)
// know each other through their own memberlist event delegates. Everything a
// node *produces* is produced by the real code (NodeMeta, UserEvent, Query,
// Respond, RemoveFailedNode, Join, LocalState, relay forwarding) and everything
// is *consumed* by the real code of another node (NotifyJoin/Update, NotifyMsg,
// MergeRemoteState, packet handler); the oracle compares what the consumer
// reports at its public surface (Members, EventCh, ResponseCh/AckCh, LocalState)
// with what the producer was given. The harness's own codec (package wire) is a
// third opinion on every buffer taken from a queue, and simnet's packet tap
// shows the bytes a relaying node forwards.

var c32Atoms = []string{"", "a", "role", "web", "日本語", "with space", " lead", "trail ", "new\nline", "tab\tx", "nul\x00mid",
	"quote\"'`", "back\\slash", "a=b,c", "^re(g|e)x$.*", " sep", "🙂", "\xff\xfe\x80", "\xffmagic", "é", "%s%d", "{}[]", "\r\n"}

func c32Str(rng *rand.Rand) string {
	switch rng.Intn(10) {
	case 0:
		n := 30 + rng.Intn(300)
		return strings.Repeat(c32Atoms[1+rng.Intn(len(c32Atoms)-1)], n)[:n]
	case 1:
		b := make([]byte, 1+rng.Intn(12))
		rng.Read(b)
		return string(b)
	case 2:
		return c32Atoms[rng.Intn(len(c32Atoms))] + c32Atoms[rng.Intn(len(c32Atoms))]
	default:
		return c32Atoms[rng.Intn(len(c32Atoms))]
	}
}

func c32Tags(rng *rand.Rand) map[string]string {
	switch rng.Intn(8) {
	case 0:
		return nil
	case 1:
		return map[string]string{}
	}
	t := map[string]string{}
	n := 1 + rng.Intn(5)
	for i := 0; i < n; i++ {
		k := c32Str(rng)
		if rng.Intn(3) == 0 {
			k = "role"
		}
		t[k] = c32Str(rng)
	}
	return t
}

func c32Bytes(rng *rand.Rand, max int) []byte {
	switch rng.Intn(6) {
	case 0:
		return nil
	case 1:
		return []byte{}
	case 2:
		return []byte(c32Str(rng))
	}
	b := make([]byte, rng.Intn(max+1))
	rng.Read(b)
	return b
}

// c32Len is the encoded size the statement's limit applies to, computed without serf:
// the role alone below protocol 3, else magic byte + msgpack map (old raw format).
func c32Len(tags map[string]string, proto uint8) int {
	if proto < 3 {
		return len(tags["role"])
	}
	return len(wire.EncodeTags(tags))
}

// c32HandLen recomputes the msgpack size by hand (self-check of the prediction).
func c32HandLen(tags map[string]string) int {
	n := 1 // magic
	switch {
	case len(tags) < 16:
		n++
	default:
		n += 3
	}
	sl := func(s string) int {
		switch {
		case len(s) < 32:
			return 1 + len(s)
		case len(s) < 65536:
			return 3 + len(s)
		}
		return 5 + len(s)
	}
	for k, v := range tags {
		n += sl(k) + sl(v)
	}
	return n
}

func c32Expect(tags map[string]string, proto uint8) map[string]string {
	out := map[string]string{}
	if proto < 3 {
		out["role"] = tags["role"]
		return out
	}
	for k, v := range tags {
		out[k] = v
	}
	return out
}

func c32SameTags(a, b map[string]string) bool {
	if len(a) != len(b) {
		return false
	}
	for k, v := range a {
		if w, ok := b[k]; !ok || w != v {
			return false
		}
	}
	return true
}

// c32UserMsg extracts the serf message from a raw memberlist packet (compression off, no encryption).
func c32UserMsg(b []byte) []byte {
	if len(b) > 5 && b[0] == 12 { // hasCrcMsg + 4 byte crc
		b = b[5:]
	}
	if len(b) > 1 && b[0] == 8 { // userMsg
		return b[1:]
	}
	return nil
}

type c32Pkt struct {
	From, To, Verdict string
	Msg               []byte
}

type c32Viol struct {
	key, msg string
	w        any
}

func TestC32(t *testing.T) {
	r := evid.Start(t, "C32", "exploration")
	n := r.N(1500, 60000)
	protos := []uint8{2, 3, 4, 4, 5, 5, 5, 5}
	names := []string{"node", "n.1", "日本", "with space", "tab\tname", "a/b", "new\nline", "x=y", "\xfe\xff", "UPPER", "'q'", "nul\x00n"}

	r.Cases("case", n, 0, func(ci int, rng *rand.Rand) {
		var viols []c32Viol
		add := func(key, msg string, w any) { viols = append(viols, c32Viol{key, msg, w}) }
		counts := map[string]int{}
		var setupErr string
		var sig []string
		nontrivial := false
		var sample map[string]any

		synctest.Test(t, func(t *testing.T) {
			nw := simnet.New(int64(ci))
			var pmu sync.Mutex
			var pkts []c32Pkt
			nw.OnPacket = func(pi simnet.PacketInfo) {
				m := c32UserMsg(pi.Buf)
				if len(m) == 0 {
					return
				}
				pmu.Lock()
				pkts = append(pkts, c32Pkt{pi.From, pi.To, pi.Verdict, append([]byte(nil), m...)})
				pmu.Unlock()
			}
			type node struct {
				nd    *cluster.Node
				name  string
				ip    string
				proto uint8
				tags  map[string]string
				tr    *qTracker
				limit int // raised query response limit (0 = default 1024)
			}
			perm := rng.Perm(len(names))
			var nodes []*node
			defer func() {
				for _, x := range nodes {
					x.nd.Close()
				}
				time.Sleep(3 * time.Minute) // let timed waits of stopped instances run out (virtual)
			}()
			// a quarter of the clusters live on IPv6 addresses (relay envelopes carry the querier's address)
			v6 := rng.Intn(4) == 0
			if v6 {
				counts["clusters_on_ipv6_addresses"]++
			}
			for i := 0; i < 3; i++ {
				x := &node{name: fmt.Sprintf("%s-%d-%d", names[perm[i]], ci, i), ip: fmt.Sprintf("10.32.%d.%d", ci%250, 1+i), proto: protos[rng.Intn(len(protos))], tr: newQTracker()}
				if v6 {
					x.ip = net.ParseIP(fmt.Sprintf("fd00:32::%x:%x", ci%4096, 1+i)).String() // canonical text form
				}
				if i == 0 && rng.Intn(3) != 0 {
					x.proto = uint8(4 + rng.Intn(2)) // queries need protocol 4 at the issuer
				}
				if i == 1 && rng.Intn(3) == 0 {
					// the responder is configured for larger responses than the nodes that relay them
					x.limit = []int{2048, 4096, 9000}[rng.Intn(3)]
				}
				for attempt := 0; ; attempt++ {
					x.tags = c32Tags(rng)
					want := c32Len(x.tags, x.proto)
					if x.proto >= 3 && want != c32HandLen(x.tags) {
						setupErr = fmt.Sprintf("size prediction disagrees with itself: %d vs %d for %q", want, c32HandLen(x.tags), x.tags)
						return
					}
					proto := x.proto
					limit := x.limit
					nd, err := cluster.Start(nw, cluster.Opts{Name: x.name, IP: x.ip, Profile: "passive", Tags: x.tags, Mutate: func(c *serf.Config) {
						if limit > 0 {
							c.QueryResponseSizeLimit = limit
						}
						c.ProtocolVersion = proto
						c.MemberlistConfig.EnableCompression = false
						c.MsgpackUseNewTimeFormat = rng.Intn(2) == 0
					}})
					counts["tag_sets_offered_at_create"]++
					fits := want <= 512
					if err != nil && !strings.Contains(err.Error(), "Encoded length of tags exceeds") {
						setupErr = "create: " + err.Error()
						return
					}
					if (err == nil) != fits {
						add("tags-acceptance/create", fmt.Sprintf("Create with tags of encoded size %d (protocol %d): err=%v, the limit is 512", want, x.proto, err), map[string]any{"tags": x.tags})
					}
					if err == nil {
						x.nd = nd
						nodes = append(nodes, x)
						break
					}
					counts["tag_sets_rejected_at_create"]++
					if attempt > 20 {
						setupErr = "no acceptable tag set"
						return
					}
				}
			}
			A, B, C := nodes[0], nodes[1], nodes[2]
			sig = append(sig, fmt.Sprintf("p%d%d%d", A.proto, B.proto, C.proto))
			addr := func(x *node) string { return x.nd.Addr }

			// ---- tags through NodeMeta -> NotifyJoin / NotifyUpdate
			checkTags := func(viewer, owner *node, tags map[string]string, how string) {
				var got map[string]string
				found := false
				for _, m := range viewer.nd.S.Members() {
					if m.Name == owner.name {
						got, found = m.Tags, true
					}
				}
				counts["tag_views_compared"]++
				want := c32Expect(tags, owner.proto)
				if found && c32SameTags(got, want) {
					return
				}
				key := "tags-mismatch/protocol>=3"
				if owner.proto < 3 {
					key = "tags-mismatch/old-protocol"
					if role := tags["role"]; len(role) > 0 && role[0] == 0xff {
						key = "old-protocol-role-starts-with-0xff"
					}
				}
				add(key, fmt.Sprintf("%s: node (protocol %d) sees tags %q for a member (protocol %d) that encoded %q; expected %q", how, viewer.proto, got, owner.proto, tags, want),
					map[string]any{"tags": tags, "seen": got, "member_found": found})
			}
			meta := func(x *node) []byte { return x.nd.ML.Delegate.NodeMeta(512) }
			for _, v := range nodes {
				for _, o := range nodes {
					if v != o {
						v.nd.NotifyJoin(cluster.FakeNode(o.name, o.ip, 7946, meta(o)))
					}
				}
			}
			synctest.Wait()
			for _, v := range nodes {
				for _, o := range nodes {
					if v != o {
						checkTags(v, o, o.tags, "join")
					}
				}
			}
			for e := rng.Intn(3); e > 0; e-- {
				o := nodes[rng.Intn(3)]
				nt := c32Tags(rng)
				want := c32Len(nt, o.proto)
				err := o.nd.S.SetTags(nt)
				counts["tag_sets_offered_at_update"]++
				if (err == nil) != (want <= 512) {
					add("tags-acceptance/update", fmt.Sprintf("SetTags with encoded size %d (protocol %d): err=%v, the limit is 512", want, o.proto, err), map[string]any{"tags": nt})
				}
				if err == nil {
					o.tags = nt
				} else {
					counts["tag_sets_rejected_at_update"]++
				}
				m := meta(o)
				if len(m) > 512 {
					add("metadata-over-limit", fmt.Sprintf("NodeMeta returned %d bytes", len(m)), nil)
				}
				how := "update"
				if rng.Intn(3) == 0 {
					// the new metadata does not arrive as an update: the member went down without leaving
					// and came back with it (memberlist reports a member that returns from the dead as a join)
					how = "rejoin after failure"
					counts["tag_sets_delivered_by_rejoin_after_failure"]++
					for _, v := range nodes {
						if v != o {
							v.nd.NotifyLeave(cluster.FakeNode(o.name, o.ip, 7946, nil))
						}
					}
					synctest.Wait()
					time.Sleep([]time.Duration{0, 5 * time.Second, 2 * time.Minute}[rng.Intn(3)])
					for _, v := range nodes {
						if v != o {
							v.nd.NotifyJoin(cluster.FakeNode(o.name, o.ip, 7946, m))
						}
					}
				} else {
					for _, v := range nodes {
						if v != o {
							v.nd.NotifyUpdate(cluster.FakeNode(o.name, o.ip, 7946, m))
						}
					}
				}
				synctest.Wait()
				for _, v := range nodes {
					if v != o {
						checkTags(v, o, o.tags, how)
					}
				}
			}
			if len(A.tags)+len(B.tags)+len(C.tags) > 0 {
				sig = append(sig, fmt.Sprintf("tags%q%q%q", A.tags, B.tags, C.tags))
			}

			// ---- user events: A -> (gossip) -> B, A -> (push/pull) -> C
			type uev struct {
				name     string
				payload  []byte
				coalesce bool
				ltime    uint64
			}
			userEvents := func(x *node) []serf.UserEvent {
				var out []serf.UserEvent
				for _, le := range x.nd.Events() {
					if u, ok := le.E.(serf.UserEvent); ok {
						out = append(out, u)
					}
				}
				return out
			}
			A.tr.Poll(A.nd)
			var sent []uev
			for k := 1 + rng.Intn(4); k > 0; k-- {
				u := uev{name: c32Str(rng), payload: c32Bytes(rng, 120), coalesce: rng.Intn(2) == 0}
				if len(u.name) > 150 {
					u.name = u.name[:150]
				}
				if err := A.nd.S.UserEvent(u.name, u.payload, u.coalesce); err != nil {
					counts["user_events_refused_for_size"]++
					continue
				}
				synctest.Wait()
				own := userEvents(A)
				if len(own) != len(sent)+1 {
					add("user-event/local", fmt.Sprintf("the issuing node logged %d user events after %d calls", len(own), len(sent)+1), nil)
					break
				}
				u.ltime = uint64(own[len(own)-1].LTime)
				fresh := A.tr.Poll(A.nd)
				var buf []byte
				for _, f := range fresh {
					if f[0] == wire.UserEvent {
						buf = f
					}
				}
				if buf == nil {
					add("user-event/not-queued", "UserEvent succeeded but no user event message was queued", nil)
					break
				}
				var m wire.MsgUserEvent
				if err := wire.Decode(buf[1:], &m); err != nil || m.Name != u.name || !bytes.Equal(m.Payload, u.payload) || m.CC != u.coalesce || m.LTime != u.ltime {
					add("user-event/wire", fmt.Sprintf("queued message decodes (harness codec) to %+v err=%v; sent name=%q payload=%x coalesce=%v ltime=%d", m, err, u.name, u.payload, u.coalesce, u.ltime), nil)
				}
				B.nd.NotifyMsg(append([]byte(nil), buf...))
				sent = append(sent, u)
			}
			synctest.Wait()
			gotB := userEvents(B)
			counts["user_events_sent"] += len(sent)
			if len(gotB) != len(sent) {
				add("user-event/count", fmt.Sprintf("receiver delivered %d user events, %d were sent", len(gotB), len(sent)), nil)
			} else {
				for i, u := range sent {
					g := gotB[i]
					counts["user_events_compared"]++
					if g.Name != u.name || !bytes.Equal(g.Payload, u.payload) || g.Coalesce != u.coalesce || uint64(g.LTime) != u.ltime {
						add("user-event/mismatch", fmt.Sprintf("sent name=%q payload=%x coalesce=%v ltime=%d, delivered name=%q payload=%x coalesce=%v ltime=%d", u.name, u.payload, u.coalesce, u.ltime, g.Name, g.Payload, g.Coalesce, g.LTime), nil)
					}
				}
			}
			if len(sent) > 0 {
				sig = append(sig, fmt.Sprintf("ev%d:%q", len(sent), sent[0].name))
			}

			// ---- leave intent: B force-leaves a failed member M, A applies the queued message
			{
				mName := c32Str(rng)
				if mName == "" || len(mName) > 120 {
					mName = "m"
				}
				mName = fmt.Sprintf("%s#%d", mName, ci)
				prune := rng.Intn(3) == 0
				fm := cluster.FakeNode(mName, "10.32.251.9", 7946, wire.EncodeTags(map[string]string{"role": "m"}))
				for _, v := range []*node{A, B} {
					v.nd.NotifyJoin(fm)
					v.nd.NotifyLeave(fm)
				}
				synctest.Wait()
				B.tr.Poll(B.nd)
				g := newBGroup()
				g.Go(func() {
					if prune {
						_ = B.nd.S.RemoveFailedNodePrune(mName)
					} else {
						_ = B.nd.S.RemoveFailedNode(mName)
					}
				})
				synctest.Wait()
				var buf []byte
				for _, f := range B.tr.Poll(B.nd) {
					if f[0] == wire.Leave {
						buf = append([]byte(nil), f...)
					}
				}
				B.nd.DrainBroadcasts()
				g.Wait()
				counts["leave_intents"]++
				if buf == nil {
					add("leave/not-queued", "RemoveFailedNode queued no leave message", nil)
				} else {
					var m wire.MsgLeave
					if err := wire.Decode(buf[1:], &m); err != nil || m.Node != mName || m.Prune != prune {
						add("leave/wire", fmt.Sprintf("queued leave decodes (harness codec) to %+v err=%v; member %q prune=%v", m, err, mName, prune), nil)
					}
					A.nd.NotifyMsg(buf)
					synctest.Wait()
					for _, v := range []*node{A, B} {
						st, ok := v.nd.MemberMap()[mName]
						if prune && ok {
							add("leave/effect", fmt.Sprintf("pruning leave of %q: member still listed (%v) at protocol-%d node", mName, st, v.proto), nil)
						}
						if !prune && (!ok || st != serf.StatusLeft) {
							add("leave/effect", fmt.Sprintf("leave of failed member %q: status %v listed=%v at protocol-%d node, expected left", mName, st, ok, v.proto), nil)
						}
					}
					counts["leave_intents_compared"]++
				}
			}

			// ---- query A -> B, reply B -> A (direct and/or relayed through A / C)
			if A.proto >= 4 {
				qname, qpay := c32Str(rng), c32Bytes(rng, 200)
				if len(qname) > 200 {
					qname = qname[:200]
				}
				params := &serf.QueryParam{RequestAck: rng.Intn(2) == 0, RelayFactor: uint8(rng.Intn(3)), Timeout: time.Duration(1+rng.Intn(20000)) * time.Millisecond}
				if rng.Intn(2) == 0 {
					params.FilterNodes = []string{B.name}
					for k := rng.Intn(3); k > 0; k-- {
						params.FilterNodes = append(params.FilterNodes, c32Str(rng))
					}
				}
				if rng.Intn(2) == 0 {
					for k, v := range B.tags {
						if utf8.ValidString(v) {
							params.FilterTags = map[string]string{k: "^" + regexp.QuoteMeta(v) + "$"}
							break
						}
					}
				}
				cutDirect := rng.Intn(2) == 0
				if cutDirect {
					nw.Cut(addr(B), addr(A))
				}
				A.tr.Poll(A.nd)
				pmu.Lock()
				pkts = nil
				pmu.Unlock()
				qr, err := A.nd.S.Query(qname, qpay, params)
				if err != nil {
					counts["queries_refused_for_size"]++
				} else {
					counts["queries_sent"]++
					type item struct {
						from    string
						payload []byte
					}
					var rmu sync.Mutex
					var acks []string
					var resps []item
					g := newBGroup()
					g.Go(func() {
						ackCh, respCh := qr.AckCh(), qr.ResponseCh()
						for ackCh != nil || respCh != nil {
							select {
							case a, ok := <-ackCh:
								if !ok {
									ackCh = nil
									continue
								}
								rmu.Lock()
								acks = append(acks, a)
								rmu.Unlock()
							case x, ok := <-respCh:
								if !ok {
									respCh = nil
									continue
								}
								rmu.Lock()
								resps = append(resps, item{x.From, x.Payload})
								rmu.Unlock()
							}
						}
					})
					var buf []byte
					for _, f := range A.tr.Poll(A.nd) {
						if f[0] == wire.Query {
							buf = append([]byte(nil), f...)
						}
					}
					var qm wire.MsgQuery
					if buf == nil {
						add("query/not-queued", "Query succeeded but no query message was queued", nil)
					} else if err := wire.Decode(buf[1:], &qm); err != nil || qm.Name != qname || !bytes.Equal(qm.Payload, qpay) || qm.Timeout != params.Timeout ||
						qm.RelayFactor != params.RelayFactor || (qm.Flags&wire.FlagAck != 0) != params.RequestAck || qm.SourceNode != A.name ||
						!net.IP(qm.Addr).Equal(net.ParseIP(A.ip)) || qm.Port != 7946 {
						add("query/wire", fmt.Sprintf("queued query decodes (harness codec) to %+v err=%v; issued name=%q payload=%x params=%+v by %q at %s", qm, err, qname, qpay, *params, A.name, addr(A)), nil)
					}
					if buf != nil {
						seen := len(B.nd.Events())
						at := time.Now()
						B.nd.NotifyMsg(buf)
						synctest.Wait()
						var q *serf.Query
						for _, le := range B.nd.Events()[seen:] {
							if sq, ok := le.E.(*serf.Query); ok {
								q = sq
							}
						}
						resp := c32Bytes(rng, 300)
						if B.limit > 0 && rng.Intn(4) != 0 {
							resp = make([]byte, 700+rng.Intn(B.limit-900))
							rng.Read(resp)
							counts["responses_larger_than_the_relays_own_limit_offered"]++
						}
						if q == nil {
							add("query/not-delivered", fmt.Sprintf("query %q with filters nodes=%q tags=%q selecting the receiver was not delivered there", qname, params.FilterNodes, params.FilterTags), nil)
						} else {
							counts["queries_compared"]++
							if q.Name != qname || !bytes.Equal(q.Payload, qpay) || uint64(q.LTime) != qm.LTime || q.SourceNode() != A.name || q.Deadline().Sub(at) != params.Timeout {
								add("query/mismatch", fmt.Sprintf("issued name=%q payload=%x ltime=%d source=%q timeout=%v; delivered name=%q payload=%x ltime=%d source=%q deadline-in=%v",
									qname, qpay, qm.LTime, A.name, params.Timeout, q.Name, q.Payload, q.LTime, q.SourceNode(), q.Deadline().Sub(at)), nil)
							}
							// the responder hands in a buffer of its own and re-uses it as soon as Respond has
							// returned (Respond is synchronous: what it sends, directly or through relays, was
							// encoded from the bytes it was given)
							mine := append([]byte(nil), resp...)
							if err := q.Respond(mine); err != nil {
								add("query/respond", "Respond failed: "+err.Error(), nil)
							}
							for k := range mine {
								mine[k] = '#'
							}
							synctest.Wait()
						}
						time.Sleep(params.Timeout + time.Second)
						g.Wait()
						// what travelled
						pmu.Lock()
						got := append([]c32Pkt(nil), pkts...)
						pmu.Unlock()
						directOK, relayedOK := false, 0
						for _, p := range got {
							if len(p.Msg) == 0 {
								continue
							}
							// packets of other senders are the querier's own ack (sent to itself and relayed) and
							// what relays forward; only their envelopes are looked at (forwarding check)
							switch p.Msg[0] {
							case wire.QueryResponse:
								if p.From != addr(B) {
									continue
								}
								var m wire.MsgQueryResponse
								err := wire.Decode(p.Msg[1:], &m)
								if err == nil && m.From != B.name {
									continue // B forwarding somebody else's reply as a relay
								}
								if err == nil && m.Flags&wire.FlagAck == 0 && p.Verdict == "ok" && p.To == addr(A) {
									directOK = true
								}
								if err != nil || m.LTime != qm.LTime || m.ID != qm.ID || (m.Flags&wire.FlagAck == 0 && !bytes.Equal(m.Payload, resp)) {
									add("response/wire", fmt.Sprintf("reply on the wire decodes (harness codec) to %+v err=%v; responder %q, query ltime=%d id=%d, payload %x", m, err, B.name, qm.LTime, qm.ID, resp), nil)
								}
							case wire.Relay:
								hdr, inner, err := wire.DecodeRelay(p.Msg)
								counts["relay_envelopes_seen"]++
								if err != nil || hdr.DestAddr.String() != addr(A) || hdr.DestName != A.name {
									add("relay/header", fmt.Sprintf("relay envelope addressed to %s/%q err=%v, the querier is %s/%q", hdr.DestAddr.String(), hdr.DestName, err, addr(A), A.name), nil)
									continue
								}
								var m wire.MsgQueryResponse
								if len(inner) == 0 || inner[0] != wire.QueryResponse || wire.Decode(inner[1:], &m) != nil || m.LTime != qm.LTime || m.ID != qm.ID ||
									(m.From != B.name && m.From != A.name) || (m.From == B.name && m.Flags&wire.FlagAck == 0 && !bytes.Equal(m.Payload, resp)) {
									add("relay/inner", fmt.Sprintf("relayed reply decodes to %+v, responder %q payload %x", m, B.name, resp), nil)
								}
								if p.Verdict != "ok" {
									continue
								}
								// the relaying node must forward exactly the inner bytes to the destination
								fwd := 0
								for _, f := range got {
									if f.From == p.To && f.To == hdr.DestAddr.String() && bytes.Equal(f.Msg, inner) {
										fwd++
									}
								}
								counts["relay_forwards_checked"]++
								if fwd == 0 {
									var seen []string
									for _, f := range got {
										if f.From == p.To {
											seen = append(seen, fmt.Sprintf("->%s %x", f.To, f.Msg))
										}
									}
									add("relay/forward", fmt.Sprintf("relay %s received an envelope for %s with %d inner bytes %x but forwarded %v", p.To, hdr.DestAddr.String(), len(inner), inner, seen), nil)
								} else if m.Flags&wire.FlagAck == 0 && m.From == B.name {
									relayedOK++
								}
							}
						}
						rmu.Lock()
						if q != nil {
							fromB := 0
							for _, it := range resps {
								if it.from == B.name && bytes.Equal(it.payload, resp) {
									fromB++
								} else {
									add("response/mismatch", fmt.Sprintf("querier received response from %q payload %x; the only response sent was from %q payload %x", it.from, it.payload, B.name, resp), nil)
								}
							}
							reach := directOK || relayedOK > 0
							counts["responses_expected"] += map[bool]int{true: 1}[reach]
							if reach && !directOK {
								counts["responses_arrived_through_relay_only"] += fromB
							}
							if reach && fromB != 1 {
								add("response/lost-or-duplicated", fmt.Sprintf("response sent (direct ok=%v, relayed copies ok=%d) but the querier received it %d times", directOK, relayedOK, fromB), nil)
							}
							if !reach && fromB != 0 {
								add("response/mismatch", "querier received a response no packet carried", nil)
							}
							for _, a := range acks {
								if a != B.name && a != A.name {
									add("ack/mismatch", fmt.Sprintf("ack from %q, only %q and the querier itself saw the query", a, B.name), nil)
								}
							}
							if !params.RequestAck && len(acks) > 0 {
								add("ack/mismatch", fmt.Sprintf("acks %q although none were requested", acks), nil)
							}
							counts["responses_received"] += fromB
							counts["acks_received"] += len(acks)
							nontrivial = nontrivial || fromB > 0
						}
						rmu.Unlock()
						sig = append(sig, fmt.Sprintf("q:%q:%x:%v:%d:%v", qname, qpay, params.RequestAck, params.RelayFactor, cutDirect))
					} else {
						time.Sleep(params.Timeout + time.Second)
						g.Wait()
					}
				}
				if cutDirect {
					nw.HealCuts()
				}
			}

			// ---- push/pull: A's state merged into C (C never saw the gossip)
			{
				stA, errA := A.nd.State()
				buf := A.nd.ML.Delegate.LocalState(false)
				before := len(userEvents(C))
				C.nd.ML.Delegate.MergeRemoteState(append([]byte(nil), buf...), false)
				synctest.Wait()
				gotC := userEvents(C)[before:]
				counts["pushpull_merges"]++
				if errA != nil {
					add("pushpull/wire", "harness codec cannot decode LocalState: "+errA.Error(), nil)
				} else {
					var mem []string
					for _, m := range A.nd.S.Members() {
						mem = append(mem, m.Name)
					}
					var st []string
					for k := range stA.StatusLTimes {
						st = append(st, k)
					}
					sort.Strings(mem)
					sort.Strings(st)
					if fmt.Sprintf("%q", mem) != fmt.Sprintf("%q", st) {
						add("pushpull/wire", fmt.Sprintf("LocalState lists members %q, Members() lists %q", st, mem), nil)
					}
					stats := C.nd.S.Stats()
					for _, c := range []struct {
						k string
						v uint64
					}{{"member_time", stA.LTime}, {"event_time", stA.EventLTime}, {"query_time", stA.QueryLTime}} {
						have, _ := strconv.ParseUint(stats[c.k], 10, 64)
						if have < c.v {
							add("pushpull/clock", fmt.Sprintf("after merging a state with %s=%d the receiver's clock is %d", c.k, c.v, have), nil)
						}
					}
				}
				// every event A still buffers arrives with its name, payload and time
				want := append([]uev(nil), sent...)
				sort.SliceStable(want, func(i, j int) bool { return want[i].ltime < want[j].ltime })
				if len(gotC) != len(want) {
					add("pushpull/events", fmt.Sprintf("state with %d buffered user events delivered %d at the receiver", len(want), len(gotC)), nil)
				} else {
					for i, u := range want {
						counts["pushpull_events_compared"]++
						if gotC[i].Name != u.name || !bytes.Equal(gotC[i].Payload, u.payload) || uint64(gotC[i].LTime) != u.ltime {
							add("pushpull/events", fmt.Sprintf("buffered event name=%q payload=%x ltime=%d arrived as name=%q payload=%x ltime=%d", u.name, u.payload, u.ltime, gotC[i].Name, gotC[i].Payload, gotC[i].LTime), nil)
						}
					}
				}
			}

			// ---- join intent: A joins B for real, its queued join message is applied by C
			{
				A.tr.Poll(A.nd)
				_, err := A.nd.S.Join([]string{addr(B)}, false)
				synctest.Wait()
				var buf []byte
				for _, f := range A.tr.Poll(A.nd) {
					if f[0] == wire.Join {
						buf = append([]byte(nil), f...)
					}
				}
				if err != nil || buf == nil {
					counts["join_intents_unavailable"]++
				} else {
					var m wire.MsgJoin
					if err := wire.Decode(buf[1:], &m); err != nil || m.Node != A.name {
						add("join/wire", fmt.Sprintf("queued join decodes (harness codec) to %+v err=%v; node %q", m, err, A.name), nil)
					}
					C.nd.NotifyMsg(buf)
					synctest.Wait()
					if st, err := C.nd.State(); err == nil {
						counts["join_intents_compared"]++
						if st.StatusLTimes[A.name] != m.LTime {
							add("join/effect", fmt.Sprintf("join intent of %q at time %d: receiver now records status time %d", A.name, m.LTime, st.StatusLTimes[A.name]), nil)
						}
					}
				}
			}
			nontrivial = nontrivial || (len(sent) > 0 && len(A.tags)+len(B.tags)+len(C.tags) > 0)
			sample = map[string]any{"protocols": []uint8{A.proto, B.proto, C.proto}, "names": []string{A.name, B.name, C.name}, "tags": []map[string]string{A.tags, B.tags, C.tags}, "user_events": len(sent)}
		})

		r.Eval(1)
		for k, v := range counts {
			r.Count(k, v)
		}
		if setupErr != "" {
			r.Count("setup_errors", 1)
			r.Sample(map[string]any{"setup_error": setupErr, "case": ci})
			return
		}
		if nontrivial {
			r.Distinct(strings.Join(sig, "|"))
		}
		if ci < 3 && sample != nil {
			r.Sample(sample)
		}
		for _, v := range viols {
			r.Violation(v.key, ci, v.msg, v.w)
		}
	})
	if r.Counter("setup_errors") > 0 {
		r.Inconclusive(fmt.Sprintf("%d cases could not be set up", r.Counter("setup_errors")))
	}
	for _, k := range []string{"tag_views_compared", "user_events_compared", "queries_compared", "responses_received", "relay_forwards_checked", "pushpull_events_compared", "leave_intents_compared", "join_intents_compared"} {
		if r.Counter(k) == 0 {
			r.Inconclusive("nothing observed for " + k)
		}
	}
	r.Finish("one case = three real nodes (serf protocol 2-5, random hostile names and tag maps incl. sets over the 512-byte limit) exchanging tags (join + 0-2 updates), 1-4 user events (gossip to one node, push/pull to the other), a force-leave intent, a query with node/tag filters, ack and relay factor 0-2 answered over the direct and/or the relayed path, a push/pull state and a join intent; non-trivial = a response reached the querier, or user events were exchanged between nodes with non-empty tags; distinct = different protocols/tags/events/query",
		r.N(400, 10000),
		"strings are arbitrary byte strings (invalid UTF-8 included) except tag-filter values (regular expressions must be valid UTF-8)",
		"conflict and key-management replies are internal query payloads and are covered by C36/C23, not here",
		"memberlist compression and encryption are off so that simnet's packet tap can read user messages",
	)
}
