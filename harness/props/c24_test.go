package props

import (
	"bytes"
	"crypto/sha256"
	"encoding/base64"
	"encoding/hex"
	"fmt"
	"math"
	"math/rand"
	"reflect"
	"sort"
	"strings"
	"testing"
	"testing/synctest"
	"time"

	"github.com/hashicorp/go-msgpack/v2/codec"
	"github.com/hashicorp/memberlist"

	"verif/harness/cluster"
	"verif/harness/evid"
	"verif/harness/wire"
)

// C24: RPC commands take effect only after handshake and (when a key is
// configured) authentication; every rejected command gets an error reply and
// nothing that carries data is sent before.
//
// Real Agent + AgentIPC on a pipe in a bubble, raw msgpack client. A
// value-level session reference (handshaken, authed, "next value is the body of
// a handshake/auth") predicts for every msgpack value the client writes what
// the agent may answer while the session is not yet authorised:
//   * every value the agent writes is a bare response header (no bodies);
//   * a header with an empty Error is only allowed as the answer to a handshake
//     with a supported version / an auth with the configured key;
//   * every request header that the gates must reject is answered by a header
//     with its Seq and a non-empty Error;
//   * the agent's observable state (events fanned out, tags, members, keyring,
//     lifecycle, registered event/log handlers, user messages seen by a peer)
//     is unchanged.
// Bodies of rejected commands are legitimately re-read as request headers by
// the agent; the reference does the same. After the session is authorised the
// monitor only proves that its detectors are live (the same commands do change
// the state it diffs).

type c24Val struct {
	raw  []byte
	m    map[string]any // nil when the value is not a map
	desc string
}

func c24Mk(desc string, v any) c24Val {
	raw := ipcEncode(v)
	h := &codec.MsgpackHandle{WriteExt: true}
	h.MapType = reflect.TypeOf(map[string]any(nil))
	var g any
	_ = codec.NewDecoder(bytes.NewReader(raw), h).Decode(&g)
	m, _ := g.(map[string]any)
	return c24Val{raw: raw, m: m, desc: desc}
}

func c24Int(x any) (int64, bool) {
	switch t := x.(type) {
	case int64:
		return t, true
	case uint64:
		return int64(t), true
	case int:
		return int64(t), true
	case int8:
		return int64(t), true
	case int16:
		return int64(t), true
	case int32:
		return int64(t), true
	case uint8:
		return int64(t), true
	case uint16:
		return int64(t), true
	case uint32:
		return int64(t), true
	}
	return 0, false
}

type c24Expect struct {
	seq     uint64
	mustErr bool   // reply must carry a non-empty Error
	grant   string // "", "handshake", "auth": an empty Error grants this
	why     string
}

// c24Ref is the session reference while the session is not authorised.
type c24Ref struct {
	K        string
	hs, au   bool
	mode     int // 0 header, 1 handshake body, 2 auth body
	pend     uint64
	ended    bool // the agent may have closed / the stream may be misparsed: no further obligations
	rejected int
	reread   int // values handled as a repeated previous command (bodies re-read as headers)
	lastCmd  string
	lastSeq  uint64
}

func (r *c24Ref) open() bool { return r.hs && (r.K == "" || r.au) }

// feed consumes one client value; returns the obligations it creates.
func (r *c24Ref) feed(v c24Val) (exp []c24Expect, lenient bool) {
	if r.ended {
		return nil, false
	}
	if v.m == nil {
		r.ended = true
		return nil, true
	}
	switch r.mode {
	case 0:
		// The agent decodes every request header into the same struct: a field
		// that is absent from the map keeps the value of the previous header.
		// A map without Command/Seq (a body re-read as a header) is therefore
		// handled as a repetition of the previous command; the reference
		// follows that to stay aligned, but puts no reply obligation on it.
		cmd, seq := r.lastCmd, r.lastSeq
		full := true
		if c, ok := v.m["Command"]; ok {
			s, isStr := c.(string)
			if !isStr {
				r.ended = true
				return nil, true
			}
			cmd = s
		} else {
			full = false
		}
		if s, ok := v.m["Seq"]; ok {
			u, isInt := ipcU64(s)
			if !isInt {
				r.ended = true
				return nil, true
			}
			seq = u
		} else {
			full = false
		}
		r.lastCmd, r.lastSeq = cmd, seq
		oblige := func(e c24Expect) []c24Expect {
			if !full {
				r.reread++
				return nil
			}
			return []c24Expect{e}
		}
		switch {
		case cmd == "handshake":
			r.mode, r.pend = 1, seq
		case !r.hs:
			r.rejected++
			r.ended = true // the agent answers and may close
			return oblige(c24Expect{seq: seq, mustErr: true, why: fmt.Sprintf("command %q before handshake", cmd)}), false
		case cmd == "auth":
			r.mode, r.pend = 2, seq
		default: // handshaken, key configured, not authenticated
			r.rejected++
			return oblige(c24Expect{seq: seq, mustErr: true, why: fmt.Sprintf("command %q before authentication", cmd)}), false
		}
		return nil, false
	case 1:
		r.mode = 0
		ver := int64(0)
		if x, ok := v.m["Version"]; ok {
			i, isInt := c24Int(x)
			if !isInt {
				r.ended = true
				return nil, true
			}
			ver = i
		}
		if ver == 1 && !r.hs {
			return []c24Expect{{seq: r.pend, grant: "handshake", why: "handshake version 1"}}, false
		}
		r.rejected++
		return []c24Expect{{seq: r.pend, mustErr: true, why: fmt.Sprintf("handshake version %d (handshaken=%v)", ver, r.hs)}}, false
	default:
		r.mode = 0
		key := ""
		if x, ok := v.m["AuthKey"]; ok {
			s, isStr := x.(string)
			if !isStr {
				r.ended = true
				return nil, true
			}
			key = s
		}
		if key == r.K {
			return []c24Expect{{seq: r.pend, grant: "auth", why: "auth with the configured key"}}, false
		}
		r.rejected++
		return []c24Expect{{seq: r.pend, mustErr: true, why: fmt.Sprintf("auth with wrong key %q", key)}}, false
	}
}

// ---------------------------------------------------------------- workload

type c24World struct {
	env        *ipcEnv
	puppet     *cluster.Puppet
	ring       *memberlist.Keyring
	puppetAddr string
}

func (w *c24World) snapshot() map[string]string {
	s := map[string]string{}
	a := w.env.Agent
	s["events_fanned_out"] = fmt.Sprint(w.env.Events.Len())
	lm := a.Serf().LocalMember()
	tk := make([]string, 0)
	for k, v := range lm.Tags {
		tk = append(tk, k+"="+v)
	}
	sort.Strings(tk)
	s["tags"] = strings.Join(tk, ",")
	var ms []string
	for _, m := range a.Serf().Members() {
		ms = append(ms, m.Name+":"+m.Status.String())
	}
	sort.Strings(ms)
	s["members"] = strings.Join(ms, ",")
	var ks []string
	for _, k := range w.ring.GetKeys() {
		ks = append(ks, hex.EncodeToString(k))
	}
	s["keyring"] = "primary=" + hex.EncodeToString(w.ring.GetPrimaryKey()) + " all=" + strings.Join(ks, ",")
	s["serf_state"] = a.Serf().State().String()
	select {
	case <-a.ShutdownCh():
		s["agent_shutdown"] = "true"
	default:
		s["agent_shutdown"] = "false"
	}
	s["event_handlers"] = fmt.Sprint(w.env.EventHandlers())
	s["log_handlers"] = fmt.Sprint(w.env.LogHandlers())
	um := 0
	for _, m := range w.puppet.Received() {
		if len(m) == 0 {
			continue
		}
		switch m[0] {
		case wire.UserEvent:
			var ue wire.MsgUserEvent
			if wire.Decode(m[1:], &ue) == nil && strings.HasPrefix(ue.Name, "c24") {
				um++
			}
		case wire.Query:
			var q wire.MsgQuery
			if wire.Decode(m[1:], &q) == nil && strings.HasPrefix(q.Name, "c24") {
				um++
			}
		}
	}
	s["user_messages_at_peer"] = fmt.Sprint(um)
	return s
}

func c24Diff(a, b map[string]string) string {
	var out []string
	for k, v := range a {
		if b[k] != v {
			out = append(out, fmt.Sprintf("%s: %s -> %s", k, v, b[k]))
		}
	}
	sort.Strings(out)
	return strings.Join(out, "; ")
}

var c24Gated = []string{"event", "force-leave", "join", "members", "members-filtered", "stream", "stop", "monitor",
	"leave", "install-key", "use-key", "remove-key", "list-keys", "tags", "query", "respond", "stats", "get-coordinate"}

func (w *c24World) body(cmd string, rng *rand.Rand, tag string) any {
	switch cmd {
	case "event":
		return &ipcEventReq{Name: "c24-" + tag, Payload: []byte("x")}
	case "force-leave":
		return &ipcForceLeaveReq{Node: "ghost"}
	case "join":
		return &ipcJoinReq{Existing: []string{w.puppetAddr}}
	case "members-filtered":
		return &ipcMembersFilteredReq{Name: ".*"}
	case "stream":
		return &ipcStreamReq{Type: "*"}
	case "stop":
		return &ipcStopReq{Stop: 1}
	case "monitor":
		return &ipcMonitorReq{LogLevel: "debug"}
	case "install-key", "use-key", "remove-key":
		k := sha256.Sum256([]byte(fmt.Sprint(tag, rng.Int63())))
		return &ipcKeyReq{Key: base64.StdEncoding.EncodeToString(k[:16])}
	case "tags":
		return &ipcTagsReq{Tags: map[string]string{"c24": tag + fmt.Sprint(rng.Intn(1000))}}
	case "query":
		return &ipcQueryReq{Name: "c24q-" + tag, Timeout: time.Second, RequestAck: true}
	case "respond":
		return &ipcRespondReq{ID: 1, Payload: []byte("r")}
	case "get-coordinate":
		return &ipcCoordinateReq{Node: w.env.Name}
	case "handshake":
		return &ipcHandshakeReq{Version: 1}
	case "auth":
		return &ipcAuthReq{AuthKey: "?"}
	}
	return nil // members, leave, list-keys, stats
}

type c24Item struct {
	vals []c24Val
	desc string
	last bool // ends the session (a value whose handling is unspecified)
}

func (w *c24World) genItem(rng *rand.Rand, K string, seq uint64, ref *c24Ref) c24Item {
	hdr := func(cmd string) c24Val {
		return c24Mk("hdr "+cmd, &ipcReqHeader{Command: cmd, Seq: seq})
	}
	scalar := func() (c24Val, string) {
		switch rng.Intn(5) {
		case 0:
			return c24Mk("int", 7), "int"
		case 1:
			return c24Mk("string", "handshake"), "string"
		case 2:
			return c24Mk("bool", true), "bool"
		case 3:
			return c24Mk("array", []any{99, "zz-not-a-key"}), "array"
		default:
			return c24Mk("float", 1.5), "float"
		}
	}
	x := rng.Intn(100)
	switch {
	case x < 12 || (!ref.hs && x < 75): // handshake variants
		switch y := rng.Intn(12); {
		case y < 6:
			return c24Item{vals: []c24Val{hdr("handshake"), c24Mk("v1", &ipcHandshakeReq{Version: 1})}, desc: "handshake/v1"}
		case y < 9:
			ver := []int32{0, 2, -1, 1 << 30, 256 + 1}[rng.Intn(5)]
			return c24Item{vals: []c24Val{hdr("handshake"), c24Mk("badver", &ipcHandshakeReq{Version: ver})}, desc: fmt.Sprintf("handshake/v%d", ver)}
		case y == 9:
			return c24Item{vals: []c24Val{hdr("handshake")}, desc: "handshake/no-body"}
		case y == 10:
			return c24Item{vals: []c24Val{hdr("handshake"), c24Mk("empty map", map[string]any{})}, desc: "handshake/empty-map"}
		default:
			if rng.Intn(2) == 0 {
				return c24Item{vals: []c24Val{hdr("handshake"), c24Mk("wrongtype", map[string]any{"Version": "two"})}, desc: "handshake/version-string", last: true}
			}
			sv, sn := scalar()
			return c24Item{vals: []c24Val{hdr("handshake"), sv}, desc: "handshake/body-" + sn, last: true}
		}
	case x < 45 && K != "" && ref.hs: // auth variants
		switch y := rng.Intn(14); {
		case y < 5:
			return c24Item{vals: []c24Val{hdr("auth"), c24Mk("right key", &ipcAuthReq{AuthKey: K})}, desc: "auth/right"}
		case y < 11:
			wrong := []string{"", K + "x", K[:len(K)-1], "wrong", strings.ToUpper(K) + "!", " " + K, K + "\x00", strings.TrimSpace(K) + "!"}[rng.Intn(8)]
			if t := strings.TrimSpace(K); t != K && rng.Intn(3) == 0 {
				wrong = t
			}
			return c24Item{vals: []c24Val{hdr("auth"), c24Mk("wrong key", &ipcAuthReq{AuthKey: wrong})}, desc: fmt.Sprintf("auth/wrong(%q)", wrong)}
		case y == 11:
			return c24Item{vals: []c24Val{hdr("auth")}, desc: "auth/no-body"}
		case y == 12:
			return c24Item{vals: []c24Val{hdr("auth"), c24Mk("empty map", map[string]any{})}, desc: "auth/empty-map"}
		default:
			if rng.Intn(2) == 0 {
				return c24Item{vals: []c24Val{hdr("auth"), c24Mk("wrongtype", map[string]any{"AuthKey": 12345})}, desc: "auth/key-int", last: true}
			}
			sv, sn := scalar()
			return c24Item{vals: []c24Val{hdr("auth"), sv}, desc: "auth/body-" + sn, last: true}
		}
	default: // a command the gates must reject
		cmd := c24Gated[rng.Intn(len(c24Gated))]
		if rng.Intn(15) == 0 {
			cmd = []string{"bogus", "", "HANDSHAKE", "auth ", "members\x00"}[rng.Intn(5)]
		}
		b := w.body(cmd, rng, "pre")
		switch y := rng.Intn(10); {
		case y < 6: // well-formed
			if b == nil {
				return c24Item{vals: []c24Val{hdr(cmd)}, desc: cmd + "/ok"}
			}
			return c24Item{vals: []c24Val{hdr(cmd), c24Mk("body", b)}, desc: cmd + "/ok"}
		case y == 6: // body omitted / extra map for body-less commands
			if b == nil {
				return c24Item{vals: []c24Val{hdr(cmd), c24Mk("extra", map[string]any{"Extra": 1})}, desc: cmd + "/extra-map"}
			}
			return c24Item{vals: []c24Val{hdr(cmd)}, desc: cmd + "/no-body"}
		case y == 7 || y == 8: // body that smuggles a request header
			inner := []string{"event", "tags", "stats", "members", "leave", "auth", "handshake"}[rng.Intn(7)]
			m := map[string]any{"Command": inner, "Seq": seq + 1000, "Name": "c24-smuggled", "Tags": map[string]string{"c24": "smuggled"}, "Existing": []string{w.puppetAddr}}
			return c24Item{vals: []c24Val{hdr(cmd), c24Mk("smuggle "+inner, m)}, desc: cmd + "/smuggle-" + inner}
		default:
			sv, sn := scalar()
			return c24Item{vals: []c24Val{hdr(cmd), sv}, desc: cmd + "/body-" + sn, last: true}
		}
	}
}

type c24Viol struct {
	key, msg string
	witness  any
}

type c24Result struct {
	err      string
	viols    []c24Viol
	sessions int
	sigs     []string
	counts   map[string]int
	sample   any
}

func c24Case(t *testing.T, rng *rand.Rand, nSessions int) (res c24Result) {
	res.counts = map[string]int{}
	// (keys made of or padded with white space are keys like any other)
	K := []string{"", "secret", "s3cr3t key", "ключ", "k", "", "secret", " ", "\t\n", "tok3n\n", "  pad"}[rng.Intn(11)]
	synctest.Test(t, func(t *testing.T) {
		key := make([]byte, 16)
		rng.Read(key)
		ring, _ := memberlist.NewKeyring(nil, key)
		pring, _ := memberlist.NewKeyring(nil, key)
		env, err := ipcStart(ipcOpts{Seed: rng.Int63(), Name: "agent-c24", AuthKey: K, Keyring: ring, Tags: map[string]string{"role": "c24"}})
		if err != nil {
			res.err = err.Error()
			return
		}
		env.CloseSettle = 8 * time.Second // an (unauthorised) leave may still be in flight
		defer env.Close()
		p, err := cluster.StartPuppet(env.Net, cluster.PuppetOpts{Name: "peer", IP: "10.0.0.9", Keyring: pring})
		if err != nil {
			res.err = err.Error()
			return
		}
		defer p.Close()
		w := &c24World{env: env, puppet: p, ring: ring, puppetAddr: p.Addr}
		// a failed member, so that force-leave has an observable effect
		ghost := cluster.FakeNode("ghost", "10.0.0.66", 7946, wire.EncodeTags(map[string]string{}))
		env.ML.Events.NotifyJoin(ghost)
		env.ML.Events.NotifyLeave(ghost)
		synctest.Wait()

		seq := uint64(100)
		for si := 0; si < nSessions; si++ {
			select {
			case <-env.Agent.ShutdownCh():
				return
			default:
			}
			cl, err := env.Dial()
			if err != nil {
				res.err = err.Error()
				return
			}
			synctest.Wait()
			res.sessions++
			ref := &c24Ref{K: K}
			var trace []string
			addViol := func(kind, format string, a ...any) {
				res.viols = append(res.viols, c24Viol{key: kind, msg: fmt.Sprintf(format, a...) + fmt.Sprintf(" ; auth key configured: %q ; session: %s", K, strings.Join(trace, " → ")),
					witness: map[string]any{"authKey": K, "session": append([]string(nil), trace...)}})
			}
			// ---------------- not yet authorised
			maxItems := 2 + rng.Intn(8)
			// sequence numbers are the client's business: a fifth of the sessions start at 0, and a request
			// may repeat the number of the one before
			if rng.Intn(5) == 0 {
				seq = math.MaxUint64
			}
			for it := 0; it < maxItems && !ref.open() && !ref.ended && !cl.EOF(); it++ {
				if it == 0 || rng.Intn(6) != 0 {
					seq++
				} else {
					res.counts["requests_repeating_the_previous_seq"]++
				}
				if seq == 0 {
					res.counts["requests_with_seq_0"]++
				}
				item := w.genItem(rng, K, seq, ref)
				before := w.snapshot()
				var exps []c24Expect
				lenient := false
				var raw []byte
				for _, v := range item.vals {
					e, l := ref.feed(v)
					exps = append(exps, e...)
					lenient = lenient || l
					raw = append(raw, v.raw...)
				}
				cl.SendRaw(raw)
				// give anything the request may have started (queries, a leave, key
				// operations holding their lock until a query deadline) time to show
				// and to finish
				time.Sleep(5 * time.Second)
				synctest.Wait()
				vals := cl.Take()
				after := w.snapshot()
				var shown []string
				for _, v := range vals {
					shown = append(shown, v.String())
				}
				trace = append(trace, fmt.Sprintf("%s(seq %d) ⇒ %s%s", item.desc, seq, strings.Join(shown, " "), map[bool]string{true: " [closed]", false: ""}[cl.EOF()]))
				res.counts["requests_before_authorisation"]++
				res.counts["replies_before_authorisation"] += len(vals)
				// 1. no data
				used := make([]bool, len(vals))
				for i, v := range vals {
					if !v.Hdr {
						addViol("data-before-authorisation", "the agent sent a non-header value %s before the session was authorised", v)
						used[i] = true
					}
				}
				// 2. obligations
				for _, e := range exps {
					found := -1
					for i, v := range vals {
						if used[i] || !v.Hdr || v.Seq != e.seq {
							continue
						}
						if e.mustErr && v.Err == "" {
							continue
						}
						found = i
						break
					}
					if found < 0 {
						if e.mustErr {
							// is there a success reply for it instead?
							succ := false
							for i, v := range vals {
								if !used[i] && v.Hdr && v.Seq == e.seq && v.Err == "" {
									succ, used[i] = true, true
									break
								}
							}
							if succ {
								addViol("accepted-before-authorisation", "%s was answered with an empty Error", e.why)
							} else {
								addViol("no-error-reply", "%s got no error reply with its seq %d", e.why, e.seq)
							}
						} else {
							addViol("no-reply", "%s got no reply with its seq %d", e.why, e.seq)
						}
						continue
					}
					used[found] = true
					if e.mustErr {
						res.counts["rejections_with_error_reply"]++
						res.counts["error:"+vals[found].Err]++
					}
					if e.grant != "" {
						if vals[found].Err == "" {
							if e.grant == "handshake" {
								ref.hs = true
								res.counts["handshakes_granted"]++
							} else {
								ref.au = true
								res.counts["auths_granted"]++
							}
						} else {
							res.counts["legit_"+e.grant+"_refused"]++
						}
					}
				}
				// 3. leftovers must be error headers
				for i, v := range vals {
					if !used[i] && v.Hdr {
						if v.Err == "" {
							addViol("accepted-before-authorisation", "the agent sent a success header %s that answers no handshake/auth", v)
						} else {
							res.counts["extra_error_replies(body re-read as header)"]++
						}
					}
				}
				// 4. state
				if d := c24Diff(before, after); d != "" {
					addViol("state-change-before-authorisation", "agent state changed: %s", d)
				}
				if lenient {
					res.counts["unspecified_values_sent"]++
				}
				if item.last {
					break
				}
			}
			if ref.rejected > 0 {
				res.sigs = append(res.sigs, fmt.Sprintf("K=%q|%s", K, strings.Join(trace, "|")))
			}
			// ---------------- authorised: prove the detectors live
			if ref.open() && !cl.EOF() {
				res.counts["sessions_authorised"]++
				cmds := []string{"event", "tags", "join", "force-leave", "install-key", "stream", "monitor", "query", "members", "stats", "list-keys", "get-coordinate", "members-filtered", "stop", "respond"}
				rng.Shuffle(len(cmds), func(i, j int) { cmds[i], cmds[j] = cmds[j], cmds[i] })
				n := 2 + rng.Intn(4)
				if si == nSessions-1 && rng.Intn(3) == 0 {
					cmds = append(cmds[:n:n], "leave")
					n++
				}
				for _, cmd := range cmds[:n] {
					seq++
					before := w.snapshot()
					cl.Send(cmd, seq, w.body(cmd, rng, "post"))
					time.Sleep(5 * time.Second)
					synctest.Wait()
					vals := cl.Take()
					after := w.snapshot()
					d := c24Diff(before, after)
					gotBody := false
					ok := false
					for _, v := range vals {
						if !v.Hdr {
							gotBody = true
						} else if v.Seq == seq && v.Err == "" {
							ok = true
						}
					}
					if ok {
						res.counts["accepted_after_authorisation"]++
					}
					if d != "" || gotBody {
						res.counts["effect_seen:"+cmd]++
					}
					if cmd == "leave" {
						break
					}
				}
			} else if ref.open() {
				res.counts["sessions_authorised"]++
			}
			if si == 0 {
				res.sample = map[string]any{"authKey": K, "session": trace}
			}
			cl.Close()
			synctest.Wait()
		}
	})
	return
}

func TestC24(t *testing.T) {
	r := evid.Start(t, "C24", "exploration")
	const perCase = 10
	n := r.N(1200, 30000) // × 10 sessions
	r.Cases("sessions", n, 0, func(ci int, rng *rand.Rand) {
		res := c24Case(t, rng, perCase)
		r.Eval(res.sessions)
		for k, v := range res.counts {
			r.Count(k, v)
		}
		if res.err != "" {
			r.Inconclusive(fmt.Sprintf("case %d: harness error: %s", ci, res.err))
			return
		}
		for _, s := range res.sigs {
			r.Distinct(s)
		}
		for _, v := range res.viols {
			r.Violation(v.key, ci, v.msg, v.witness)
		}
		if ci < 3 && res.sample != nil {
			r.Sample(res.sample)
		}
	})
	// detectors must have been proven live, or silence means nothing
	for _, cmd := range []string{"event", "tags", "join", "force-leave", "install-key", "stream", "monitor", "query", "members", "stats"} {
		if r.Counter("effect_seen:"+cmd) == 0 {
			r.Inconclusive("the state diff never saw the effect of an authorised `" + cmd + "`: detector not proven live")
		}
	}
	r.Finish("per case one agent (auth key \"\" or one of 4 keys) with 10 sequential sessions; per session 2-9 requests before authorisation drawn from: all 18 gated commands (+unknown ones) with well-formed / omitted / extra / header-smuggling / non-map bodies, handshakes (v1, unsupported versions, duplicate, no body, malformed) and auths (right key, 7 kinds of wrong key incl. empty/prefix/extension, no body, malformed); lock-step with a value-level session reference; state diffed after every request at quiescence; non-trivial = session with >= 1 command the gates had to reject; distinct by (key, request/reply trace)",
		r.N(3000, 80000),
		"values whose decoding is unspecified (non-map where a map is expected, wrongly typed fields) end the session; only 'no data, no success, no state change' is required for them",
		"a handshake/auth success is taken from the agent's reply and must be legitimate (version 1 / configured key)")
}
