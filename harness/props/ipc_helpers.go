package props

// Shared machinery of the RPC/IPC monitors (C24, C25, C26, C30): a real
// agent.Agent + agent.AgentIPC whose listener is in-memory (net.Pipe), its serf
// instance on simnet, and a raw msgpack client that records every value the
// agent writes. Everything here runs inside a testing/synctest bubble.
//
// Identifiers are prefixed ipc… ; nothing here is specific to one property.

import (
	"bufio"
	"bytes"
	"errors"
	"fmt"
	"io"
	"net"
	"os"
	"reflect"
	"sort"
	"strings"
	"sync"
	"sync/atomic"
	"time"

	"github.com/hashicorp/go-msgpack/v2/codec"
	"github.com/hashicorp/memberlist"
	"github.com/hashicorp/serf/cmd/serf/command/agent"
	"github.com/hashicorp/serf/serf"

	"verif/harness/cluster"
	"verif/harness/simnet"
)

// ---------------------------------------------------------------- listener

type ipcAddr string

func (a ipcAddr) Network() string { return "pipe" }
func (a ipcAddr) String() string  { return string(a) }

// ipcConn gives each server-side pipe end a unique RemoteAddr (AgentIPC keys
// its client table by RemoteAddr().String(); net.Pipe reports "pipe" for all).
type ipcConn struct {
	net.Conn
	remote ipcAddr
}

func (c *ipcConn) RemoteAddr() net.Addr { return c.remote }

// ipcListener is an in-memory net.Listener: Accept returns the server side of a
// net.Pipe created by Dial; Close unblocks Accept.
type ipcListener struct {
	ch     chan net.Conn
	closed chan struct{}
	once   sync.Once
	n      atomic.Int64
}

func newIPCListener() *ipcListener {
	return &ipcListener{ch: make(chan net.Conn, 64), closed: make(chan struct{})}
}

func (l *ipcListener) Accept() (net.Conn, error) {
	select {
	case <-l.closed:
		return nil, errors.New("ipcListener: closed")
	default:
	}
	select {
	case c := <-l.ch:
		return c, nil
	case <-l.closed:
		return nil, errors.New("ipcListener: closed")
	}
}

func (l *ipcListener) Close() error {
	l.once.Do(func() { close(l.closed) })
	for {
		select {
		case c := <-l.ch:
			c.Close()
		default:
			return nil
		}
	}
}

func (l *ipcListener) Addr() net.Addr { return ipcAddr("ipc-listener") }

// Dial returns the client side of a fresh connection.
func (l *ipcListener) Dial() (net.Conn, error) {
	c1, c2 := net.Pipe()
	srv := &ipcConn{Conn: c2, remote: ipcAddr(fmt.Sprintf("pipe-client-%d", l.n.Add(1)))}
	select {
	case <-l.closed:
		c1.Close()
		c2.Close()
		return nil, errors.New("ipcListener: closed")
	case l.ch <- srv:
		return c1, nil
	}
}

// ---------------------------------------------------------------- wire structs (requests)

type ipcReqHeader struct {
	Command string
	Seq     uint64
}
type ipcHandshakeReq struct{ Version int32 }
type ipcAuthReq struct{ AuthKey string }
type ipcEventReq struct {
	Name     string
	Payload  []byte
	Coalesce bool
}
type ipcForceLeaveReq struct {
	Node  string
	Prune bool
}
type ipcJoinReq struct {
	Existing []string
	Replay   bool
}
type ipcMembersFilteredReq struct {
	Tags   map[string]string
	Status string
	Name   string
}
type ipcKeyReq struct{ Key string }
type ipcMonitorReq struct{ LogLevel string }
type ipcStreamReq struct{ Type string }
type ipcStopReq struct{ Stop uint64 }
type ipcTagsReq struct {
	Tags       map[string]string
	DeleteTags []string
}
type ipcQueryReq struct {
	FilterNodes []string
	FilterTags  map[string]string
	RequestAck  bool
	RelayFactor uint8
	Timeout     time.Duration
	Name        string
	Payload     []byte
}
type ipcRespondReq struct {
	ID      uint64
	Payload []byte
}
type ipcCoordinateReq struct{ Node string }

// ipcAllCommands are the commands of /repo/client/const.go.
var ipcAllCommands = []string{"handshake", "event", "force-leave", "join", "members", "members-filtered",
	"stream", "stop", "monitor", "leave", "install-key", "use-key", "remove-key", "list-keys", "tags",
	"query", "respond", "auth", "stats", "get-coordinate"}

func ipcEncHandle() *codec.MsgpackHandle {
	return &codec.MsgpackHandle{WriteExt: true}
}

// ipcEncode msgpack-encodes values back to back.
func ipcEncode(vals ...any) []byte {
	var buf bytes.Buffer
	enc := codec.NewEncoder(&buf, ipcEncHandle())
	for _, v := range vals {
		if err := enc.Encode(v); err != nil {
			panic(err)
		}
	}
	return buf.Bytes()
}

// ---------------------------------------------------------------- raw client

// ipcValue is one msgpack value written by the agent. A value that is a map with
// exactly the keys {Seq, Error} is a response header; everything else is a body.
type ipcValue struct {
	Hdr  bool
	Seq  uint64
	Err  string
	Body map[string]any // non-header maps
	Raw  any            // the decoded value
	At   time.Time      // (virtual) time of receipt
}

func (v ipcValue) String() string {
	if v.Hdr {
		return fmt.Sprintf("H{seq=%d err=%q}", v.Seq, v.Err)
	}
	return "B" + ipcShow(v.Raw)
}

// ipcShow renders a decoded value deterministically (sorted map keys).
func ipcShow(x any) string {
	switch t := x.(type) {
	case map[string]any:
		keys := make([]string, 0, len(t))
		for k := range t {
			keys = append(keys, k)
		}
		sort.Strings(keys)
		var sb strings.Builder
		sb.WriteString("{")
		for i, k := range keys {
			if i > 0 {
				sb.WriteString(" ")
			}
			fmt.Fprintf(&sb, "%s:%s", k, ipcShow(t[k]))
		}
		sb.WriteString("}")
		return sb.String()
	case []any:
		parts := make([]string, len(t))
		for i := range t {
			parts[i] = ipcShow(t[i])
		}
		return "[" + strings.Join(parts, " ") + "]"
	case []byte:
		return fmt.Sprintf("b%q", string(t))
	case string:
		return fmt.Sprintf("%q", t)
	default:
		return fmt.Sprint(x)
	}
}

func ipcU64(x any) (uint64, bool) {
	switch t := x.(type) {
	case uint64:
		return t, true
	case int64:
		return uint64(t), true
	case uint32:
		return uint64(t), true
	case int32:
		return uint64(t), true
	case int:
		return uint64(t), true
	case uint:
		return uint64(t), true
	case int8:
		return uint64(t), true
	case uint8:
		return uint64(t), true
	case int16:
		return uint64(t), true
	case uint16:
		return uint64(t), true
	}
	return 0, false
}

func ipcStr(x any) string {
	switch t := x.(type) {
	case string:
		return t
	case []byte:
		return string(t)
	case nil:
		return ""
	}
	return fmt.Sprint(x)
}

func ipcBytes(x any) []byte {
	switch t := x.(type) {
	case string:
		return []byte(t)
	case []byte:
		return t
	}
	return nil
}

// ipcClient is a raw msgpack RPC client on one pipe. A reader goroutine decodes
// every value into a log (net.Pipe is unbuffered: without it the agent's writes
// would block); the reader can be paused exactly (slow-reader mode): while
// paused not a single byte is taken from the pipe.
type ipcClient struct {
	conn net.Conn

	mu      sync.Mutex
	cond    *sync.Cond
	vals    []ipcValue
	taken   int
	eof     bool
	readErr error
	paused  bool
	closing bool

	wch   chan []byte
	done  chan struct{}
	rdone chan struct{} // closed when readLoop has returned
	wdone chan struct{} // closed when writeLoop has returned
	werr  atomic.Value
	once  sync.Once
}

func newIPCClient(conn net.Conn) *ipcClient {
	// (no sync.WaitGroup here: go1.25.0 sometimes reports "WaitGroup.Add called
	// from multiple synctest bubbles" for a freshly allocated WaitGroup when many
	// bubbles run concurrently)
	c := &ipcClient{conn: conn, wch: make(chan []byte, 4096), done: make(chan struct{}),
		rdone: make(chan struct{}), wdone: make(chan struct{})}
	c.cond = sync.NewCond(&c.mu)
	go c.readLoop()
	go c.writeLoop()
	return c
}

// Read implements the gate: it blocks while the client is paused.
func (c *ipcClient) Read(p []byte) (int, error) {
	for {
		c.mu.Lock()
		for c.paused && !c.closing {
			c.cond.Wait()
		}
		closing := c.closing
		c.mu.Unlock()
		if closing {
			return 0, io.ErrClosedPipe
		}
		n, err := c.conn.Read(p)
		if n > 0 {
			return n, nil
		}
		if err != nil && errors.Is(err, os.ErrDeadlineExceeded) {
			c.mu.Lock()
			paused := c.paused
			c.mu.Unlock()
			if !paused {
				_ = c.conn.SetReadDeadline(time.Time{})
			}
			continue
		}
		return n, err
	}
}

func (c *ipcClient) readLoop() {
	defer close(c.rdone)
	h := &codec.MsgpackHandle{WriteExt: true}
	h.MapType = reflect.TypeOf(map[string]any(nil))
	dec := codec.NewDecoder(bufio.NewReader(c), h)
	for {
		var v any
		err := dec.Decode(&v)
		c.mu.Lock()
		if err != nil {
			c.eof = true
			c.readErr = err
			c.mu.Unlock()
			return
		}
		c.vals = append(c.vals, ipcClassify(v))
		c.mu.Unlock()
	}
}

func ipcClassify(v any) ipcValue {
	out := ipcValue{Raw: v, At: time.Now()}
	m, ok := v.(map[string]any)
	if !ok {
		return out
	}
	if len(m) == 2 {
		s, ok1 := m["Seq"]
		e, ok2 := m["Error"]
		if ok1 && ok2 {
			if u, ok := ipcU64(s); ok {
				if es, ok := e.(string); ok {
					out.Hdr, out.Seq, out.Err = true, u, es
					return out
				}
			}
		}
	}
	out.Body = m
	return out
}

func (c *ipcClient) writeLoop() {
	defer close(c.wdone)
	for {
		select {
		case b := <-c.wch:
			if _, err := c.conn.Write(b); err != nil {
				c.werr.Store(err)
				// keep draining so senders never block
			}
		case <-c.done:
			return
		}
	}
}

// SendRaw queues bytes for the agent (never blocks).
func (c *ipcClient) SendRaw(b []byte) {
	select {
	case c.wch <- b:
	default:
		c.werr.Store(errors.New("ipcClient: write queue full"))
	}
}

// SendValues queues arbitrary msgpack values.
func (c *ipcClient) SendValues(vals ...any) { c.SendRaw(ipcEncode(vals...)) }

// Send queues a request: header {Command, Seq} and, if body != nil, the body.
func (c *ipcClient) Send(cmd string, seq uint64, body any) {
	if body == nil {
		c.SendValues(&ipcReqHeader{Command: cmd, Seq: seq})
		return
	}
	c.SendValues(&ipcReqHeader{Command: cmd, Seq: seq}, body)
}

// Take returns the values received since the previous Take.
func (c *ipcClient) Take() []ipcValue {
	c.mu.Lock()
	defer c.mu.Unlock()
	out := append([]ipcValue(nil), c.vals[c.taken:]...)
	c.taken = len(c.vals)
	return out
}

// All returns every value received so far.
func (c *ipcClient) All() []ipcValue {
	c.mu.Lock()
	defer c.mu.Unlock()
	return append([]ipcValue(nil), c.vals...)
}

// EOF reports whether the agent closed the connection (or the stream became undecodable).
func (c *ipcClient) EOF() bool {
	c.mu.Lock()
	defer c.mu.Unlock()
	return c.eof
}

// Pause stops the reader exactly: no further byte is taken from the pipe until Resume.
func (c *ipcClient) Pause() {
	c.mu.Lock()
	c.paused = true
	c.mu.Unlock()
	_ = c.conn.SetReadDeadline(time.Unix(1, 0))
}

// Resume lets the reader continue.
func (c *ipcClient) Resume() {
	_ = c.conn.SetReadDeadline(time.Time{})
	c.mu.Lock()
	c.paused = false
	c.cond.Broadcast()
	c.mu.Unlock()
}

// Close closes the pipe and waits for the client's goroutines.
func (c *ipcClient) Close() {
	c.once.Do(func() {
		c.mu.Lock()
		c.closing = true
		c.cond.Broadcast()
		c.mu.Unlock()
		close(c.done)
		c.conn.Close()
	})
	<-c.rdone
	<-c.wdone
}

// ipcFrame is a response header with the body that followed it (if any).
type ipcFrame struct {
	Seq  uint64
	Err  string
	Body map[string]any
	At   time.Time
}

func (f ipcFrame) String() string {
	if f.Body == nil {
		return fmt.Sprintf("{seq=%d err=%q}", f.Seq, f.Err)
	}
	return fmt.Sprintf("{seq=%d err=%q body=%s}", f.Seq, f.Err, ipcShow(f.Body))
}

// ipcFrames groups values as header [body]. It fails on a body without a
// header, two bodies in a row or a non-map value.
func ipcFrames(vals []ipcValue) ([]ipcFrame, error) {
	var out []ipcFrame
	open := false
	for i, v := range vals {
		switch {
		case v.Hdr:
			out = append(out, ipcFrame{Seq: v.Seq, Err: v.Err, At: v.At})
			open = true
		case v.Body != nil && open:
			out[len(out)-1].Body = v.Body
			open = false
		default:
			return out, fmt.Errorf("value #%d is not a header and does not follow a bare header: %s", i, v)
		}
	}
	return out, nil
}

// ---------------------------------------------------------------- agent on a pipe

// ipcEventLog is an agent.EventHandler that records every event the agent's event loop fans out.
type ipcEventLog struct {
	mu  sync.Mutex
	evs []serf.Event
}

func (l *ipcEventLog) HandleEvent(e serf.Event) {
	l.mu.Lock()
	l.evs = append(l.evs, e)
	l.mu.Unlock()
}

func (l *ipcEventLog) Len() int {
	l.mu.Lock()
	defer l.mu.Unlock()
	return len(l.evs)
}

func (l *ipcEventLog) Since(n int) []serf.Event {
	l.mu.Lock()
	defer l.mu.Unlock()
	if n > len(l.evs) {
		n = len(l.evs)
	}
	return append([]serf.Event(nil), l.evs[n:]...)
}

type ipcOpts struct {
	Net      *simnet.Net // nil: a fresh network
	Seed     int64
	Name     string
	IP       string
	AuthKey  string
	Profile  string // cluster.MLConfig profile
	Tags     map[string]string
	TagsFile string
	Keyring  *memberlist.Keyring
	// NoIPC creates and starts only the agent.
	NoIPC       bool
	MutateSerf  func(*serf.Config)
	MutateAgent func(*agent.Config)
}

// ipcEnv is a running agent (+IPC) with the handles the monitors need.
type ipcEnv struct {
	Net       *simnet.Net
	Name      string
	Addr      string
	Agent     *agent.Agent
	IPC       *agent.AgentIPC
	AgentConf *agent.Config
	SerfConf  *serf.Config
	ML        *memberlist.Config // after Start: holds serf's own delegates (Events, Delegate, …)
	Tr        *simnet.Transport
	L         *ipcListener
	Events    *ipcEventLog
	// LogHandlers reports how many log handlers (monitors) are registered.
	LogHandlers func() int
	// CloseSettle is slept (virtual time) by Close before tearing the agent down.
	CloseSettle time.Duration

	mu      sync.Mutex
	clients []*ipcClient
	closed  bool
}

// ipcStart creates the agent like `serf agent` does (agent.Create, Start,
// NewAgentIPC) but on simnet and an in-memory listener.
func ipcStart(o ipcOpts) (*ipcEnv, error) {
	if o.Net == nil {
		o.Net = simnet.New(o.Seed)
	}
	if o.Name == "" {
		o.Name = "agent"
	}
	if o.IP == "" {
		o.IP = "10.0.0.1"
	}
	const port = 7946
	tr := o.Net.NewTransport(o.IP, port)
	ml := cluster.MLConfig(o.Profile)
	ml.Transport = tr
	ml.BindAddr, ml.BindPort = o.IP, port
	ml.AdvertiseAddr, ml.AdvertisePort = o.IP, port
	ml.Name = o.Name
	ml.Keyring = o.Keyring
	ml.Logger = nil

	sc := serf.DefaultConfig()
	sc.NodeName = o.Name
	sc.MemberlistConfig = ml
	sc.ProtocolVersion = 5
	ac := agent.DefaultConfig()
	ac.NodeName = o.Name
	ac.TagsFile = o.TagsFile
	if o.TagsFile == "" {
		sc.Tags = map[string]string{}
		for k, v := range o.Tags {
			sc.Tags[k] = v
		}
	}
	if o.MutateSerf != nil {
		o.MutateSerf(sc)
	}
	if o.MutateAgent != nil {
		o.MutateAgent(ac)
	}
	lw := agent.NewLogWriter(512)
	a, err := agent.Create(ac, sc, lw)
	if err != nil {
		tr.Shutdown()
		return nil, fmt.Errorf("agent.Create: %w", err)
	}
	env := &ipcEnv{Net: o.Net, Name: o.Name, Addr: tr.Addr(), Agent: a, AgentConf: ac, SerfConf: sc, ML: ml, Tr: tr,
		Events: &ipcEventLog{}}
	env.LogHandlers = func() int {
		defer func() { _ = recover() }()
		lw.Lock()
		defer lw.Unlock()
		f := reflect.ValueOf(lw).Elem().FieldByName("handlers")
		if !f.IsValid() {
			return -1
		}
		return f.Len()
	}
	a.RegisterEventHandler(env.Events)
	if err := a.Start(); err != nil {
		_ = a.Shutdown()
		tr.Shutdown()
		return nil, fmt.Errorf("agent.Start: %w", err)
	}
	if !o.NoIPC {
		env.L = newIPCListener()
		env.IPC = agent.NewAgentIPC(a, o.AuthKey, env.L, lw, lw, false)
	}
	return env, nil
}

// EventHandlers reports how many event handlers are registered with the agent
// (the harness's own log included), or -1 when the field cannot be read.
func (e *ipcEnv) EventHandlers() (n int) {
	defer func() {
		if recover() != nil {
			n = -1
		}
	}()
	f := reflect.ValueOf(e.Agent).Elem().FieldByName("eventHandlers")
	if !f.IsValid() {
		return -1
	}
	return f.Len()
}

// Dial opens a raw client connection to the agent's IPC.
func (e *ipcEnv) Dial() (*ipcClient, error) {
	conn, err := e.L.Dial()
	if err != nil {
		return nil, err
	}
	c := newIPCClient(conn)
	e.mu.Lock()
	e.clients = append(e.clients, c)
	e.mu.Unlock()
	return c, nil
}

// Close shuts everything down (idempotent); must run on every exit path of a bubble.
func (e *ipcEnv) Close() {
	e.mu.Lock()
	if e.closed {
		e.mu.Unlock()
		return
	}
	e.closed = true
	cl := e.clients
	e.mu.Unlock()
	for _, c := range cl {
		c.Close()
	}
	// let operations that are still in flight (e.g. a Leave waiting for its
	// broadcast) finish before the instance is torn down under them
	if e.CloseSettle > 0 {
		time.Sleep(e.CloseSettle)
	}
	if e.IPC != nil {
		e.IPC.Shutdown()
	}
	_ = e.Agent.Shutdown()
	e.Tr.Shutdown()
	if e.L != nil {
		e.L.Close()
	}
	// Once the root function of a bubble returns, virtual time stops: every
	// goroutine that is still sleeping on a timer (a Leave in progress, a query
	// stream waiting for its deadline, memberlist's shutdown grace periods)
	// would be reported as a deadlock. Let them run out here.
	time.Sleep(30 * time.Second)
}

// ipcHandshake performs handshake (+auth) on a fresh client at quiescence; wait must be synctest.Wait.
func ipcHandshake(c *ipcClient, authKey string, wait func()) error {
	c.Send("handshake", 1, &ipcHandshakeReq{Version: 1})
	wait()
	vals := c.Take()
	if len(vals) != 1 || !vals[0].Hdr || vals[0].Seq != 1 || vals[0].Err != "" {
		return fmt.Errorf("handshake reply: %v", vals)
	}
	if authKey != "" {
		c.Send("auth", 2, &ipcAuthReq{AuthKey: authKey})
		wait()
		vals = c.Take()
		if len(vals) != 1 || !vals[0].Hdr || vals[0].Seq != 2 || vals[0].Err != "" {
			return fmt.Errorf("auth reply: %v", vals)
		}
	}
	return nil
}

// ipcTagsEqual compares tag maps (nil == empty).
func ipcTagsEqual(a, b map[string]string) bool {
	if len(a) != len(b) {
		return false
	}
	for k, v := range a {
		if w, ok := b[k]; !ok || w != v {
			return false
		}
	}
	return true
}

func ipcCopyTags(a map[string]string) map[string]string {
	out := make(map[string]string, len(a))
	for k, v := range a {
		out[k] = v
	}
	return out
}
