package props

import (
	"fmt"
	"math"
	"math/rand"
	"strings"
	"testing"
	"testing/synctest"
	"time"

	"github.com/hashicorp/serf/serf"

	"verif/harness/evid"
)

// C18: user event coalescing keeps exactly the newest events per name.
// Lock-step against a reference (per name: max LTime, arrival-ordered ties,
// reset at flush); plus the real coalesce loop in virtual time, where
// pass-through events must arrive before the flush instant.

type c18Tok struct {
	Flush bool
	Name  string
	LTime uint64
	CC    bool
	Other bool // a non-user event (member event / query)
	ID    int
}

func c18Event(t c18Tok) serf.Event {
	if t.Other {
		if t.ID%2 == 0 {
			return serf.MemberEvent{Type: serf.EventMemberJoin, Members: []serf.Member{{Name: fmt.Sprint("m", t.ID)}}}
		}
		return &serf.Query{LTime: serf.LamportTime(t.LTime), Name: fmt.Sprint("q", t.ID)}
	}
	return serf.UserEvent{LTime: serf.LamportTime(t.LTime), Name: t.Name, Payload: []byte(fmt.Sprint(t.ID)), Coalesce: t.CC}
}

func c18Desc(e serf.Event) string {
	switch v := e.(type) {
	case serf.UserEvent:
		return fmt.Sprintf("U(%q,%d,#%s)", v.Name, v.LTime, v.Payload)
	case serf.MemberEvent:
		return "M(" + v.Members[0].Name + ")"
	case *serf.Query:
		return "Q(" + v.Name + ")"
	}
	return "?"
}

type c18Ref struct {
	ltime map[string]uint64
	evs   map[string][]string
}

func newC18Ref() *c18Ref { return &c18Ref{map[string]uint64{}, map[string][]string{}} }
func (r *c18Ref) add(t c18Tok) {
	d := c18Desc(c18Event(t))
	cur, ok := r.ltime[t.Name]
	if !ok || cur < t.LTime {
		r.ltime[t.Name] = t.LTime
		r.evs[t.Name] = []string{d}
	} else if cur == t.LTime {
		r.evs[t.Name] = append(r.evs[t.Name], d)
	}
}
func (r *c18Ref) flush() map[string][]string {
	out := r.evs
	r.ltime = map[string]uint64{}
	r.evs = map[string][]string{}
	return out
}

func c18PerName(evs []serf.Event) map[string][]string {
	m := map[string][]string{}
	for _, e := range evs {
		u, ok := e.(serf.UserEvent)
		if !ok {
			m["\x00other"] = append(m["\x00other"], c18Desc(e))
			continue
		}
		m[u.Name] = append(m[u.Name], c18Desc(e))
	}
	return m
}

func c18String(seq []c18Tok) string {
	var sb strings.Builder
	for _, t := range seq {
		switch {
		case t.Flush:
			sb.WriteString("| ")
		case t.Other:
			fmt.Fprintf(&sb, "other#%d ", t.ID)
		default:
			fmt.Fprintf(&sb, "%q@%d%s#%d ", t.Name, t.LTime, map[bool]string{true: "c", false: ""}[t.CC], t.ID)
		}
	}
	return sb.String()
}

func c18Gen(rng *rand.Rand, L int) []c18Tok {
	names := []string{"", "deploy", "dépløy", "x", "deploy "}
	nn := 1 + rng.Intn(len(names))
	base := []uint64{0, 1, 5, 1 << 32, math.MaxUint64 - 3}[rng.Intn(5)]
	// a fifth of the sequences have long quanta (a flush every ~30 events instead of every ~5) and are
	// longer, so that one flush carries dozens of events with ties
	long := rng.Intn(5) == 0
	if long {
		L = 2*L + 20
	}
	seq := make([]c18Tok, L)
	for i := range seq {
		switch x := rng.Intn(10); {
		case x < 2 && (!long || rng.Intn(6) == 0):
			seq[i] = c18Tok{Flush: true}
		case x < 2:
			seq[i] = c18Tok{Name: names[rng.Intn(nn)], LTime: base + uint64(rng.Intn(4)), CC: true, ID: i}
		case x == 2:
			seq[i] = c18Tok{Other: true, ID: i, LTime: uint64(i)}
		default:
			seq[i] = c18Tok{Name: names[rng.Intn(nn)], LTime: base + uint64(rng.Intn(4)), CC: rng.Intn(5) != 0, ID: i}
		}
	}
	return seq
}

func c18Lockstep(seq []c18Tok) (string, bool) {
	real := serf.VerifNewUserCoalescer()
	ref := newC18Ref()
	out := make(chan serf.Event, 256)
	nontriv := false
	cmp := func(step int) string {
		real.Flush(out)
		var got []serf.Event
		for len(out) > 0 {
			got = append(got, <-out)
		}
		want := ref.flush()
		g := c18PerName(got)
		for _, l := range want {
			if len(l) > 1 {
				nontriv = true
			}
		}
		if fmt.Sprint(g) != fmt.Sprint(want) {
			return fmt.Sprintf("flush after step %d: got %v want %v", step, g, want)
		}
		return ""
	}
	for i, t := range seq {
		if t.Flush {
			if v := cmp(i); v != "" {
				return v, nontriv
			}
			continue
		}
		e := c18Event(t)
		h := real.Handle(e)
		wantH := !t.Other && t.CC
		if h != wantH {
			return fmt.Sprintf("step %d: Handle(%s)=%v want %v", i, c18Desc(e), h, wantH), nontriv
		}
		if h {
			if _, ok := ref.ltime[t.Name]; ok && ref.ltime[t.Name] > t.LTime {
				nontriv = true // an older event must be dropped
			}
			real.Coalesce(e)
			ref.add(t)
		}
	}
	return cmp(len(seq)), nontriv
}

func TestC18(t *testing.T) {
	r := evid.Start(t, "C18", "exploration")
	n := r.N(20000, 1000000)
	r.Cases("lockstep", n, 0, func(ci int, rng *rand.Rand) {
		seq := c18Gen(rng, 4+rng.Intn(40))
		v, nt := c18Lockstep(seq)
		r.Eval(1)
		if nt {
			r.Distinct(c18String(seq))
		}
		if v != "" {
			r.Violation("lockstep", ci, v+" ; sequence: "+c18String(seq), c18String(seq))
		}
		if ci == 3 {
			r.Sample(map[string]any{"mode": "lockstep", "seq": c18String(seq)})
		}
	})

	// real coalesce loop in virtual time
	nLoop := r.N(1500, 60000)
	r.Cases("loop", nLoop, 0, func(ci int, rng *rand.Rand) {
		seq := c18Gen(rng, 3+rng.Intn(25))
		cP := time.Duration(2+rng.Intn(8)) * time.Second
		qP := time.Duration(1+rng.Intn(3)) * time.Second
		gaps := make([]time.Duration, len(seq))
		for i := range gaps {
			gaps[i] = time.Duration(rng.Intn(2500)) * time.Millisecond
		}
		var viol string
		synctest.Test(t, func(t *testing.T) {
			out := make(chan serf.Event, 1024)
			shut := make(chan struct{})
			in := serf.VerifCoalescedEventCh(out, shut, cP, qP, serf.VerifNewUserCoalescer())
			ref := newC18Ref()
			var quantumEnd, quiescentEnd time.Time
			pendingAny := false
			var wantPass []string
			var gotPass []string
			var gotFlush []serf.Event
			collect := func() {
				for len(out) > 0 {
					e := <-out
					if u, ok := e.(serf.UserEvent); ok && u.Coalesce {
						gotFlush = append(gotFlush, e)
					} else {
						gotPass = append(gotPass, c18Desc(e))
					}
				}
			}
			checkFlush := func(when string) {
				// a flush is due: compare
				want := ref.flush()
				g := c18PerName(gotFlush)
				if fmt.Sprint(g) != fmt.Sprint(want) && viol == "" {
					viol = fmt.Sprintf("%s: flush got %v want %v", when, g, want)
				}
				gotFlush = nil
				pendingAny = false
			}
			for i, tk := range seq {
				if tk.Flush {
					continue // flush points come from timers here
				}
				// advance virtual time by the gap, handling flush instants on the way
				target := time.Now().Add(gaps[i])
				for pendingAny {
					due := quantumEnd
					if quiescentEnd.Before(due) {
						due = quiescentEnd
					}
					if due.After(target) {
						break
					}
					time.Sleep(time.Until(due))
					synctest.Wait()
					collect()
					checkFlush(fmt.Sprintf("timer flush before step %d", i))
				}
				time.Sleep(time.Until(target))
				synctest.Wait()
				collect()
				if len(gotFlush) != 0 && viol == "" {
					viol = fmt.Sprintf("before step %d: coalesced events emitted early: %v", i, c18PerName(gotFlush))
				}
				e := c18Event(tk)
				in <- e
				synctest.Wait()
				if !tk.Other && tk.CC {
					if !pendingAny {
						quantumEnd = time.Now().Add(cP)
						pendingAny = true
					}
					quiescentEnd = time.Now().Add(qP)
					ref.add(tk)
				} else {
					wantPass = append(wantPass, c18Desc(e))
					collect()
					if fmt.Sprint(gotPass) != fmt.Sprint(wantPass) && viol == "" {
						viol = fmt.Sprintf("step %d: pass-through not forwarded immediately/in order: got %v want %v", i, gotPass, wantPass)
					}
				}
			}
			close(shut)
			synctest.Wait()
			collect()
			checkFlush("shutdown flush")
			if fmt.Sprint(gotPass) != fmt.Sprint(wantPass) && viol == "" {
				viol = fmt.Sprintf("end: pass-through got %v want %v", gotPass, wantPass)
			}
		})
		r.Eval(1)
		r.Distinct("loop:" + c18String(seq))
		if viol != "" {
			r.Violation("loop", ci, fmt.Sprintf("%s ; cPeriod=%v qPeriod=%v gaps=%v seq=%s", viol, cP, qP, gaps, c18String(seq)), c18String(seq))
		}
		if ci == 3 {
			r.Sample(map[string]any{"mode": "loop", "seq": c18String(seq), "coalesce": cP.String(), "quiescent": qP.String()})
		}
	})
	r.Finish("random sequences of user events (5 names incl. empty/unicode, LTimes clustered for ties, near 0 and near 2^64), non-user events and flush points; lock-step vs reference, and through the real coalesce loop with virtual-time gaps; non-trivial = a flush with ties or a dropped older event (lock-step) / every loop scenario; distinct by sequence",
		500)
}
