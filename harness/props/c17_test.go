package props

import (
	"fmt"
	"math/rand"
	"sort"
	"strings"
	"testing"

	"github.com/hashicorp/serf/serf"

	"verif/harness/evid"
)

// C17: member event coalescing reports only the latest *new* state of each member.
// The real coalescer (obtained through the verif hook) is run in lock step with a
// reference: pending map cleared at flush, last-reported kind per member.

type c17Tok struct {
	Flush bool
	Name  string
	Kind  serf.EventType
	Ver   int
}

var c17Kinds = []serf.EventType{serf.EventMemberJoin, serf.EventMemberLeave, serf.EventMemberFailed, serf.EventMemberUpdate, serf.EventMemberReap}

type c17Out struct {
	Name string
	Kind serf.EventType
	Ver  string
}

func c17Run(seq []c17Tok) (viol string, flushes int, nontrivial bool) {
	real := serf.VerifNewMemberCoalescer()
	pending := map[string]c17Tok{}
	last := map[string]serf.EventType{}
	hasLast := map[string]bool{}
	out := make(chan serf.Event, 64)
	doFlush := func(step int) string {
		flushes++
		real.Flush(out)
		var got []c17Out
		perMember := map[string]int{}
		for len(out) > 0 {
			e := (<-out).(serf.MemberEvent)
			for _, m := range e.Members {
				got = append(got, c17Out{m.Name, e.Type, m.Tags["v"]})
				perMember[m.Name]++
			}
		}
		var want []c17Out
		for name, p := range pending {
			if hasLast[name] && last[name] == p.Kind && p.Kind != serf.EventMemberUpdate {
				nontrivial = true // suppression exercised
				continue
			}
			want = append(want, c17Out{name, p.Kind, fmt.Sprint(p.Ver)})
			last[name] = p.Kind
			hasLast[name] = true
		}
		if len(pending) == 0 && flushes > 1 {
			nontrivial = true // flush with nothing new
		}
		pending = map[string]c17Tok{}
		srt := func(x []c17Out) {
			sort.Slice(x, func(i, j int) bool {
				if x[i].Name != x[j].Name {
					return x[i].Name < x[j].Name
				}
				return x[i].Ver < x[j].Ver
			})
		}
		srt(got)
		srt(want)
		for n, c := range perMember {
			if c > 1 {
				return fmt.Sprintf("flush #%d (after step %d) reported member %q %d times", flushes, step, n, c)
			}
		}
		if fmt.Sprint(got) != fmt.Sprint(want) {
			return fmt.Sprintf("flush #%d (after step %d): got %v want %v", flushes, step, got, want)
		}
		return ""
	}
	for i, t := range seq {
		if t.Flush {
			if v := doFlush(i); v != "" {
				return v, flushes, nontrivial
			}
			continue
		}
		ev := serf.MemberEvent{Type: t.Kind, Members: []serf.Member{{Name: t.Name, Tags: map[string]string{"v": fmt.Sprint(t.Ver)}}}}
		if !real.Handle(ev) {
			return fmt.Sprintf("step %d: Handle(%v) = false", i, t.Kind), flushes, nontrivial
		}
		real.Coalesce(ev)
		pending[t.Name] = t
	}
	if v := doFlush(len(seq)); v != "" {
		return v, flushes, nontrivial
	}
	return "", flushes, nontrivial
}

func c17String(seq []c17Tok) string {
	var sb strings.Builder
	for _, t := range seq {
		if t.Flush {
			sb.WriteString("| ")
		} else {
			fmt.Fprintf(&sb, "%s:%s#%d ", t.Name, t.Kind, t.Ver)
		}
	}
	return sb.String()
}

// c17Key classifies a failing sequence: the known defect needs an event that
// stays pending across a flush (any non-empty quantum followed by another flush).
func c17Key(seq []c17Tok) string {
	return "flush-mismatch"
}

func TestC17(t *testing.T) {
	r := evid.Start(t, "C17", "exploration")
	names := []string{"a", "b"}
	var syms []c17Tok
	syms = append(syms, c17Tok{Flush: true})
	for _, n := range names {
		for _, k := range c17Kinds {
			syms = append(syms, c17Tok{Name: n, Kind: k})
		}
	}
	maxLen := r.N(5, 6)
	flushCmp := 0
	var rec func(seq []c17Tok)
	total := 0
	reported := 0
	rec = func(seq []c17Tok) {
		if len(seq) > 0 {
			total++
			s2 := make([]c17Tok, len(seq))
			for i := range seq {
				s2[i] = seq[i]
				s2[i].Ver = i
			}
			v, fl, nt := c17Run(s2)
			flushCmp += fl
			if nt {
				r.Distinct(c17String(s2))
			}
			if v != "" {
				if reported < 3 {
					reported++
					r.Violation(c17Key(s2), total, v+" ; sequence: "+c17String(s2), c17String(s2))
				} else {
					r.Violation(c17Key(s2), total, v, nil)
				}
			}
			if total == 4242 {
				r.Sample(c17String(s2))
			}
		}
		if len(seq) == maxLen {
			return
		}
		for _, s := range syms {
			rec(append(seq, s))
		}
	}
	rec(nil)
	r.Count("exhaustive_sequences", total)
	r.Eval(total)

	// random longer sequences over more names
	nRand := r.N(20000, 1000000)
	r.Cases("rand", nRand, 0, func(ci int, rng *rand.Rand) {
		nn := 1 + rng.Intn(5)
		L := 6 + rng.Intn(40)
		seq := make([]c17Tok, L)
		for i := range seq {
			if rng.Intn(4) == 0 {
				seq[i] = c17Tok{Flush: true}
			} else {
				seq[i] = c17Tok{Name: fmt.Sprintf("n%d", rng.Intn(nn)), Kind: c17Kinds[rng.Intn(5)], Ver: i}
			}
		}
		v, fl, nt := c17Run(seq)
		r.Eval(1)
		r.Count("flush_comparisons_random", fl)
		if nt {
			r.Distinct(c17String(seq))
		}
		if v != "" {
			r.Violation(c17Key(seq), ci, v+" ; sequence: "+c17String(seq), c17String(seq))
		}
		if ci == 7 {
			r.Sample(c17String(seq))
		}
	})
	r.Count("flush_comparisons_exhaustive", flushCmp)
	r.Exhaustive(false)
	r.Extra("exhaustive_part", fmt.Sprintf("all sequences of length <= %d over 2 names x 5 kinds + flush", maxLen))
	r.Finish("every token sequence (member event or flush) up to the length bound over 2 names, plus random sequences of 6-45 tokens over 1-5 names; non-trivial = a flush that had to suppress a same-kind event or had nothing new to report; distinct by token sequence",
		1000, "member versions are carried in a tag so that 'latest event' is observable")
}
