package props

import (
	"fmt"
	"math/rand"
	"runtime"
	"strings"
	"sync"
	"sync/atomic"
	"testing"
	"time"

	"github.com/hashicorp/serf/cmd/serf/command/agent"

	"github.com/hashicorp/cli"
	"github.com/hashicorp/logutils"
	"github.com/hashicorp/serf/client"
	"net"
	"regexp"
	"strconv"
	"verif/harness/evid"
)

// C29: agent log lines are delivered completely and in order.
//
// Runs under the race detector (check.sh mode=race); a race report inside the
// agent package is turned into a VIOLATION by check.sh. Independently of the
// detector, every round is judged offline from unique line ids and
// call/return stamps taken from one monotonic counter:
//
//   gate rounds (agent.GatedWriter in front of a recording writer)
//     - every line exactly once in the underlying output;
//     - order: P = lines whose Write returned before Flush was called (written
//       before the gate opened under every reading); L = lines whose Write began
//       after the recorder had already seen a line arrive (the gate was then
//       demonstrably open). Every P line must precede every L line.
//     "free" rounds let writers and Flush race; "held" rounds block the
//     underlying writer on the first drained line, start late writers, then
//     release (the hold is a scheduling aid, never a verdict).
//
//   monitor rounds (agent.NewLogWriter)
//     - a witness handler attached before the first line must see every line
//       exactly once, consistent with real-time order;
//     - a handler attached mid-stream must see exactly witness[k-min(k,size):]
//       for a k that is consistent with the stamps of RegisterHandler.

type c29Arr struct {
	line  string
	stamp int64
}

// c29Rec is the underlying output of the gate.
type c29Rec struct {
	clk       *atomic.Int64
	mu        sync.Mutex
	lines     []c29Arr
	first     atomic.Int64 // stamp of the first arrival (0 = none yet)
	holdFirst bool
	held      chan struct{}
	release   chan struct{}
}

func (w *c29Rec) Write(p []byte) (int, error) {
	st := w.clk.Add(1)
	if w.first.CompareAndSwap(0, st) && w.holdFirst {
		close(w.held)
		<-w.release
	}
	s := string(p)
	w.mu.Lock()
	w.lines = append(w.lines, c29Arr{s, st})
	w.mu.Unlock()
	return len(p), nil
}

type c29Line struct {
	id        string
	call, ret int64
	n         int
	err       error
}

// c29Writer writes k unique lines through w and stamps each call.
func c29Writer(clk *atomic.Int64, w interface{ Write([]byte) (int, error) }, prefix string, k int, yield int, seed int64) []c29Line {
	lr := rand.New(rand.NewSource(seed))
	out := make([]c29Line, 0, k)
	for i := 0; i < k; i++ {
		id := fmt.Sprintf("%s-%03d", prefix, i)
		p := []byte(id + "\n")
		c := clk.Add(1)
		n, err := w.Write(p)
		rt := clk.Add(1)
		out = append(out, c29Line{id: id, call: c, ret: rt, n: n, err: err})
		if yield > 0 && lr.Intn(yield) == 0 {
			runtime.Gosched()
		}
	}
	return out
}

type c29GateResult struct {
	viol    map[string]string // key -> message
	nP, nL  int
	overlap int
	lost    int
	total   int
}

// c29JudgeGate is the offline oracle of a gate round.
func c29JudgeGate(all []c29Line, rec *c29Rec, flushCall, flushRet int64) c29GateResult {
	res := c29GateResult{viol: map[string]string{}, total: len(all)}
	pos := map[string][]int{}
	known := map[string]bool{}
	for _, l := range all {
		known[l.id] = true
		if l.err != nil || l.n != len(l.id)+1 {
			res.viol["gate-write-result"] = fmt.Sprintf("Write(%q) returned n=%d err=%v", l.id+"\n", l.n, l.err)
		}
	}
	rec.mu.Lock()
	out := append([]c29Arr(nil), rec.lines...)
	rec.mu.Unlock()
	for i, a := range out {
		id := strings.TrimSuffix(a.line, "\n")
		if !known[id] || !strings.HasSuffix(a.line, "\n") {
			res.viol["gate-line-corrupt"] = fmt.Sprintf("underlying output position %d holds %q, which was never written", i, a.line)
			continue
		}
		pos[id] = append(pos[id], i)
	}
	first := rec.first.Load()
	maxP, maxPid := -1, ""
	minL, minLid := len(out)+1, ""
	for _, l := range all {
		ps := pos[l.id]
		switch {
		case len(ps) == 0:
			res.lost++
			if _, ok := res.viol["gate-line-lost"]; !ok {
				when := "concurrently with Flush"
				if l.ret < flushCall {
					when = "before Flush was called"
				} else if l.call > flushRet {
					when = "after Flush returned"
				}
				res.viol["gate-line-lost"] = fmt.Sprintf("line %q (Write returned n=%d, %s) never reached the underlying writer", l.id, l.n, when)
			}
			continue
		case len(ps) > 1:
			res.viol["gate-line-duplicated"] = fmt.Sprintf("line %q reached the underlying writer %d times (positions %v)", l.id, len(ps), ps)
		}
		isP := l.ret < flushCall
		isL := first != 0 && l.call > first
		if isP {
			res.nP++
			if ps[len(ps)-1] > maxP {
				maxP, maxPid = ps[len(ps)-1], l.id
			}
		} else if isL {
			res.nL++
			if ps[0] < minL {
				minL, minLid = ps[0], l.id
			}
		} else {
			res.overlap++
		}
	}
	if maxP >= 0 && minLid != "" && maxP > minL {
		res.viol["gate-order"] = fmt.Sprintf("line %q (its Write returned before Flush was called) is at output position %d, after line %q at position %d whose Write began when the gate was already observed open", maxPid, maxP, minLid, minL)
	}
	if res.lost > 1 {
		res.viol["gate-line-lost"] += fmt.Sprintf(" (%d of %d lines lost in this round)", res.lost, len(all))
	}
	return res
}

// c29Handler records the lines a log monitor receives.
type c29Handler struct {
	mu   sync.Mutex
	seen []string
}

func (h *c29Handler) HandleLog(s string) {
	h.mu.Lock()
	h.seen = append(h.seen, s)
	h.mu.Unlock()
}
func (h *c29Handler) snapshot() []string {
	h.mu.Lock()
	defer h.mu.Unlock()
	return append([]string(nil), h.seen...)
}

// c29RealAgent: the agent as `serf agent` starts it (Command.Run: its own ring buffer, IPC listener
// and monitor streams, loopback TCP), log level DEBUG. n user events are sent through the RPC
// interface (one uniquely numbered log line each), the log goes quiet, a monitor attaches, goes
// quiet, then m more events follow. What the monitor received must be: the most recent buffered
// lines, oldest first, ending with the newest line written before it attached (whatever the buffer
// size is), and then every later line once - i.e. the numbered lines it saw are a gap-free,
// duplicate-free, increasing run that ends with the very last event.
func c29RealAgent(n, m int) (viol string, stats map[string]int, inconclusive string) {
	stats = map[string]int{}
	freePort := func() int {
		l, err := net.Listen("tcp", "127.0.0.1:0")
		if err != nil {
			return 0
		}
		defer l.Close()
		return l.Addr().(*net.TCPAddr).Port
	}
	bind, rpc := freePort(), freePort()
	if bind == 0 || rpc == 0 {
		return "", stats, "no free loopback port"
	}
	shutdown := make(chan struct{})
	ui := cli.NewMockUi()
	cmd := &agent.Command{Ui: ui, ShutdownCh: shutdown}
	done := make(chan int, 1)
	go func() {
		done <- cmd.Run([]string{"-bind", fmt.Sprintf("127.0.0.1:%d", bind), "-rpc-addr", fmt.Sprintf("127.0.0.1:%d", rpc), "-node", fmt.Sprintf("c29-%d", bind), "-log-level", "debug"})
	}()
	defer func() {
		close(shutdown)
		select {
		case <-done:
		case <-time.After(30 * time.Second):
		}
	}()
	var cl *client.RPCClient
	var err error
	for i := 0; i < 200; i++ {
		cl, err = client.NewRPCClient(fmt.Sprintf("127.0.0.1:%d", rpc))
		if err == nil {
			break
		}
		select {
		case rc := <-done:
			done <- rc
			return "", stats, fmt.Sprintf("agent exited with %d before its RPC port opened: %s", rc, c10Trunc(ui.ErrorWriter.String(), 300))
		default:
		}
		time.Sleep(50 * time.Millisecond)
	}
	if err != nil {
		return "", stats, "cannot connect to the agent: " + err.Error()
	}
	defer cl.Close()
	send := func(from, to int) string {
		for i := from; i < to; i++ {
			if err := cl.UserEvent(fmt.Sprintf("c29ev-%06d", i), nil, false); err != nil {
				return err.Error()
			}
		}
		return ""
	}
	if e := send(0, n); e != "" {
		return "", stats, "user event: " + e
	}
	time.Sleep(300 * time.Millisecond)
	logCh := make(chan string, 1<<16)
	var mu sync.Mutex
	var got []int
	lines := 0
	lastAt := time.Now()
	re := regexp.MustCompile(`Requesting user event send: c29ev-(\d{6})\.`)
	stopRead := make(chan struct{})
	readDone := make(chan struct{})
	go func() {
		defer close(readDone)
		for {
			select {
			case l := <-logCh:
				mu.Lock()
				lines++
				lastAt = time.Now()
				if mm := re.FindStringSubmatch(l); mm != nil {
					k, _ := strconv.Atoi(mm[1])
					got = append(got, k)
				}
				mu.Unlock()
			case <-stopRead:
				return
			}
		}
	}()
	h, err := cl.Monitor(logutils.LogLevel("DEBUG"), logCh)
	if err != nil {
		close(stopRead)
		return "", stats, "monitor: " + err.Error()
	}
	idle := func(max time.Duration) {
		deadline := time.Now().Add(max)
		for time.Now().Before(deadline) {
			mu.Lock()
			q := time.Since(lastAt)
			mu.Unlock()
			if q > 400*time.Millisecond {
				return
			}
			time.Sleep(50 * time.Millisecond)
		}
	}
	idle(20 * time.Second)
	mu.Lock()
	backlog := append([]int(nil), got...)
	stats["backlog_lines_received"] = lines
	mu.Unlock()
	if e := send(n, n+m); e != "" {
		close(stopRead)
		return "", stats, "user event: " + e
	}
	// wait for the very last event's line (watchdog: inconclusive)
	deadline := time.Now().Add(30 * time.Second)
	for {
		mu.Lock()
		seenLast := len(got) > 0 && got[len(got)-1] == n+m-1
		mu.Unlock()
		if seenLast || time.Now().After(deadline) {
			break
		}
		time.Sleep(20 * time.Millisecond)
	}
	idle(5 * time.Second)
	_ = cl.Stop(h)
	close(stopRead)
	<-readDone
	stats["events_before_attach"], stats["events_after_attach"] = n, m
	stats["numbered_backlog_lines"] = len(backlog)
	stats["numbered_lines_received"] = len(got)
	if len(got) == 0 || got[len(got)-1] != n+m-1 {
		return "", stats, fmt.Sprintf("the line of the last event never reached the monitor (received %d numbered lines)", len(got))
	}
	if n > 0 {
		if len(backlog) == 0 {
			return fmt.Sprintf("%d events were logged before the monitor attached; it received none of their lines (%d backlog lines in all)", n, stats["backlog_lines_received"]), stats, ""
		}
		if backlog[len(backlog)-1] != n-1 {
			return fmt.Sprintf("%d events were logged before the monitor attached; the replay it received covers events %d..%d of them: the most recent lines (up to event %d) are missing", n, backlog[0], backlog[len(backlog)-1], n-1), stats, ""
		}
	}
	for i := 1; i < len(got); i++ {
		if got[i] != got[i-1]+1 {
			return fmt.Sprintf("the monitor (attached after %d events, %d more followed) received the line of event %d right after that of event %d: not every line exactly once and in order (replay covered %d..%d)", n, m, got[i], got[i-1], backlog[0], backlog[len(backlog)-1]), stats, ""
		}
	}
	return "", stats, ""
}

func TestC29(t *testing.T) {
	r := evid.Start(t, "C29", "exploration")
	report := func(kind string, ci int, viol map[string]string, wit any) {
		for k, m := range viol {
			r.Count("violations_"+k, 1)
			r.Violation(k, ci, kind+" round: "+m, wit)
		}
	}

	// ---------------- gate, free-running
	nFree := r.N(1500, 40000)
	r.Cases("gate-free", nFree, 4, func(ci int, rng *rand.Rand) {
		var clk atomic.Int64
		rec := &c29Rec{clk: &clk}
		gw := &agent.GatedWriter{Writer: rec}
		W := 2 + rng.Intn(7)
		K := 5 + rng.Intn(40)
		yield := []int{0, 2, 8}[rng.Intn(3)]
		flushAfter := rng.Intn(W * K) // stamps: Flush is called when the clock passes this many writes (0 = at once)
		if rng.Intn(6) == 0 {
			flushAfter = W*K + 1 // only after everything was written
		}
		res := make([][]c29Line, W)
		var wg sync.WaitGroup
		start := make(chan struct{})
		for g := 0; g < W; g++ {
			wg.Add(1)
			seed := rng.Int63()
			go func(g int) {
				defer wg.Done()
				<-start
				res[g] = c29Writer(&clk, gw, fmt.Sprintf("f%d-w%d", ci, g), K, yield, seed)
			}(g)
		}
		var fc, fr int64
		writersDone := make(chan struct{})
		fdone := make(chan struct{})
		go func() {
			defer close(fdone)
			<-start
			for clk.Load() < int64(2*flushAfter) {
				select {
				case <-writersDone:
					goto flush
				default:
					runtime.Gosched()
				}
			}
		flush:
			fc = clk.Add(1)
			gw.Flush()
			fr = clk.Add(1)
		}()
		close(start)
		wg.Wait()
		close(writersDone)
		<-fdone
		// sometimes a second Flush (idempotent API): nothing may come out twice
		if rng.Intn(4) == 0 {
			gw.Flush()
			r.Count("gate_second_flush_calls", 1)
		}
		// a few lines after everything settled: must simply pass through
		tail := c29Writer(&clk, gw, fmt.Sprintf("f%d-tail", ci), 2, 0, 1)
		var all []c29Line
		for _, x := range res {
			all = append(all, x...)
		}
		all = append(all, tail...)
		j := c29JudgeGate(all, rec, fc, fr)
		r.Eval(1)
		r.Count("gate_lines_written", j.total)
		r.Count("gate_lines_before_flush", j.nP)
		r.Count("gate_lines_after_gate_open", j.nL)
		r.Count("gate_lines_overlapping_flush", j.overlap)
		r.Count("gate_lines_lost", j.lost)
		if j.nP > 0 && j.nL > 0 {
			r.Distinct(fmt.Sprintf("free|W%d|K%d|P%d|L%d|O%d", W, K, j.nP, j.nL, j.overlap))
		}
		report("gate/free", ci, j.viol, map[string]any{"writers": W, "lines_per_writer": K, "before_flush": j.nP, "after_open": j.nL, "overlap": j.overlap, "lost": j.lost})
		if ci == 0 {
			r.Sample(map[string]any{"kind": "gate-free", "writers": W, "lines_per_writer": K, "before_flush": j.nP, "after_open": j.nL, "overlapping_flush": j.overlap, "lost": j.lost})
		}
	})

	// ---------------- gate, Flush held mid-drain
	nHeld := r.N(1000, 20000)
	r.Cases("gate-held", nHeld, 4, func(ci int, rng *rand.Rand) {
		var clk atomic.Int64
		rec := &c29Rec{clk: &clk, holdFirst: true, held: make(chan struct{}), release: make(chan struct{})}
		gw := &agent.GatedWriter{Writer: rec}
		preW := 1
		if rng.Intn(2) == 0 {
			preW = 2 + rng.Intn(5)
		}
		preK := 2 + rng.Intn(20)
		lateW := 1 + rng.Intn(4)
		lateK := 1 + rng.Intn(6)
		pre := make([][]c29Line, preW)
		var wg sync.WaitGroup
		for g := 0; g < preW; g++ {
			wg.Add(1)
			seed := rng.Int63()
			go func(g int) {
				defer wg.Done()
				pre[g] = c29Writer(&clk, gw, fmt.Sprintf("h%d-pre%d", ci, g), preK, 4, seed)
			}(g)
		}
		wg.Wait()
		var fc, fr int64
		fdone := make(chan struct{})
		go func() {
			defer close(fdone)
			fc = clk.Add(1)
			gw.Flush()
			fr = clk.Add(1)
		}()
		holdSeen := false
		select {
		case <-rec.held:
			holdSeen = true
		case <-fdone: // nothing was drained (all pre-gate lines were lost): no hold point
		case <-time.After(20 * time.Second):
			r.Inconclusive("held round: Flush neither reached the underlying writer nor returned within 20 s")
		}
		late := make([][]c29Line, lateW)
		lateDone := make(chan struct{})
		var lwg sync.WaitGroup
		for g := 0; g < lateW; g++ {
			lwg.Add(1)
			seed := rng.Int63()
			go func(g int) {
				defer lwg.Done()
				late[g] = c29Writer(&clk, gw, fmt.Sprintf("h%d-late%d", ci, g), lateK, 0, seed)
			}(g)
		}
		go func() { lwg.Wait(); close(lateDone) }()
		// let the late writers run into the gate (or through it), then let the drain go on
		select {
		case <-lateDone:
		case <-time.After(2 * time.Millisecond):
		}
		close(rec.release)
		<-lateDone
		<-fdone
		var all []c29Line
		for _, x := range pre {
			all = append(all, x...)
		}
		for _, x := range late {
			all = append(all, x...)
		}
		j := c29JudgeGate(all, rec, fc, fr)
		r.Eval(1)
		r.Count("gate_lines_written", j.total)
		r.Count("gate_lines_before_flush", j.nP)
		r.Count("gate_lines_after_gate_open", j.nL)
		r.Count("gate_lines_overlapping_flush", j.overlap)
		r.Count("gate_lines_lost", j.lost)
		if holdSeen {
			r.Count("held_rounds_with_flush_blocked_mid_drain", 1)
			if j.nP > 0 && j.nL > 0 {
				r.Distinct(fmt.Sprintf("held|pw%d|pk%d|lw%d|lk%d|P%d|L%d", preW, preK, lateW, lateK, j.nP, j.nL))
			}
		}
		report("gate/held", ci, j.viol, map[string]any{"pre_writers": preW, "pre_lines_each": preK, "late_writers": lateW, "late_lines_each": lateK,
			"schedule": "pre-gate writers finish; Flush is called and blocked inside the underlying writer on the first drained line; late writers start; the underlying writer is released", "lost": j.lost})
		if ci == 0 {
			r.Sample(map[string]any{"kind": "gate-held", "pre_writers": preW, "pre_lines_each": preK, "late_writers": lateW, "before_flush": j.nP, "after_open": j.nL, "lost": j.lost})
		}
	})

	// ---------------- log monitor replay
	nMon := r.N(1500, 40000)
	r.Cases("monitor", nMon, 4, func(ci int, rng *rand.Rand) {
		var clk atomic.Int64
		size := []int{1, 2, 3, 4, 8, 16, 64, 512}[rng.Intn(8)]
		lw := agent.NewLogWriter(size)
		h0 := &c29Handler{}
		lw.RegisterHandler(h0)
		W := 1 + rng.Intn(6)
		K := 3 + rng.Intn(40)
		preK := rng.Intn(2 * size)
		if preK > 200 {
			preK = 200
		}
		viol := map[string]string{}
		// sequential prefix (fills / wraps the ring before anything is concurrent)
		all := c29Writer(&clk, lw, fmt.Sprintf("m%d-pre", ci), preK, 0, 1)
		res := make([][]c29Line, W)
		var wg sync.WaitGroup
		start := make(chan struct{})
		for g := 0; g < W; g++ {
			wg.Add(1)
			seed := rng.Int63()
			go func(g int) {
				defer wg.Done()
				<-start
				res[g] = c29Writer(&clk, lw, fmt.Sprintf("m%d-w%d", ci, g), K, 3, seed)
			}(g)
		}
		h1 := &c29Handler{}
		regAfter := int64(2 * (preK + rng.Intn(W*K+1)))
		var rc, rr int64
		rdone := make(chan struct{})
		writersDone := make(chan struct{})
		go func() {
			defer close(rdone)
			<-start
			for clk.Load() < regAfter {
				select {
				case <-writersDone:
					goto reg
				default:
					runtime.Gosched()
				}
			}
		reg:
			rc = clk.Add(1)
			lw.RegisterHandler(h1)
			rr = clk.Add(1)
		}()
		close(start)
		wg.Wait()
		close(writersDone)
		<-rdone
		all = append(all, c29Writer(&clk, lw, fmt.Sprintf("m%d-tail", ci), 1+rng.Intn(3), 0, 1)...)
		for _, x := range res {
			all = append(all, x...)
		}
		// witness: exactly once + real-time order
		s0 := h0.snapshot()
		p0 := map[string]int{}
		for i, s := range s0 {
			if _, dup := p0[s]; dup {
				viol["monitor-line-duplicated"] = fmt.Sprintf("handler attached from the start received %q twice", s)
			}
			p0[s] = i
		}
		byID := map[string]c29Line{}
		for _, l := range all {
			byID[l.id] = l
			if l.err != nil || l.n != len(l.id)+1 {
				viol["monitor-write-result"] = fmt.Sprintf("Write(%q) returned n=%d err=%v", l.id+"\n", l.n, l.err)
			}
			if _, ok := p0[l.id]; !ok {
				viol["monitor-line-lost"] = fmt.Sprintf("handler attached from the start never received %q", l.id)
			}
		}
		if len(s0) != len(all) && len(viol) == 0 {
			viol["monitor-line-corrupt"] = fmt.Sprintf("handler attached from the start received %d lines, %d were written", len(s0), len(all))
		}
		if len(viol) == 0 {
			// real-time order: an entry X that comes after an entry Y in the witness
			// although X's Write had returned before Y's Write began is an inversion
			maxCall := int64(-1)
			maxCallID := ""
			for i := 0; i < len(s0); i++ {
				x := byID[s0[i]]
				if maxCall > x.ret {
					viol["monitor-order"] = fmt.Sprintf("witness handler received %q before %q although the Write of the latter had returned before the Write of the former began", maxCallID, x.id)
					break
				}
				if x.call > maxCall {
					maxCall, maxCallID = x.call, x.id
				}
			}
		}
		// late handler
		s1 := h1.snapshot()
		kmin, kmax := 0, 0
		for _, l := range all {
			if l.ret < rc {
				kmin++
			}
			if l.call < rr {
				kmax++
			}
		}
		total := len(s0)
		kUsed := -1
		if len(viol) == 0 {
			if len(s1) > total {
				viol["monitor-replay"] = fmt.Sprintf("late handler received %d lines, only %d were ever written", len(s1), total)
			} else {
				off := total - len(s1)
				for i := range s1 {
					if s1[i] != s0[off+i] {
						viol["monitor-replay"] = fmt.Sprintf("late handler's line %d is %q; the accepted order has %q there (buffer size %d, %d lines in total, handler got %d)", i, s1[i], s0[off+i], size, total, len(s1))
						break
					}
				}
				if len(viol) == 0 {
					// len(s1) = min(k,size) + total-k  for the attachment point k
					if len(s1) == total {
						// k <= size
						if kmin > size {
							viol["monitor-replay"] = fmt.Sprintf("late handler received all %d lines although at least %d lines had been written before it attached and the buffer holds %d", total, kmin, size)
						}
						kUsed = kmin
					} else {
						k := total - len(s1) + size
						kUsed = k
						if k < size || k < kmin || k > kmax {
							viol["monitor-replay"] = fmt.Sprintf("late handler received %d of %d lines (buffer %d): that is attachment after %d lines, but the stamps say between %d and %d lines were written when it attached", len(s1), total, size, k, kmin, kmax)
						}
					}
				}
			}
		}
		r.Eval(1)
		r.Count("monitor_lines_written", len(all))
		r.Count("monitor_lines_replayed_or_streamed_to_late_handler", len(s1))
		if kUsed > size {
			r.Count("monitor_rounds_ring_wrapped_at_attach", 1)
		}
		if kmin != kmax {
			r.Count("monitor_rounds_attach_concurrent_with_writes", 1)
		}
		if kUsed > 0 && kUsed < total {
			r.Distinct(fmt.Sprintf("mon|size%d|W%d|K%d|pre%d|k%d|n%d", size, W, K, preK, kUsed, len(s1)))
		}
		report("monitor", ci, viol, map[string]any{"buffer": size, "writers": W, "lines_each": K, "sequential_prefix": preK, "attach_between": []int{kmin, kmax}, "late_handler_lines": len(s1), "total": total})
		if ci == 0 {
			r.Sample(map[string]any{"kind": "monitor", "buffer": size, "writers": W, "lines_each": K, "sequential_prefix": preK, "attach_between": []int{kmin, kmax}, "late_handler_lines": len(s1), "total": total})
		}
	})
	if r.Counter("held_rounds_with_flush_blocked_mid_drain") == 0 {
		r.Inconclusive("Flush was never held mid-drain")
	}
	// ---------------- the agent as the command starts it
	r.Cases("agent", r.N(6, 60), 3, func(ci int, rng *rand.Rand) {
		n := []int{0, 40, 300, 700, 1300, 2500}[rng.Intn(6)]
		m := 5 + rng.Intn(60)
		viol, stats, inc := c29RealAgent(n, m)
		r.Eval(1)
		for k, v := range stats {
			r.Count("agent_"+k, v)
		}
		if inc != "" {
			r.Inconclusive(fmt.Sprintf("agent case %d: %s", ci, inc))
			return
		}
		if n > 0 {
			r.Distinct(fmt.Sprintf("agent/%d/%d", n, m))
		}
		if viol != "" {
			r.Violation("agent-monitor", ci, viol, map[string]any{"events_before_attach": n, "events_after_attach": m})
		}
	})
	r.Finish("gate/free: 2-8 writers x 5-44 unique lines racing one Flush issued after a random number of writes; gate/held: 1-6 pre-gate writers finish, Flush is blocked inside the underlying writer on the first drained line, 1-4 late writers start, then the writer is released; monitor: ring of 1..512 lines, sequential prefix, 1-6 concurrent writers, one handler attached from the start (witness) and one attached after a random number of writes; agent: the real `serf agent` command on loopback TCP at log level DEBUG, 0-2500 numbered user events through RPC, then a monitor attaches (client.Monitor), then 5-64 more events: the numbered lines it receives must be a gap-free run ending with the newest line before the attachment and then every later line. distinct = round shapes (writers, lines, #before-flush, #after-open / attachment point) of rounds that had lines on both sides of the gate opening / attachment",
		r.N(500, 10000),
		"the race detector must be on (check.sh mode=race); reports inside the agent package are attributed by check.sh",
		"empty log lines are not generated (the log package never emits them)",
		"the 2 ms wait before the held writer is released only shapes the schedule; no verdict depends on it")
}
