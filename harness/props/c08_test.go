package props

import (
	"bytes"
	"fmt"
	"math/rand"
	"regexp"
	"strings"
	"testing"
	"testing/synctest"
	"time"

	"github.com/hashicorp/serf/serf"

	"verif/harness/cluster"
	"verif/harness/evid"
	"verif/harness/simnet"
	"verif/harness/wire"
)

// C08: queries reach exactly the nodes their filters select.
//
// A real node (generated name and tags, passive memberlist so that the harness
// owns the broadcast queues) receives generated queries from a puppet origin,
// each one twice. The harness evaluates the filter list independently and
// compares with what the node did: delivery on EventCh, ack at the origin,
// re-queueing for gossip, at-most-once, internal-prefix interception.
//
// Zero-length filters are NOT generated here: they crash shouldProcessQuery
// on the unchanged tree and belong to C09.

type c08Query struct {
	M       wire.MsgQuery
	Raw     []byte
	Desc    []string // human-readable filters
	Sel     bool     // harness's verdict: filters select the node
	Intern  bool
	ViaSend bool
	Class   string // dominant filter class for the violation key
}

var c08Internal = []string{"_serf_ping", "_serf_conflict", "_serf_install-key", "_serf_use-key", "_serf_remove-key", "_serf_list-keys", "_serf_unknown", "_serf_"}
var c08AppNames = []string{"deploy", "q", "", "_serf", "_SERF_ping", "serf_ping", "_serfx", "x_serf_ping", " _serf_ping", "_serf-ping"}

// c08Select is the independent filter evaluation (DESIGN C08/O).
func c08Select(filters [][]byte, node string, tags map[string]string) bool {
	for _, f := range filters {
		if len(f) == 0 {
			return false
		}
		switch f[0] {
		case wire.FilterNode:
			var names []string
			if err := wire.Decode(f[1:], &names); err != nil {
				return false
			}
			found := false
			for _, n := range names {
				if n == node {
					found = true
				}
			}
			if !found {
				return false
			}
		case wire.FilterTag:
			var ft wire.FilterTagT
			if err := wire.Decode(f[1:], &ft); err != nil {
				return false
			}
			ok, err := regexp.MatchString(ft.Expr, tags[ft.Tag]) // missing tag = ""
			if err != nil || !ok {
				return false
			}
		default:
			return false
		}
	}
	return true
}

func c08Regex(rng *rand.Rand, val string, depth int) string {
	atoms := []string{"web", "db", "w", "e", "-", "1", ".", "[a-z]+", "[^0-9]", "\\d+", "\\w*", "[[:alpha:]]", "us", "v1", "\\.", "[a-c]", "x"}
	if val != "" && rng.Intn(3) == 0 {
		i := rng.Intn(len(val))
		j := i + 1 + rng.Intn(len(val)-i)
		return regexp.QuoteMeta(val[i:j])
	}
	if depth <= 0 || rng.Intn(3) == 0 {
		return atoms[rng.Intn(len(atoms))]
	}
	switch rng.Intn(7) {
	case 0:
		return c08Regex(rng, val, depth-1) + c08Regex(rng, val, depth-1)
	case 1:
		return c08Regex(rng, val, depth-1) + "|" + c08Regex(rng, val, depth-1)
	case 2:
		return "(" + c08Regex(rng, val, depth-1) + ")" + []string{"*", "+", "?", "{2}", "{0,1}"}[rng.Intn(5)]
	case 3:
		return "^" + c08Regex(rng, val, depth-1)
	case 4:
		return c08Regex(rng, val, depth-1) + "$"
	case 5:
		return "(?i)" + c08Regex(rng, val, depth-1)
	default:
		return "^(" + c08Regex(rng, val, depth-1) + ")$"
	}
}

var c08BadRegex = []string{"(", ")", "[a", "*a", "a{2,1}", "\\", "(?P<n", "a**", "[z-a]", "(?z)", "\\8", "a{1001}", "\xff"}

func c08TagExpr(rng *rand.Rand, val string) (expr, class string) {
	switch x := rng.Intn(100); {
	case x < 12:
		return c08BadRegex[rng.Intn(len(c08BadRegex))], "tag-invalid-regex"
	case x < 24:
		return "^" + regexp.QuoteMeta(val) + "$", "tag-exact"
	case x < 32:
		if val != "" {
			return "^" + regexp.QuoteMeta(val[:1+rng.Intn(len(val))]), "tag-prefix"
		}
		return "^$", "tag-empty"
	case x < 40:
		b := []byte(val + "z")
		b[rng.Intn(len(b))] ^= 1
		return "^" + regexp.QuoteMeta(string(b)) + "$", "tag-near-miss"
	case x < 43:
		return "", "tag-empty-expr"
	case x < 47:
		return val, "tag-value-as-expression" // the tag's value spelled out as the pattern: still a pattern
	case x < 51:
		return strings.ToUpper(val), "tag-case"
	default:
		return c08Regex(rng, val, 3), "tag-grammar"
	}
}

func c08GenQuery(rng *rand.Rand, node string, tags map[string]string, tagKeys []string, origin *cluster.Puppet, ltime uint64) *c08Query {
	q := &c08Query{}
	m := &q.M
	m.LTime = ltime
	m.ID = rng.Uint32()
	m.Addr = []byte(origin.Tr.IP().To4())
	m.Port = uint16(origin.Tr.Port())
	m.SourceNode = origin.Name
	m.Timeout = 5 * time.Second
	if rng.Intn(4) == 0 {
		m.Name = c08Internal[rng.Intn(len(c08Internal))]
	} else {
		m.Name = c08AppNames[rng.Intn(len(c08AppNames))]
	}
	q.Intern = strings.HasPrefix(m.Name, "_serf_")
	m.Payload = make([]byte, 1+rng.Intn(8)) // never empty: empty key-query payloads belong to C09
	rng.Read(m.Payload)
	if m.Name == "_serf_conflict" {
		m.Payload = []byte([]string{node, "someone-else", origin.Name}[rng.Intn(3)])
	}
	if rng.Intn(2) == 0 {
		m.Flags |= wire.FlagAck
	}
	if rng.Intn(3) == 0 {
		m.Flags |= wire.FlagNoBroadcast
	}
	if rng.Intn(10) == 0 {
		m.Flags |= []uint32{4, 8, 1 << 31}[rng.Intn(3)]
	}
	nameVariants := []string{node, node, node, node[:len(node)-1], node + "x", "", strings.ToUpper(node), " " + node, "other", origin.Name, node + "\x00"}
	nf := []int{0, 0, 1, 1, 1, 2, 2, 3, 4}[rng.Intn(9)]
	q.Class = "nofilter"
	for i := 0; i < nf; i++ {
		switch x := rng.Intn(100); {
		case x < 35:
			n := rng.Intn(5)
			names := make([]string, n)
			for k := range names {
				names[k] = nameVariants[rng.Intn(len(nameVariants))]
			}
			m.Filters = append(m.Filters, wire.EncodeFilterNodes(names))
			q.Desc = append(q.Desc, fmt.Sprintf("nodes%q", names))
			q.Class = "nodes"
		case x < 80:
			key := tagKeys[rng.Intn(len(tagKeys))]
			expr, class := c08TagExpr(rng, tags[key])
			m.Filters = append(m.Filters, wire.EncodeFilterTag(key, expr))
			q.Desc = append(q.Desc, fmt.Sprintf("tag(%q~%q)", key, expr))
			q.Class = class
		case x < 90: // undecodable body behind a valid type byte
			var f []byte
			switch rng.Intn(3) {
			case 0:
				f = []byte{byte(rng.Intn(2))}
			case 1:
				f = append([]byte{byte(rng.Intn(2))}, make([]byte, 1+rng.Intn(6))...)
				rng.Read(f[1:])
			default:
				full := wire.EncodeFilterTag("role", "^web$")
				if rng.Intn(2) == 0 {
					full = wire.EncodeFilterNodes([]string{node, "other"})
				}
				f = full[:1+rng.Intn(len(full)-1)]
			}
			m.Filters = append(m.Filters, f)
			q.Desc = append(q.Desc, fmt.Sprintf("raw(%x)", f))
			q.Class = "raw"
		default: // unknown filter type
			t := byte(2 + rng.Intn(254))
			var f []byte
			switch rng.Intn(3) {
			case 0:
				f = []byte{t}
			case 1:
				f = append([]byte{t}, wire.EncodeFilterNodes([]string{node})[1:]...)
			default:
				f = append([]byte{t}, wire.EncodeFilterTag("role", ".*")[1:]...)
			}
			m.Filters = append(m.Filters, f)
			q.Desc = append(q.Desc, fmt.Sprintf("unknown-type(%x)", f))
			q.Class = "unknown-type"
		}
	}
	q.Raw = wire.Encode(wire.Query, m)
	q.Sel = c08Select(m.Filters, node, tags)
	q.ViaSend = rng.Intn(3) != 0
	return q
}

type c08Obs struct {
	Delivered int
	Acks      int
	BadAck    string
	Queued    int
	QueueStat string
}

func TestC08(t *testing.T) {
	r := evid.Start(t, "C08", "exploration")
	nBubbles := r.N(960, 24000)
	perBubble := r.N(25, 50)
	nodeNames := []string{"n1", "web-01", "Node.A", "ab"}
	tagKeyPool := []string{"role", "dc", "ver", "x y", "ROLE", ""}
	// (the last five do not match themselves when read as an expression, "c++" does not even compile)
	tagValPool := []string{"web", "db", "web-1", "", "a|b", "us-east", "v1.2.3", "Web", "(x)", "w", "c++", "web(1)", "^east", "$5", "a+b"}

	r.Cases("bubble", nBubbles, 0, func(ci int, rng *rand.Rand) {
		node := nodeNames[rng.Intn(len(nodeNames))]
		tags := map[string]string{}
		for i := rng.Intn(5); i > 0; i-- {
			tags[tagKeyPool[rng.Intn(len(tagKeyPool))]] = tagValPool[rng.Intn(len(tagValPool))]
		}
		type viol struct {
			key, msg string
			w        any
		}
		var viols []viol
		var setupErr string
		counts := map[string]int{}
		var sigs []string
		var sample any
		synctest.Test(t, func(t *testing.T) {
			nw := simnet.New(int64(ci))
			nd, err := cluster.Start(nw, cluster.Opts{Name: node, IP: "10.8.0.1", Profile: "passive", Tags: tags})
			if err != nil {
				setupErr = "start: " + err.Error()
				return
			}
			defer nd.Close()
			p, err := cluster.StartPuppet(nw, cluster.PuppetOpts{Name: "origin", IP: "10.8.0.9", Profile: "passive"})
			if err != nil {
				setupErr = "puppet: " + err.Error()
				return
			}
			defer p.Close()
			if _, err := p.ML.Join([]string{nd.Addr}); err != nil {
				setupErr = "join: " + err.Error()
				return
			}
			synctest.Wait()
			nd.DrainBroadcasts()
			evSeen, msgSeen := 0, 0
			observe := func(q *c08Query) c08Obs {
				synctest.Wait()
				var o c08Obs
				evs := nd.Events()
				for _, le := range evs[evSeen:] {
					if sq, ok := le.E.(*serf.Query); ok {
						if uint64(sq.LTime) == q.M.LTime && sq.Name == q.M.Name && bytes.Equal(sq.Payload, q.M.Payload) {
							o.Delivered++
						} else {
							o.BadAck += fmt.Sprintf("unexpected query event %q ltime %d; ", sq.Name, sq.LTime)
						}
						if strings.HasPrefix(sq.Name, "_serf_") {
							o.BadAck += fmt.Sprintf("internal query %q handed to the application; ", sq.Name)
						}
					}
				}
				evSeen = len(evs)
				msgs := p.Received()
				for _, b := range msgs[msgSeen:] {
					if len(b) == 0 || b[0] != wire.QueryResponse {
						continue
					}
					var resp wire.MsgQueryResponse
					if wire.Decode(b[1:], &resp) != nil {
						continue
					}
					if resp.Flags&wire.FlagAck == 0 {
						counts["responses_from_internal_handlers"]++
						continue
					}
					o.Acks++
					if resp.LTime != q.M.LTime || resp.ID != q.M.ID || resp.From != node {
						o.BadAck += fmt.Sprintf("ack fields ltime=%d id=%d from=%q do not match query ltime=%d id=%d node=%q; ", resp.LTime, resp.ID, resp.From, q.M.LTime, q.M.ID, node)
					}
				}
				msgSeen = len(msgs)
				o.QueueStat = nd.S.Stats()["query_queue"]
				first := nd.ML.Delegate.GetBroadcasts(0, 1<<30)
				for _, b := range first {
					if bytes.Equal(b, q.Raw) {
						o.Queued++
					} else if len(b) > 0 && b[0] == wire.Query {
						o.BadAck += "a different query message was queued for gossip; "
					}
				}
				nd.DrainBroadcasts()
				return o
			}
			deliver := func(q *c08Query) {
				if q.ViaSend {
					_ = p.Send(nd.Addr, nd.Name, q.Raw)
				} else {
					nd.NotifyMsg(q.Raw)
				}
			}
			var tagKeys []string
			for k := range tags {
				tagKeys = append(tagKeys, k)
			}
			tagKeys = append(tagKeys, tagKeyPool...)
			var history []*c08Query
			reuseFilters := 0
			lt := uint64(1 + rng.Intn(3))
			for qi := 0; qi < perBubble; qi++ {
				sameTime := qi > 0 && rng.Intn(3) == 0 // another query with the Lamport time of the previous one (other origin / id)
				if !sameTime {
					lt += uint64(1 + rng.Intn(3))
				}
				if rng.Intn(10) == 0 {
					// a query the node itself starts through the API, with filters that may leave it out (the
					// usual "ask the others"): it has seen that query first when it issued it, so it is queued
					// for gossip once, delivered locally iff the filters select the node, and an echo from the
					// network causes nothing
					params := nd.S.DefaultQueryParams()
					params.Timeout = time.Second
					sel := true
					var desc string
					switch rng.Intn(4) {
					case 0:
						params.FilterNodes = []string{"somebody-else", "other"}
						sel, desc = false, "nodes(others)"
					case 1:
						params.FilterNodes = []string{node, "other"}
						desc = "nodes(self,other)"
					case 2:
						k := tagKeys[rng.Intn(len(tagKeys))]
						expr, _ := c08TagExpr(rng, tags[k])
						params.FilterTags = map[string]string{k: expr}
						re, err := regexp.Compile(expr)
						sel = err == nil && re.MatchString(tags[k])
						desc = fmt.Sprintf("tag(%q~%q)", k, expr)
					default:
						desc = "none"
					}
					name := fmt.Sprintf("own-%d-%d", ci, qi)
					ownEvents := func() int {
						synctest.Wait()
						n := 0
						evs := nd.Events()
						for _, le := range evs[evSeen:] {
							if sq, ok := le.E.(*serf.Query); ok && sq.Name == name {
								n++
							}
						}
						evSeen = len(evs)
						return n
					}
					ownQueued := func() (n int, raw []byte) {
						for _, b := range nd.ML.Delegate.GetBroadcasts(0, 1<<30) {
							var m wire.MsgQuery
							if len(b) > 0 && b[0] == wire.Query && wire.Decode(b[1:], &m) == nil && m.Name == name {
								n++
								raw = append([]byte(nil), b...)
								if m.LTime > lt {
									lt = m.LTime
								}
							}
						}
						nd.DrainBroadcasts()
						return
					}
					resp, err := nd.S.Query(name, []byte("p"), params)
					if err == nil {
						counts["own_queries"]++
						if !sel {
							counts["own_queries_excluding_the_node_itself"]++
						}
						delivered := ownEvents()
						queued, raw := ownQueued()
						want := 0
						if sel {
							want = 1
						}
						if delivered != want {
							viols = append(viols, viol{"own-query/delivery", fmt.Sprintf("query %q started on node %q (tags %v) with filters %s: delivered locally %d times, want %d", name, node, tags, desc, delivered, want), nil})
						}
						if queued != 1 {
							viols = append(viols, viol{"own-query/broadcast", fmt.Sprintf("query %q started on the node with filters %s: queued for gossip %d times, want 1", name, desc, queued), nil})
						}
						if raw != nil {
							nd.NotifyMsg(raw) // the echo of a peer's re-broadcast
							d2 := ownEvents()
							q2, _ := ownQueued()
							if d2 != 0 || q2 != 0 {
								viols = append(viols, viol{"own-query/echo", fmt.Sprintf("query %q started on the node with filters %s (selects the node: %v): its echo from the network was delivered %d times and queued for gossip %d times, want none (the node saw the query first when it issued it)", name, desc, sel, d2, q2), nil})
							}
							counts["own_query_echoes"]++
						}
						resp.Close()
						msgSeen = len(p.Received())
					}
				}
				if qi > 1 && rng.Intn(5) == 0 {
					// the node's tags change while it runs (seeded C08-i: filter verdicts remembered across a tag
					// change). The origin puppet is a live memberlist peer that never gossips, so the update's
					// broadcast times out and SetTags reports an error - the new tags are in force all the same
					// (ground truth: what the node itself lists as its tags afterwards).
					key := tagKeyPool[rng.Intn(len(tagKeyPool))]
					var used []string
					for _, h := range history {
						for _, f := range h.M.Filters {
							var ft wire.FilterTagT
							if len(f) > 1 && f[0] == wire.FilterTag && wire.Decode(f[1:], &ft) == nil {
								used = append(used, ft.Tag)
							}
						}
					}
					if len(used) > 0 && rng.Intn(4) != 0 {
						key = used[rng.Intn(len(used))] // a tag that earlier filters looked at
					}
					nt := map[string]string{}
					for k, v := range tags {
						nt[k] = v
					}
					if _, ok := nt[key]; ok && rng.Intn(4) == 0 {
						delete(nt, key)
					} else {
						for try := 0; try < 8; try++ {
							if v := tagValPool[rng.Intn(len(tagValPool))]; v != nt[key] || try == 7 {
								nt[key] = v
								break
							}
						}
					}
					err := nd.S.SetTags(nt)
					synctest.Wait()
					now := nd.S.LocalMember().Tags
					same := func(a, b map[string]string) bool {
						if len(a) != len(b) {
							return false
						}
						for k, v := range a {
							if w, ok := b[k]; !ok || w != v {
								return false
							}
						}
						return true
					}
					counts["tag_changes"]++
					if err != nil {
						counts["tag_changes_reported_as_failed"]++
					}
					switch {
					case same(now, nt):
						tags = nt
						counts["tag_changes_in_force"]++
						reuseFilters = 3
					case same(now, tags):
						counts["tag_changes_not_applied"]++
					default:
						setupErr = fmt.Sprintf("after SetTags(%v) (error %v) the node lists tags %v", nt, err, now)
						return
					}
					nd.DrainBroadcasts()
					evSeen, msgSeen = len(nd.Events()), len(p.Received())
				}
				q := c08GenQuery(rng, node, tags, tagKeys, p, lt)
				if reuseFilters > 0 {
					// queries that repeat, byte for byte, the filters of queries seen before the tags changed
					reuseFilters--
					var cands []*c08Query
					for _, h := range history {
						for _, f := range h.M.Filters {
							if len(f) > 0 && f[0] == wire.FilterTag {
								cands = append(cands, h)
								break
							}
						}
					}
					if len(cands) > 0 {
						h := cands[rng.Intn(len(cands))]
						q.M.Filters = h.M.Filters
						q.Desc = append([]string{"repeated-after-tag-change"}, h.Desc...)
						q.Class = h.Class
						q.Raw = wire.Encode(wire.Query, &q.M)
						q.Sel = c08Select(q.M.Filters, node, tags)
						counts["queries_repeating_filters_after_a_tag_change"]++
						if q.Sel != h.Sel {
							counts["queries_repeating_filters_whose_verdict_changed"]++
						}
					}
				}
				if sameTime && (q.M.ID == history[len(history)-1].M.ID || bytes.Equal(q.Raw, history[len(history)-1].Raw)) {
					sameTime = false // not a different query after all
				}
				history = append(history, q)
				ack := q.M.Flags&wire.FlagAck != 0
				nobc := q.M.Flags&wire.FlagNoBroadcast != 0
				want := c08Obs{}
				if q.Sel && !q.Intern {
					want.Delivered = 1
				}
				if q.Sel && ack {
					want.Acks = 1
				}
				if !nobc {
					want.Queued = 1
				}
				wit := map[string]any{"node": node, "tags": tags, "name": q.M.Name, "flags": q.M.Flags, "filters": q.Desc, "ltime": q.M.LTime, "raw": fmt.Sprintf("%x", q.Raw), "selected_by_harness": q.Sel}
				check := func(round string, got, want c08Obs) {
					class := fmt.Sprintf("%s/%s", q.Class, round)
					if got.Delivered != want.Delivered {
						viols = append(viols, viol{"delivery/" + class, fmt.Sprintf("%s copy: query %q filters %v on node %q tags %v: delivered to the application %d times, want %d (selected=%v internal=%v)", round, q.M.Name, q.Desc, node, tags, got.Delivered, want.Delivered, q.Sel, q.Intern), wit})
					}
					if got.Acks != want.Acks {
						viols = append(viols, viol{"ack/" + class, fmt.Sprintf("%s copy: query %q filters %v flags %#x on node %q tags %v: %d acks at the origin, want %d (selected=%v)", round, q.M.Name, q.Desc, q.M.Flags, node, tags, got.Acks, want.Acks, q.Sel), wit})
					}
					if got.Queued != want.Queued {
						viols = append(viols, viol{"rebroadcast/" + class, fmt.Sprintf("%s copy: query %q filters %v flags %#x: queued for gossip %d times (query_queue=%s), want %d", round, q.M.Name, q.Desc, q.M.Flags, got.Queued, got.QueueStat, want.Queued), wit})
					}
					if got.BadAck != "" {
						viols = append(viols, viol{"other/" + class, fmt.Sprintf("%s copy: query %q filters %v: %s", round, q.M.Name, q.Desc, got.BadAck), wit})
					}
				}
				both := rng.Intn(5) == 0
				deliver(q)
				if both { // the two copies back to back, observed together
					deliver(q)
					check("both", observe(q), want)
				} else {
					check("first", observe(q), want)
					deliver(q)
					check("second", observe(q), c08Obs{})
				}
				if sameTime && history[len(history)-2].M.LTime == q.M.LTime {
					// the earlier query of this Lamport time arrives once more after the later one
					old := history[len(history)-2]
					deliver(old)
					o := observe(old)
					if o.Delivered+o.Acks+o.Queued != 0 {
						viols = append(viols, viol{"duplicate-after-same-time-query", fmt.Sprintf("queries %q (id %d) and %q (id %d) share Lamport time %d; a duplicate of the first after the second was delivered %d times, acked %d times, queued %d times, want none", old.M.Name, old.M.ID, q.M.Name, q.M.ID, q.M.LTime, o.Delivered, o.Acks, o.Queued), nil})
					}
					counts["duplicates_after_a_same_time_query"]++
				}
				if len(history) > 2 && rng.Intn(8) == 0 { // a much later duplicate of an earlier query
					old := history[rng.Intn(len(history)-1)]
					deliver(old)
					o := observe(old)
					if o.Delivered+o.Acks+o.Queued != 0 {
						viols = append(viols, viol{"late-duplicate", fmt.Sprintf("late duplicate of query %q ltime %d: delivered %d acks %d queued %d, want none", old.M.Name, old.M.LTime, o.Delivered, o.Acks, o.Queued), nil})
					}
					counts["late_duplicates_sent"]++
				}
				counts["queries"]++
				if q.Sel {
					counts["selected"]++
				} else {
					counts["excluded"]++
				}
				counts["class_"+q.Class]++
				if q.Intern {
					counts["internal_prefix_queries"]++
					if q.Sel {
						counts["internal_selected_not_handed_to_app"]++
					}
				}
				if want.Delivered == 1 {
					counts["deliveries_expected_and_seen"]++
				}
				if want.Acks == 1 {
					counts["acks_expected"]++
				}
				if want.Queued == 1 {
					counts["rebroadcasts_expected"]++
				} else {
					counts["nobroadcast_queries"]++
				}
				if q.ViaSend {
					counts["via_puppet_udp"]++
				} else {
					counts["via_notifymsg"]++
				}
				if len(q.M.Filters) > 0 || q.Intern || q.M.Flags != 0 {
					sigs = append(sigs, fmt.Sprintf("%s|%v|%s|%x|%d|%v", node, tags, q.M.Name, bytes.Join(q.M.Filters, []byte{0xff, 0xfe}), q.M.Flags, q.Sel))
				}
				if qi == 3 && ci < 4 {
					sample = map[string]any{"node": node, "tags": tags, "query": q.M.Name, "filters": q.Desc, "flags": q.M.Flags, "selected": q.Sel, "internal": q.Intern}
				}
			}
		})
		if setupErr != "" {
			r.Count("setup_errors", 1)
			r.Inconclusive("bubble setup failed: " + setupErr)
			return
		}
		r.Eval(counts["queries"])
		for k, v := range counts {
			r.Count(k, v)
		}
		for _, s := range sigs {
			r.Distinct(s)
		}
		if sample != nil {
			r.Sample(sample)
		}
		for _, v := range viols {
			r.Violation(v.key, ci, v.msg, v.w)
		}
	})
	if r.Counter("selected") < int64(r.N(1200, 10000)) || r.Counter("excluded") < int64(r.N(1200, 10000)) || r.Counter("acks_expected") < int64(r.N(450, 4000)) {
		r.Inconclusive(fmt.Sprintf("too few selected/excluded/acked queries observed: %d/%d/%d", r.Counter("selected"), r.Counter("excluded"), r.Counter("acks_expected")))
	}
	r.Finish("generated queries (0-4 filters: node lists with own name / prefixes / case variants / empty, tag filters from a regex grammar incl. anchors, alternation, classes, invalid patterns, raw undecodable bodies, unknown filter types; ack / no-broadcast / unknown flag bits; six internal names, unknown internal names and near-miss prefixes) sent twice (puppet UDP or NotifyMsg) to a real node with generated name and tags; compared with the harness's own filter evaluation: EventCh deliveries, acks at the origin puppet, gossip queue contents, late duplicates; a tenth of the steps are queries the node itself starts through the API (filters that select or exclude it) followed by their echo from the network. Non-trivial = has filters, an internal name or flags; distinct by (node, tags, name, filters, flags)",
		r.N(4000, 30000),
		"filter bodies are decoded in the harness with the same msgpack library (go-msgpack) but its own structs; zero-length filters are excluded (C09)",
		"re-broadcast is observed as presence of the identical bytes in the node's query broadcast queue (passive memberlist)")
}
