package props

import (
	"bytes"
	"fmt"
	"math/rand"
	"sort"
	"sync"
	"sync/atomic"
	"testing"
	"testing/synctest"
	"time"

	"github.com/hashicorp/serf/serf"

	"verif/harness/cluster"
	"verif/harness/evid"
	"verif/harness/simnet"
	"verif/harness/wire"
)

// C06: locally issued events and queries get unique, causally later Lamport times.
//
// Concurrent UserEvent / Query calls on one real node, mixed with incoming
// events/queries delivered through NotifyMsg. Every operation gets a call
// stamp before it starts and a return stamp after it returned (one atomic
// counter). The LTime of an originated event/query is read from the node's own
// EventCh (the payload carries a unique id). Offline oracle:
//   uniqueness:  no two originated events (queries) share an LTime;
//   causality:   if operation o (own call or injected message) returned before
//                call c began, LTime(c) > LTime(o).

type c06Op struct {
	ID       int
	Own      bool
	Call     int64
	Ret      int64
	LTime    uint64
	HasLTime bool
	Filtered []byte // an incoming query addressed to other nodes: its bytes (processed iff the node re-broadcasts it)
}

func bytesContains(b, sub []byte) bool { return bytes.Contains(b, sub) }

func c06Round(t *testing.T, rng *rand.Rand, queries bool) (viol []string, stats map[string]int, sig string) {
	stats = map[string]int{}
	G := 2 + rng.Intn(15)
	K := 5 + rng.Intn(16)
	feed := rng.Intn(3) != 0
	seeds := make([]int64, G+1)
	for i := range seeds {
		seeds[i] = rng.Int63()
	}
	synctest.Test(t, func(t *testing.T) {
		net := simnet.New(1)
		nd, err := cluster.Start(net, cluster.Opts{Name: "n1", IP: "10.0.0.1", Profile: "passive", EventBuf: 16384})
		if err != nil {
			viol = append(viol, "start: "+err.Error())
			return
		}
		defer nd.Close()
		var stamp atomic.Int64
		var mu sync.Mutex
		var ops []*c06Op
		wg := newBGroup()
		start := make(chan struct{})
		nextID := atomic.Int64{}
		for g := 0; g < G; g++ {
			wg.Go(func() {
				<-start
				for k := 0; k < K; k++ {
					id := int(nextID.Add(1))
					op := &c06Op{ID: id, Own: true}
					payload := []byte(fmt.Sprintf("own-%d", id))
					op.Call = stamp.Add(1)
					if queries {
						_, err := nd.S.Query("q", payload, &serf.QueryParam{Timeout: time.Second})
						if err != nil {
							mu.Lock()
							viol = append(viol, "Query: "+err.Error())
							mu.Unlock()
						}
					} else {
						if err := nd.S.UserEvent("e", payload, false); err != nil {
							mu.Lock()
							viol = append(viol, "UserEvent: "+err.Error())
							mu.Unlock()
						}
					}
					op.Ret = stamp.Add(1)
					mu.Lock()
					ops = append(ops, op)
					mu.Unlock()
				}
			})
		}
		if feed {
			wg.Go(func() {
				lr := rand.New(rand.NewSource(seeds[G]))
				<-start
				for k := 0; k < K*2; k++ {
					id := int(nextID.Add(1))
					// incoming message with an LTime around / ahead of the node's clock
					key := "event_time"
					if queries {
						key = "query_time"
					}
					var cur uint64
					fmt.Sscan(nd.S.Stats()[key], &cur)
					lt := cur + uint64(lr.Intn(4))
					if lr.Intn(3) == 0 && cur > 2 {
						lt = cur - 1 - uint64(lr.Intn(2))
					}
					op := &c06Op{ID: id, LTime: lt, HasLTime: true}
					var buf []byte
					if queries {
						var filt [][]byte
						if lr.Intn(3) == 0 {
							// a query addressed to other nodes only: handled and re-broadcast here, not delivered
							filt = [][]byte{wire.EncodeFilterNodes([]string{"somebody-else"})}
						}
						buf = wire.Encode(wire.Query, &wire.MsgQuery{LTime: lt, ID: uint32(id), Addr: []byte{10, 0, 0, 9}, Port: 7946, SourceNode: "peer",
							Filters: filt, Timeout: time.Second, Name: "in", Payload: []byte(fmt.Sprintf("in-%d", id))})
					} else {
						buf = wire.Encode(wire.UserEvent, &wire.MsgUserEvent{LTime: lt, Name: "in", Payload: []byte(fmt.Sprintf("in-%d", id))})
					}
					if queries && len(buf) > 0 && bytesContains(buf, []byte("somebody-else")) {
						op.Filtered = buf
					}
					op.Call = stamp.Add(1)
					nd.NotifyMsg(buf)
					op.Ret = stamp.Add(1)
					mu.Lock()
					ops = append(ops, op)
					mu.Unlock()
				}
			})
		}
		close(start)
		wg.Wait()
		synctest.Wait()
		time.Sleep(2 * time.Second) // let query timers close
		synctest.Wait()
		// learn LTimes of own operations from the event channel
		lt := map[string]uint64{}
		delivered := map[string]bool{}
		for _, e := range nd.Events() {
			switch v := e.E.(type) {
			case serf.UserEvent:
				lt[string(v.Payload)] = uint64(v.LTime)
				delivered[string(v.Payload)] = true
			case *serf.Query:
				lt[string(v.Payload)] = uint64(v.LTime)
				delivered[string(v.Payload)] = true
			}
		}
		requeued := map[string]bool{}
		for _, m := range nd.DrainBroadcasts() {
			requeued[string(m)] = true
		}
		for _, op := range ops {
			if !op.Own && op.Filtered != nil {
				// not delivered by design; it was processed iff the node queued it for re-broadcast
				if requeued[string(op.Filtered)] {
					stats["incoming_filtered_processed"]++
				} else {
					op.HasLTime = false
					stats["incoming_filtered_not_processed"]++
				}
				continue
			}
			if op.Own {
				if v, ok := lt[fmt.Sprintf("own-%d", op.ID)]; ok {
					op.LTime, op.HasLTime = v, true
					stats["own_observed"]++
				} else {
					stats["own_not_delivered"]++
				}
			} else {
				// only injected messages that were processed (delivered) count as "already processed"
				if !delivered[fmt.Sprintf("in-%d", op.ID)] {
					op.HasLTime = false
					stats["incoming_not_delivered"]++
				} else {
					stats["incoming_delivered"]++
				}
			}
		}
		// uniqueness
		byLT := map[uint64][]int{}
		for _, op := range ops {
			if op.Own && op.HasLTime {
				byLT[op.LTime] = append(byLT[op.LTime], op.ID)
			}
		}
		shared := 0
		for l, ids := range byLT {
			if len(ids) > 1 {
				shared += len(ids)
				if len(viol) < 3 {
					viol = append(viol, fmt.Sprintf("UNIQ: %d locally originated %s share LTime %d (ids %v)", len(ids), map[bool]string{true: "queries", false: "user events"}[queries], l, ids))
				}
			}
		}
		stats["own_sharing_ltime"] = shared
		// causality
		sort.Slice(ops, func(i, j int) bool { return ops[i].Ret < ops[j].Ret })
		overlap := 0
		for _, c := range ops {
			if !c.Own || !c.HasLTime {
				continue
			}
			for _, o := range ops {
				if o.Ret >= c.Call {
					if o != c && o.Call < c.Ret {
						overlap++
					}
					continue
				}
				if !o.HasLTime {
					continue
				}
				stats["hb_pairs"]++
				if c.LTime <= o.LTime {
					if len(viol) < 6 {
						viol = append(viol, fmt.Sprintf("CAUSAL: call %d began (stamp %d) after op %d (own=%v, LTime %d) had returned (stamp %d) but got LTime %d", c.ID, c.Call, o.ID, o.Own, o.LTime, o.Ret, c.LTime))
					}
					stats["causal_violations"]++
				}
			}
		}
		stats["overlapping_pairs"] = overlap
		sig = fmt.Sprintf("G%d-K%d-f%v-ov%d-in%d", G, K, feed, overlap/8, stats["incoming_delivered"])
	})
	return
}

func TestC06(t *testing.T) {
	r := evid.Start(t, "C06", "exploration")
	rounds := r.N(600, 6000)
	for _, mode := range []string{"user", "query"} {
		r.Cases(mode, rounds, 4, func(ci int, rng *rand.Rand) {
			viol, stats, sig := c06Round(t, rng, mode == "query")
			r.Eval(1)
			for k, v := range stats {
				r.Count(mode+"_"+k, v)
			}
			if stats["overlapping_pairs"] > 0 {
				r.Distinct(mode + sig)
			}
			for _, v := range viol {
				key := "concurrent-" + mode
				if len(v) > 6 && v[:6] == "CAUSAL" {
					key = "causal-" + mode
				}
				r.Violation(key, ci, v, nil)
			}
			if ci == 0 {
				r.Sample(map[string]any{"mode": mode, "stats": stats, "sig": sig})
			}
		})
	}
	r.Finish("rounds of 2-16 goroutines x 5-20 UserEvent (resp. Query) calls on one real node, two thirds of the rounds with a concurrent feeder delivering incoming events/queries with LTimes around the node's clock; non-trivial = rounds in which operations actually overlapped (call/return stamps); distinct by (G,K,feeder,overlap bucket,incoming delivered)",
		20, "LTime of an originated event/query is what the node itself delivers on EventCh for the unique payload", "an injected message counts as 'already processed' only if NotifyMsg returned before the call began and it was delivered")
}
