package props

import (
	"bytes"
	"fmt"
	"math/rand"
	"os"
	"path/filepath"
	"sort"
	"sync"
	"sync/atomic"
	"testing"
	"testing/synctest"
	"time"

	"github.com/hashicorp/serf/serf"

	"verif/harness/cluster"
	"verif/harness/evid"
	"verif/harness/simnet"
	"verif/harness/wire"
)

// C06: locally issued events and queries get unique, causally later Lamport times.
//
// Concurrent UserEvent / Query calls on one real node, mixed with incoming
// events/queries delivered through NotifyMsg. Every operation gets a call
// stamp before it starts and a return stamp after it returned (one atomic
// counter). The LTime of an originated event/query is read from the node's own
// EventCh (the payload carries a unique id). Offline oracle:
//   uniqueness:  no two originated events (queries) share an LTime;
//   causality:   if operation o (own call or injected message) returned before
//                call c began, LTime(c) > LTime(o).

type c06Op struct {
	ID       int
	Own      bool
	Call     int64
	Ret      int64
	LTime    uint64
	HasLTime bool
	Filtered []byte // an incoming query addressed to other nodes: its bytes (processed iff the node re-broadcasts it)
}

func bytesContains(b, sub []byte) bool { return bytes.Contains(b, sub) }

func c06Round(t *testing.T, rng *rand.Rand, queries bool) (viol []string, stats map[string]int, sig string) {
	stats = map[string]int{}
	G := 2 + rng.Intn(15)
	K := 5 + rng.Intn(16)
	feed := rng.Intn(3) != 0
	seeds := make([]int64, G+1)
	for i := range seeds {
		seeds[i] = rng.Int63()
	}
	synctest.Test(t, func(t *testing.T) {
		net := simnet.New(1)
		nd, err := cluster.Start(net, cluster.Opts{Name: "n1", IP: "10.0.0.1", Profile: "passive", EventBuf: 16384})
		if err != nil {
			viol = append(viol, "start: "+err.Error())
			return
		}
		defer nd.Close()
		var stamp atomic.Int64
		var mu sync.Mutex
		var ops []*c06Op
		wg := newBGroup()
		start := make(chan struct{})
		nextID := atomic.Int64{}
		for g := 0; g < G; g++ {
			wg.Go(func() {
				<-start
				for k := 0; k < K; k++ {
					id := int(nextID.Add(1))
					op := &c06Op{ID: id, Own: true}
					payload := []byte(fmt.Sprintf("own-%d", id))
					op.Call = stamp.Add(1)
					if queries {
						_, err := nd.S.Query("q", payload, &serf.QueryParam{Timeout: time.Second})
						if err != nil {
							mu.Lock()
							viol = append(viol, "Query: "+err.Error())
							mu.Unlock()
						}
					} else {
						if err := nd.S.UserEvent("e", payload, false); err != nil {
							mu.Lock()
							viol = append(viol, "UserEvent: "+err.Error())
							mu.Unlock()
						}
					}
					op.Ret = stamp.Add(1)
					mu.Lock()
					ops = append(ops, op)
					mu.Unlock()
				}
			})
		}
		if feed {
			wg.Go(func() {
				lr := rand.New(rand.NewSource(seeds[G]))
				<-start
				for k := 0; k < K*2; k++ {
					id := int(nextID.Add(1))
					// incoming message with an LTime around / ahead of the node's clock
					key := "event_time"
					if queries {
						key = "query_time"
					}
					var cur uint64
					fmt.Sscan(nd.S.Stats()[key], &cur)
					lt := cur + uint64(lr.Intn(4))
					if lr.Intn(3) == 0 && cur > 2 {
						lt = cur - 1 - uint64(lr.Intn(2))
					}
					op := &c06Op{ID: id, LTime: lt, HasLTime: true}
					var buf, viaPP []byte
					if queries {
						var filt [][]byte
						if lr.Intn(3) == 0 {
							// a query addressed to other nodes only: handled and re-broadcast here, not delivered
							filt = [][]byte{wire.EncodeFilterNodes([]string{"somebody-else"})}
						}
						buf = wire.Encode(wire.Query, &wire.MsgQuery{LTime: lt, ID: uint32(id), Addr: []byte{10, 0, 0, 9}, Port: 7946, SourceNode: "peer",
							Filters: filt, Timeout: time.Second, Name: "in", Payload: []byte(fmt.Sprintf("in-%d", id))})
					} else {
						buf = wire.Encode(wire.UserEvent, &wire.MsgUserEvent{LTime: lt, Name: "in", Payload: []byte(fmt.Sprintf("in-%d", id))})
						if lr.Intn(3) == 0 {
							// the event arrives in a peer's push/pull state instead; the state's own event clock may
							// lag behind the events it carries (a peer that reads its clock before it copies its
							// buffer, an older or foreign implementation) - processed is processed (seeded C06-j)
							hdr := []uint64{0, lt, lt + 1, lt / 2, lt + 3}[lr.Intn(5)]
							viaPP = wire.Encode(wire.PushPull, &wire.MsgPushPull{LTime: 1, StatusLTimes: map[string]uint64{}, LeftMembers: []string{}, EventLTime: hdr,
								Events: []*wire.UserEvents{nil, {LTime: lt, Events: []wire.UserEv{{Name: "in", Payload: []byte(fmt.Sprintf("in-%d", id))}}}}, QueryLTime: 1})
						}
					}
					if queries && len(buf) > 0 && bytesContains(buf, []byte("somebody-else")) {
						op.Filtered = buf
					}
					op.Call = stamp.Add(1)
					if viaPP != nil {
						nd.ML.Delegate.MergeRemoteState(viaPP, false)
					} else {
						nd.NotifyMsg(buf)
					}
					op.Ret = stamp.Add(1)
					mu.Lock()
					if viaPP != nil {
						stats["incoming_by_push_pull_state"]++
					}
					ops = append(ops, op)
					mu.Unlock()
				}
			})
		}
		close(start)
		wg.Wait()
		synctest.Wait()
		time.Sleep(2 * time.Second) // let query timers close
		synctest.Wait()
		// learn LTimes of own operations from the event channel
		lt := map[string]uint64{}
		delivered := map[string]bool{}
		for _, e := range nd.Events() {
			switch v := e.E.(type) {
			case serf.UserEvent:
				lt[string(v.Payload)] = uint64(v.LTime)
				delivered[string(v.Payload)] = true
			case *serf.Query:
				lt[string(v.Payload)] = uint64(v.LTime)
				delivered[string(v.Payload)] = true
			}
		}
		requeued := map[string]bool{}
		for _, m := range nd.DrainBroadcasts() {
			requeued[string(m)] = true
		}
		for _, op := range ops {
			if !op.Own && op.Filtered != nil {
				// not delivered by design; it was processed iff the node queued it for re-broadcast
				if requeued[string(op.Filtered)] {
					stats["incoming_filtered_processed"]++
				} else {
					op.HasLTime = false
					stats["incoming_filtered_not_processed"]++
				}
				continue
			}
			if op.Own {
				if v, ok := lt[fmt.Sprintf("own-%d", op.ID)]; ok {
					op.LTime, op.HasLTime = v, true
					stats["own_observed"]++
				} else {
					stats["own_not_delivered"]++
				}
			} else {
				// only injected messages that were processed (delivered) count as "already processed"
				if !delivered[fmt.Sprintf("in-%d", op.ID)] {
					op.HasLTime = false
					stats["incoming_not_delivered"]++
				} else {
					stats["incoming_delivered"]++
				}
			}
		}
		// uniqueness
		byLT := map[uint64][]int{}
		for _, op := range ops {
			if op.Own && op.HasLTime {
				byLT[op.LTime] = append(byLT[op.LTime], op.ID)
			}
		}
		shared := 0
		for l, ids := range byLT {
			if len(ids) > 1 {
				shared += len(ids)
				if len(viol) < 3 {
					viol = append(viol, fmt.Sprintf("UNIQ: %d locally originated %s share LTime %d (ids %v)", len(ids), map[bool]string{true: "queries", false: "user events"}[queries], l, ids))
				}
			}
		}
		stats["own_sharing_ltime"] = shared
		// causality
		sort.Slice(ops, func(i, j int) bool { return ops[i].Ret < ops[j].Ret })
		overlap := 0
		for _, c := range ops {
			if !c.Own || !c.HasLTime {
				continue
			}
			for _, o := range ops {
				if o.Ret >= c.Call {
					if o != c && o.Call < c.Ret {
						overlap++
					}
					continue
				}
				if !o.HasLTime {
					continue
				}
				stats["hb_pairs"]++
				if c.LTime <= o.LTime {
					if len(viol) < 6 {
						viol = append(viol, fmt.Sprintf("CAUSAL: call %d began (stamp %d) after op %d (own=%v, LTime %d) had returned (stamp %d) but got LTime %d", c.ID, c.Call, o.ID, o.Own, o.LTime, o.Ret, c.LTime))
					}
					stats["causal_violations"]++
				}
			}
		}
		stats["overlapping_pairs"] = overlap
		sig = fmt.Sprintf("G%d-K%d-f%v-ov%d-in%d", G, K, feed, overlap/8, stats["incoming_delivered"])
	})
	return
}

// c06Restart: the node runs with a snapshot, processes a history of own and incoming user
// events and queries - among them the queries serf handles internally (_serf_ping,
// _serf_conflict, key requests), which share the query clock - is shut down cleanly and
// restarted from the snapshot with nobody to sync with. The first event and the first query
// it originates afterwards must be newer than everything it had processed before: the
// snapshot's clock lines are the node's memory of that.
// Only messages the node delivered to its pipeline count (no queries filtered away from this
// node), and every incoming time is at or ahead of the node's clock, so each one is processed.
func c06Restart(t *testing.T, rng *rand.Rand, base string) (viol []string, stats map[string]int, sig string) {
	stats = map[string]int{}
	dir, err := os.MkdirTemp(base, "rs")
	if err != nil {
		return []string{"SETUP: " + err.Error()}, stats, ""
	}
	defer os.RemoveAll(dir)
	snap := filepath.Join(dir, "snap")
	nOps := 3 + rng.Intn(25)
	internalNames := []string{"_serf_ping", "_serf_conflict", "_serf_list-keys", "_serf_install-key", "_serf_use-key", "_serf_remove-key"}
	var hist string
	synctest.Test(t, c10Settled(func() {
		net := simnet.New(1)
		nd, err := cluster.Start(net, cluster.Opts{Name: "n1", IP: "10.0.0.1", Profile: "passive", Snap: snap, EventBuf: 16384})
		if err != nil {
			viol = append(viol, "SETUP: "+err.Error())
			return
		}
		var maxQ, maxE uint64
		var lastQ, lastE string
		clock := func(key string) uint64 {
			var cur uint64
			fmt.Sscan(nd.S.Stats()[key], &cur)
			return cur
		}
		for i := 0; i < nOps; i++ {
			switch x := rng.Intn(10); {
			case x < 2:
				if _, err := nd.S.Query("q", []byte(fmt.Sprintf("own-%d", i)), &serf.QueryParam{Timeout: time.Second}); err == nil {
					hist += "Query "
					stats["own_queries"]++
				}
			case x < 4:
				if err := nd.S.UserEvent("e", []byte(fmt.Sprintf("own-%d", i)), false); err == nil {
					hist += "UserEvent "
					stats["own_events"]++
				}
			case x < 5:
				// a key request by this node's operator: a query with an internal name issued here
				// (without a keyring the answer is an error; the query is issued all the same)
				before := clock("query_time")
				nd.S.KeyManager().ListKeys()
				if clock("query_time") > before {
					stats["own_internal_queries"]++
				}
				lt := clock("query_time") - 1
				hist += fmt.Sprintf("ListKeys(->%d) ", lt)
				if lt >= maxQ {
					maxQ, lastQ = lt, "own key-list query"
				}
			case x < 7:
				lt := clock("query_time") + uint64(rng.Intn(4))
				name := "in"
				if rng.Intn(3) != 0 {
					name = internalNames[rng.Intn(len(internalNames))]
					stats["incoming_internal_queries"]++
				} else {
					stats["incoming_queries"]++
				}
				nd.NotifyMsg(wire.Encode(wire.Query, &wire.MsgQuery{LTime: lt, ID: uint32(1000 + i), Addr: []byte{10, 0, 0, 9}, Port: 7946, SourceNode: "peer",
					Timeout: time.Second, Name: name, Payload: []byte("zz")}))
				hist += fmt.Sprintf("in-query(%s,%d) ", name, lt)
				if lt >= maxQ {
					maxQ, lastQ = lt, "incoming query "+name
				}
			default:
				lt := clock("event_time") + uint64(rng.Intn(4))
				nd.NotifyMsg(wire.Encode(wire.UserEvent, &wire.MsgUserEvent{LTime: lt, Name: "in", Payload: []byte(fmt.Sprintf("in-%d", i))}))
				hist += fmt.Sprintf("in-event(%d) ", lt)
				stats["incoming_events"]++
				if lt >= maxE {
					maxE, lastE = lt, "incoming event"
				}
			}
			synctest.Wait()
		}
		time.Sleep(3 * time.Second)
		synctest.Wait()
		for _, e := range nd.Events() {
			switch v := e.E.(type) {
			case serf.UserEvent:
				if uint64(v.LTime) >= maxE {
					maxE, lastE = uint64(v.LTime), "event "+string(v.Payload)
				}
			case *serf.Query:
				if uint64(v.LTime) >= maxQ {
					maxQ, lastQ = uint64(v.LTime), "query "+string(v.Payload)
				}
			}
		}
		nd.Close()
		time.Sleep(time.Second)
		synctest.Wait()
		// second life, from the snapshot, alone
		nd2, err := cluster.Start(net, cluster.Opts{Name: "n1", IP: "10.0.0.1", Profile: "passive", Snap: snap, EventBuf: 16384})
		if err != nil {
			viol = append(viol, "SETUP: restart: "+err.Error())
			return
		}
		defer nd2.Close()
		first := rng.Intn(2)
		for k := 0; k < 2; k++ {
			if (k+first)%2 == 0 {
				if _, err := nd2.S.Query("q", []byte("after-restart"), &serf.QueryParam{Timeout: time.Second}); err != nil {
					viol = append(viol, "SETUP: Query after restart: "+err.Error())
				}
			} else if err := nd2.S.UserEvent("e", []byte("after-restart"), false); err != nil {
				viol = append(viol, "SETUP: UserEvent after restart: "+err.Error())
			}
			synctest.Wait()
		}
		time.Sleep(2 * time.Second)
		synctest.Wait()
		gotQ, gotE := false, false
		for _, e := range nd2.Events() {
			switch v := e.E.(type) {
			case serf.UserEvent:
				if string(v.Payload) == "after-restart" {
					gotE = true
					stats["restart_event_checked"]++
					if maxE > 0 && uint64(v.LTime) <= maxE {
						viol = append(viol, fmt.Sprintf("RESTART: the first user event originated after a clean restart from the snapshot has LTime %d, not newer than %s (LTime %d) the node had processed before ; history: %s", v.LTime, lastE, maxE, hist))
					}
				}
			case *serf.Query:
				if string(v.Payload) == "after-restart" {
					gotQ = true
					stats["restart_query_checked"]++
					if maxQ > 0 && uint64(v.LTime) <= maxQ {
						viol = append(viol, fmt.Sprintf("RESTART: the first query originated after a clean restart from the snapshot has LTime %d, not newer than %s (LTime %d) the node had processed before ; history: %s", v.LTime, lastQ, maxQ, hist))
					}
				}
			}
		}
		if !gotQ || !gotE {
			stats["restart_own_not_observed"]++
		}
		sig = fmt.Sprintf("n%d-q%d-e%d-iq%d", nOps, maxQ, maxE, stats["incoming_internal_queries"]+stats["own_internal_queries"])
	}))
	return
}

func TestC06(t *testing.T) {
	r := evid.Start(t, "C06", "exploration")
	rounds := r.N(600, 6000)
	for _, mode := range []string{"user", "query"} {
		r.Cases(mode, rounds, 4, func(ci int, rng *rand.Rand) {
			viol, stats, sig := c06Round(t, rng, mode == "query")
			r.Eval(1)
			for k, v := range stats {
				r.Count(mode+"_"+k, v)
			}
			if stats["overlapping_pairs"] > 0 {
				r.Distinct(mode + sig)
			}
			for _, v := range viol {
				key := "concurrent-" + mode
				if len(v) > 6 && v[:6] == "CAUSAL" {
					key = "causal-" + mode
				}
				r.Violation(key, ci, v, nil)
			}
			if ci == 0 {
				r.Sample(map[string]any{"mode": mode, "stats": stats, "sig": sig})
			}
		})
	}
	base, err := os.MkdirTemp("/verif/.run", "c06-")
	if err != nil {
		base = t.TempDir()
	}
	defer os.RemoveAll(base)
	r.Cases("restart", r.N(150, 1500), 4, func(ci int, rng *rand.Rand) {
		viol, stats, sig := c06Restart(t, rng, base)
		r.Eval(1)
		for k, v := range stats {
			r.Count("restart_"+k, v)
		}
		if stats["restart_query_checked"] > 0 && stats["restart_event_checked"] > 0 && stats["incoming_internal_queries"]+stats["own_internal_queries"] > 0 {
			r.Distinct("restart" + sig)
		}
		for _, v := range viol {
			if len(v) > 6 && v[:6] == "SETUP:" {
				r.Inconclusive(fmt.Sprintf("restart case %d: %s", ci, v))
				continue
			}
			r.Violation("restart-from-snapshot", ci, v, nil)
		}
	})
	r.Finish("rounds of 2-16 goroutines x 5-20 UserEvent (resp. Query) calls on one real node, two thirds of the rounds with a concurrent feeder delivering incoming events/queries with LTimes around the node's clock; non-trivial = rounds in which operations actually overlapped (call/return stamps); distinct by (G,K,feeder,overlap bucket,incoming delivered); plus restart histories: a node with a snapshot processes 3-27 own and incoming events and queries (user queries, the node's own key-list queries, incoming _serf_ping/_serf_conflict/key queries, which share the query clock), is shut down cleanly and restarted alone from the snapshot; the first event and first query it then originates must be newer than everything processed before (non-trivial = histories with an internal query)",
		20, "LTime of an originated event/query is what the node itself delivers on EventCh for the unique payload", "an injected message counts as 'already processed' only if NotifyMsg returned before the call began and it was delivered")
}
