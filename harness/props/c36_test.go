package props

import (
	"bytes"
	"fmt"
	"math/rand"
	"net"
	"regexp"
	"strconv"
	"strings"
	"sync"
	"testing"
	"testing/synctest"
	"time"

	"github.com/hashicorp/serf/serf"

	"verif/harness/cluster"
	"verif/harness/evid"
	"verif/harness/simnet"
	"verif/harness/wire"
)

// C36: name conflicts are settled by a strict majority of the valid replies.
//
// A real node is told about a name conflict through its own memberlist
// ConflictDelegate (nd.ML.Conflict.NotifyConflict). It runs the internal
// _serf_conflict query; every other member is a puppet that answers per script.
// After the query's virtual timeout the node's State() is compared with the
// statement: shut down  <=>  matching < floor(valid/2)+1, where valid = first
// reply per responder that is a well-formed conflict response (a nil member is
// well-formed: it is what a real node answers when it does not know the name)
// and matching = valid replies carrying the node's own address and port.

const (
	c36Own      = "own"       // member with the node's address and port
	c36Own16    = "own16"     // same, address in 16-byte form
	c36Other    = "other"     // another address
	c36Port     = "otherport" // the node's address, another port
	c36Nil      = "nil"       // nil member
	c36Empty    = "empty"     // zero-length payload
	c36Wrong    = "wrongtype" // valid body, wrong type byte
	c36Trunc    = "truncated" // truncated msgpack body
	c36BadField = "badfield"  // msgpack map whose Port is a string
	c36Silence  = "silence"
	c36NoAddr   = "noaddr" // well-formed record that carries a name and tags but neither address nor port
	c36NoPort   = "noport" // well-formed record with the node's address and no port
)

var c36Kinds = []string{c36Own, c36Own, c36Own16, c36Other, c36Other, c36Port, c36Nil, c36Empty, c36Wrong, c36Trunc, c36BadField, c36NoAddr, c36NoPort, c36Silence}

type c36Reply struct {
	Kind string
	Dup  string
	Cut  int
	Gap  int // ms before sending
}

type c36Case struct {
	P       int
	S       int  // replies from responders the node does not list as members (the query is re-broadcast transitively)
	V6      bool // the node's own address is an IPv6 address
	Replies []c36Reply
	Order   []int
}

func c36Gen(rng *rand.Rand) c36Case {
	c := c36Case{P: 1 + rng.Intn(6), V6: rng.Intn(4) == 0}
	if rng.Intn(3) == 0 {
		c.S = 1 + rng.Intn(5)
	}
	profile := rng.Intn(6)
	for i := 0; i < c.P+c.S; i++ {
		k := c36Kinds[rng.Intn(len(c36Kinds))]
		switch profile {
		case 0: // only votes, to sit near the majority boundary
			k = []string{c36Own, c36Other, c36Own16, c36Nil, c36Own, c36NoAddr, c36NoPort}[rng.Intn(7)]
		case 1: // nothing valid at all
			k = []string{c36Empty, c36Wrong, c36Trunc, c36BadField, c36Silence}[rng.Intn(5)]
		}
		rp := c36Reply{Kind: k, Cut: rng.Intn(1 << 16), Gap: []int{0, 0, 1, 100, 400}[rng.Intn(5)]}
		if k != c36Silence && rng.Intn(4) == 0 {
			rp.Dup = c36Kinds[rng.Intn(len(c36Kinds)-1)]
		}
		c.Replies = append(c.Replies, rp)
	}
	c.Order = rng.Perm(c.P + c.S)
	return c
}

func (c c36Case) String() string {
	var s []string
	for _, r := range c.Replies {
		x := r.Kind
		if r.Dup != "" {
			x += "+" + r.Dup
		}
		s = append(s, x)
	}
	return strings.Join(s, " ")
}

func c36Payload(kind string, cut int, ownIP string, ownPort uint16) []byte {
	own := net.ParseIP(ownIP)
	if own.To4() != nil {
		own = own.To4()
	}
	mem := &wire.Member{Name: "dup", Addr: own, Port: ownPort, Tags: map[string]string{"role": "x"}, Status: 1,
		ProtocolMin: 1, ProtocolMax: 5, ProtocolCur: 2, DelegateMin: 2, DelegateMax: 5, DelegateCur: 5}
	switch kind {
	case c36Own16:
		mem.Addr = net.ParseIP(ownIP).To16()
	case c36Other:
		mem.Addr = net.ParseIP("10.0.9.9").To4()
	case c36Port:
		mem.Port = ownPort + 1
	}
	body := wire.EncodeBody(mem)
	switch kind {
	case c36Nil:
		var none *wire.Member
		return wire.Encode(wire.ConflictResponse, none)
	case c36Empty:
		return []byte{}
	case c36Wrong:
		return append([]byte{wire.KeyResponse}, body...)
	case c36Trunc:
		return append([]byte{wire.ConflictResponse}, body[:cut%len(body)]...)
	case c36NoAddr:
		return append([]byte{wire.ConflictResponse}, wire.EncodeBody(map[string]any{"Name": "dup", "Tags": map[string]string{"role": "x"}, "Status": 1})...)
	case c36NoPort:
		return append([]byte{wire.ConflictResponse}, wire.EncodeBody(map[string]any{"Name": "dup", "Addr": []byte(mem.Addr), "Status": 1})...)
	case c36BadField:
		return append([]byte{wire.ConflictResponse}, wire.EncodeBody(map[string]any{"Name": "dup", "Addr": []byte(mem.Addr), "Port": "seven"})...)
	}
	return append([]byte{wire.ConflictResponse}, body...)
}

// c36Classify is the statement's reading of one reply: (valid, matching).
func c36Classify(payload []byte, ownIP net.IP, ownPort uint16) (bool, bool) {
	if len(payload) < 1 || payload[0] != wire.ConflictResponse {
		return false, false
	}
	var m wire.Member
	if err := wire.Decode(payload[1:], &m); err != nil {
		return false, false
	}
	return true, m.Addr.Equal(ownIP) && m.Port == ownPort
}

type c36Log struct {
	mu sync.Mutex
	b  bytes.Buffer
}

func (l *c36Log) Write(p []byte) (int, error) {
	l.mu.Lock()
	defer l.mu.Unlock()
	return l.b.Write(p)
}
func (l *c36Log) String() string {
	l.mu.Lock()
	defer l.mu.Unlock()
	return l.b.String()
}

var c36Tally = regexp.MustCompile(`(majority|minority) in name conflict resolution[^\[]*\[(\d+) / (\d+)\]`)

type c36Result struct {
	skipped         bool // unusable generated case (see below)
	viol, violKey   string
	inconc          string
	valid, matching int
	malformed       int
	sent            int
	shutdown        bool
	logAgree        int // 1 agree, -1 disagree, 0 no tally line found
}

func c36Run(t *testing.T, c c36Case, seed int64) c36Result {
	var res c36Result
	synctest.Test(t, func(t *testing.T) {
		sn := simnet.New(seed)
		// runs after every Close below: virtual time stops when the bubble's root function returns, so let
		// timer-bound goroutines of the closed instances (probe timeouts against dead peers) run out first
		defer time.Sleep(time.Minute)
		lg := &c36Log{}
		const ownPort = 7946
		ownIP := "10.0.0.1"
		if c.V6 {
			ownIP = "fd00::36:1"
		}
		nd, err := cluster.Start(sn, cluster.Opts{Name: "dup", IP: ownIP, Port: ownPort, LogTo: lg})
		if err != nil {
			res.inconc = "node start: " + err.Error()
			return
		}
		defer nd.Close()
		var ps []*cluster.Puppet
		for i := 0; i < c.P; i++ {
			p, err := cluster.StartPuppet(sn, cluster.PuppetOpts{Name: fmt.Sprintf("p%d", i), IP: fmt.Sprintf("10.0.1.%d", i+1)})
			if err != nil {
				res.inconc = "puppet start: " + err.Error()
				return
			}
			defer p.Close()
			ps = append(ps, p)
			if _, err := p.ML.Join([]string{nd.Addr}); err != nil {
				res.inconc = "puppet join: " + err.Error()
				return
			}
		}
		time.Sleep(2 * time.Second)
		synctest.Wait()
		if n := nd.S.Memberlist().NumMembers(); n != 1+c.P {
			res.inconc = fmt.Sprintf("node sees %d members, want %d", n, 1+c.P)
			return
		}
		if st := nd.S.State(); st != serf.SerfAlive {
			res.inconc = fmt.Sprintf("node is %v before the conflict", st)
			return
		}
		local := nd.S.Memberlist().LocalNode()
		start := time.Now()
		nd.ML.Conflict.NotifyConflict(local, cluster.FakeNode("dup", "10.0.7.7", 7946, nil))

		// wait until gossip carried the conflict query to some puppet
		var q *wire.MsgQuery
		for i := 0; i < 40 && q == nil; i++ {
			time.Sleep(25 * time.Millisecond)
			synctest.Wait()
			for _, p := range ps {
				for _, m := range p.Received() {
					if len(m) > 0 && m[0] == wire.Query {
						var qq wire.MsgQuery
						if wire.Decode(m[1:], &qq) == nil && qq.Name == "_serf_conflict" {
							q = &qq
						}
					}
				}
			}
		}
		if q == nil {
			res.inconc = "no puppet received the conflict query"
			return
		}
		if string(q.Payload) != "dup" {
			res.inconc = fmt.Sprintf("conflict query payload %q", q.Payload)
			return
		}
		dest := net.JoinHostPort(net.IP(q.Addr).String(), strconv.Itoa(int(q.Port)))
		ip := net.ParseIP(ownIP)
		for _, pi := range c.Order {
			rp := c.Replies[pi]
			if rp.Kind == c36Silence {
				continue
			}
			time.Sleep(time.Duration(rp.Gap) * time.Millisecond)
			send := func(payload []byte) {
				from, sender := ps[pi%c.P].Name, ps[pi%c.P]
				if pi >= c.P {
					from = fmt.Sprintf("stranger-%d", pi)
				}
				buf := wire.Encode(wire.QueryResponse, &wire.MsgQueryResponse{LTime: q.LTime, ID: q.ID, From: from, Payload: payload})
				if err := sender.Send(dest, q.SourceNode, buf); err != nil {
					res.inconc = "puppet send: " + err.Error()
				}
				res.sent++
				synctest.Wait()
			}
			first := c36Payload(rp.Kind, rp.Cut, ownIP, ownPort)
			send(first)
			v, m := c36Classify(first, ip, ownPort)
			if v {
				res.valid++
				if m {
					res.matching++
				}
			} else {
				res.malformed++
			}
			if rp.Dup != "" && rp.Dup != c36Silence {
				send(c36Payload(rp.Dup, rp.Cut/3, ownIP, ownPort)) // ignored: first reply per responder counts
			}
		}
		sentBy := time.Since(start)
		if sentBy >= q.Timeout {
			// the generated gaps add up to the whole query timeout (virtual time, decided by the case
			// itself, not by the machine): late replies are not part of the vote, nothing to judge
			res.skipped = true
			return
		}
		// let the query time out and the node decide
		time.Sleep(q.Timeout + 5*time.Second)
		synctest.Wait()
		if res.inconc != "" {
			return
		}
		if sn.Dropped.Load() != 0 && nd.S.State() != serf.SerfShutdown {
			res.inconc = fmt.Sprintf("simnet dropped %d packets while the node was up", sn.Dropped.Load())
			return
		}
		st := nd.S.State()
		res.shutdown = st == serf.SerfShutdown
		if mm := c36Tally.FindStringSubmatch(lg.String()); mm != nil {
			if mm[2] == strconv.Itoa(res.matching) && mm[3] == strconv.Itoa(res.valid) {
				res.logAgree = 1
			} else {
				res.logAgree = -1
			}
		}
		wantShutdown := res.matching < res.valid/2+1
		desc := fmt.Sprintf("node address %s, puppets=%d non-member responders=%d replies=[%s] order=%v: valid=%d matching=%d malformed=%d", ownIP, c.P, c.S, c.String(), c.Order, res.valid, res.matching, res.malformed)
		switch {
		case wantShutdown && st != serf.SerfShutdown:
			res.viol, res.violKey = fmt.Sprintf("%s: fewer than a strict majority vote for the node, but its state is %v", desc, st), "alive-without-majority"
		case !wantShutdown && st != serf.SerfAlive:
			res.viol, res.violKey = fmt.Sprintf("%s: a strict majority votes for the node, but its state is %v", desc, st), "shutdown-despite-majority"
		}
	})
	return res
}

func TestC36(t *testing.T) {
	r := evid.Start(t, "C36", "exploration")
	n := r.N(1500, 40000)
	r.Cases("conflict", n, 0, func(ci int, rng *rand.Rand) {
		c := c36Gen(rng)
		res := c36Run(t, c, int64(ci))
		r.Eval(1)
		if res.skipped {
			r.Count("cases_skipped_replies_span_the_whole_timeout", 1)
			return
		}
		if res.inconc != "" {
			r.Inconclusive(fmt.Sprintf("case %d: %s", ci, res.inconc))
			return
		}
		r.Count("reply_packets_sent_by_puppets", res.sent)
		r.Count("valid_first_replies", res.valid)
		r.Count("matching_first_replies", res.matching)
		r.Count("malformed_first_replies", res.malformed)
		if res.shutdown {
			r.Count("outcome_node_shut_down", 1)
		} else {
			r.Count("outcome_node_alive", 1)
		}
		switch {
		case res.valid == 0:
			r.Count("cases_zero_valid_replies", 1)
		case res.valid%2 == 0 && res.matching == res.valid/2:
			r.Count("cases_exact_tie", 1)
		case res.matching == res.valid/2+1:
			r.Count("cases_bare_majority", 1)
		}
		switch res.logAgree {
		case 1:
			r.Count("node_log_tally_equals_reference", 1)
		case -1:
			r.Count("node_log_tally_differs_from_reference", 1)
		default:
			r.Count("node_log_tally_not_found", 1)
		}
		r.Distinct(fmt.Sprintf("%d:%s", c.P, c.String()))
		if res.viol != "" {
			r.Violation(res.violKey, ci, res.viol, map[string]any{"case": c})
		}
		if ci < 4 {
			r.Sample(map[string]any{"puppets": c.P, "replies": c.String(), "order": c.Order, "valid": res.valid, "matching": res.matching, "malformed": res.malformed, "node_shut_down": res.shutdown})
		}
	})
	if r.Counter("node_log_tally_equals_reference") < int64(n)/2 && r.Violations() == 0 {
		r.Inconclusive("the node's own vote tally (log line) matched the scripted replies in fewer than half of the cases: replies may not be arriving")
	}
	r.Finish("NotifyConflict on a real node (name 'dup', conflict resolution enabled) with 1-6 puppet members answering the _serf_conflict query per script: vote for the node's address+port (4- and 16-byte address form), other address, same address other port, nil member, empty payload, wrong type byte, truncated msgpack, wrongly typed field, well-formed records without address/port fields, silence; optional second differing reply from the same responder; random send order and virtual-time gaps; State() read after the query timeout; every case is non-trivial (the resolution ran), distinct by (puppets, reply kinds per puppet)",
		r.N(600, 5000),
		"only the first reply per responder name counts (the query layer de-duplicates by the From field)",
		"a nil member is a valid reply that does not match (it is what a real node answers when it does not know the name)",
		"zero valid replies: 0 < floor(0/2)+1, so the statement demands shutdown")
}
