package props

import (
	"fmt"
	"math/rand"
	"os"
	"strings"
	"sync/atomic"
	"testing"
	"testing/synctest"
	"time"
	"unsafe"

	"github.com/hashicorp/serf/serf"

	"verif/harness/cluster"
	"verif/harness/evid"
	"verif/harness/simnet"
	"verif/harness/wire"
)

// C04: gossip of intents, user events and queries always dies out.
//
// One real node (passive memberlist, virtual time) whose members are put into
// every state (unknown, alive, leaving, left, failed, self) through its own
// event delegate. Messages are delivered through NotifyMsg with duplicates; after
// every call the monitor asks the node's delegate once for its queued broadcasts
// and identifies *new* queue entries by the identity of their buffers, so it
// knows exactly which message content was (re-)enqueued by which delivery.
// Oracle: the content of a delivered message is enqueued at most once over the
// whole history (all histories stay inside the retention windows: < 5 virtual
// minutes, LTimes inside the event/query buffers); a state-sync merge enqueues
// nothing (except a brand-new refutation join about the node itself).

type c04Msg struct {
	Buf     []byte
	Desc    string
	Subject string // member an intent is about ("" for events/queries)
}

type c04Tracker struct {
	seenPtr map[uintptr]bool
	pin     [][]byte // keeps every seen buffer alive so its address is never recycled
}

// poll asks the delegate once and returns the contents of queue entries not seen before.
func (tr *c04Tracker) poll(nd *cluster.Node) [][]byte {
	var fresh [][]byte
	for _, m := range nd.ML.Delegate.GetBroadcasts(0, 1<<30) {
		if len(m) == 0 {
			continue
		}
		p := uintptr(unsafe.Pointer(&m[0]))
		if !tr.seenPtr[p] {
			tr.seenPtr[p] = true
			tr.pin = append(tr.pin, m)
			fresh = append(fresh, m)
		}
	}
	return fresh
}

func c04Pool(rng *rand.Rand, subjects []string) []c04Msg {
	var pool []c04Msg
	n := 6 + rng.Intn(14)
	for i := 0; i < n; i++ {
		switch x := rng.Intn(10); {
		case x < 3:
			s := subjects[rng.Intn(len(subjects))]
			lt := uint64(1 + rng.Intn(12))
			pool = append(pool, c04Msg{wire.Encode(wire.Join, &wire.MsgJoin{LTime: lt, Node: s}), fmt.Sprintf("join(%s,%d)", s, lt), s})
		case x < 7:
			s := subjects[rng.Intn(len(subjects))]
			lt := uint64(1 + rng.Intn(12))
			pr := rng.Intn(4) == 0
			pool = append(pool, c04Msg{wire.Encode(wire.Leave, &wire.MsgLeave{LTime: lt, Node: s, Prune: pr}), fmt.Sprintf("leave(%s,%d,prune=%v)", s, lt, pr), s})
		case x < 9:
			lt := uint64(1 + rng.Intn(10))
			pl := fmt.Sprint(rng.Intn(3))
			pool = append(pool, c04Msg{wire.Encode(wire.UserEvent, &wire.MsgUserEvent{LTime: lt, Name: "e", Payload: []byte(pl)}), fmt.Sprintf("event(%d,%s)", lt, pl), ""})
		default:
			lt := uint64(1 + rng.Intn(10))
			fl := uint32(rng.Intn(4))
			id := uint32(rng.Intn(3))
			var filt [][]byte
			if rng.Intn(2) == 0 {
				filt = [][]byte{wire.EncodeFilterNodes([]string{"other"})}
			}
			pool = append(pool, c04Msg{wire.Encode(wire.Query, &wire.MsgQuery{LTime: lt, ID: id, Addr: []byte{10, 0, 0, 9}, Port: 7946, SourceNode: "src", Flags: fl,
				Filters: filt, Timeout: time.Second, Name: "q"}), fmt.Sprintf("query(%d,id%d,flags%d,filt%d)", lt, id, fl, len(filt)), ""})
		}
	}
	return pool
}

func c04IsSelfJoin(b []byte, self string) bool {
	if len(b) == 0 || b[0] != wire.Join {
		return false
	}
	var j wire.MsgJoin
	return wire.Decode(b[1:], &j) == nil && j.Node == self
}

func c04History(t *testing.T, rng *rand.Rand, concurrent bool) (viols [][2]string, stats map[string]int, desc string) {
	stats = map[string]int{}
	var sb strings.Builder
	synctest.Test(t, func(t *testing.T) {
		net := simnet.New(1)
		nd, err := cluster.Start(net, cluster.Opts{Name: "self", IP: "10.0.0.1", Profile: "passive", EventBuf: 1 << 15,
			Mutate: func(c *serf.Config) {
				c.BroadcastTimeout, c.LeavePropagateDelay = 0, 0 // see HARNESS_GUIDE "bubble hazard"
				c.EventBuffer, c.QueryBuffer = 64, 64
			}})
		if err != nil {
			viols = append(viols, [2]string{"setup", err.Error()})
			return
		}
		defer nd.Close()
		tr := &c04Tracker{seenPtr: map[uintptr]bool{}}
		// members in every state
		subjects := []string{"self", "unknown"}
		mkNode := func(name string, i int) {
			nd.NotifyJoin(cluster.FakeNode(name, fmt.Sprintf("10.0.1.%d", i), 7946, nil))
		}
		states := []string{"alive", "leaving", "left", "failed"}
		for i, st := range states {
			if rng.Intn(5) == 0 {
				continue
			}
			name := st
			mkNode(name, i+1)
			switch st {
			case "leaving":
				nd.NotifyMsg(wire.Encode(wire.Leave, &wire.MsgLeave{LTime: 3, Node: name}))
			case "left":
				nd.NotifyMsg(wire.Encode(wire.Leave, &wire.MsgLeave{LTime: 3, Node: name}))
				nd.NotifyLeave(cluster.FakeNode(name, fmt.Sprintf("10.0.1.%d", i+1), 7946, nil))
			case "failed":
				nd.NotifyLeave(cluster.FakeNode(name, fmt.Sprintf("10.0.1.%d", i+1), 7946, nil))
			}
			subjects = append(subjects, name)
		}
		synctest.Wait()
		tr.poll(nd) // setup traffic is not judged
		fmt.Fprintf(&sb, "members=%v ", nd.MemberMap())

		pool := c04Pool(rng, subjects)
		enq := map[string]int{}    // content -> enqueue count
		erases := map[string]int{} // subject -> reap events seen
		evCursor := nd.EventCount()
		noteErases := func() {
			evs := nd.Events()
			for _, le := range evs[evCursor:] {
				if me, ok := le.E.(serf.MemberEvent); ok && me.Type == serf.EventMemberReap {
					for _, m := range me.Members {
						erases[m.Name]++
						stats["erases"]++
					}
				}
			}
			evCursor = len(evs)
		}
		subjectOf := map[string]string{}
		descOf := map[string]string{}
		for _, m := range pool {
			subjectOf[string(m.Buf)] = m.Subject
			descOf[string(m.Buf)] = m.Desc
		}
		erasedAtFirst := map[string]int{} // content -> erases[subject] when first enqueued
		judge := func(step string, fresh [][]byte, delivered map[string]bool, merge bool) {
			prevErases := map[string]int{} // erases seen before this step
			for k, v := range erases {
				prevErases[k] = v
			}
			noteErases()
			// a leave about the node itself delivered in this step may trigger a refutation
			// join, a NEW message whose bytes can coincide with a join delivered in the
			// same (parallel) step; such a coincidence is not a re-broadcast
			selfLeave := false
			for d := range delivered {
				if len(d) > 0 && d[0] == wire.Leave && subjectOf[d] == "self" {
					selfLeave = true
				}
			}
			countedSelfJoin := map[string]bool{}
			for _, f := range fresh {
				k := string(f)
				if selfLeave && c04IsSelfJoin(f, "self") {
					if countedSelfJoin[k] {
						stats["refutation_joins"]++
						continue
					}
					countedSelfJoin[k] = true
				}
				if merge {
					if c04IsSelfJoin(f, "self") {
						stats["refutation_joins"]++
						continue
					}
					viols = append(viols, [2]string{"merge-enqueue", fmt.Sprintf("%s: state-sync merge enqueued a broadcast: % x", step, f)})
					continue
				}
				if !delivered[k] {
					if c04IsSelfJoin(f, "self") {
						stats["refutation_joins"]++
						continue
					}
					viols = append(viols, [2]string{"foreign-enqueue", fmt.Sprintf("%s: enqueued a message that was not delivered in this step: % x", step, f)})
					continue
				}
				enq[k]++
				stats["rebroadcasts"]++
				if enq[k] == 1 {
					erasedAtFirst[k] = prevErases[subjectOf[k]]
				}
				if enq[k] > 1 {
					subj := subjectOf[k]
					if subj != "" && enq[k] <= 1+(erases[subj]-erasedAtFirst[k]) {
						// the subject was erased by a prune since the message was first
						// re-broadcast: the node forgot the status time (listed known finding)
						viols = append(viols, [2]string{"intent-duplicate-after-prune-erase", fmt.Sprintf("%s: %s re-broadcast %d times (member %q was erased by a prune in between)", step, descOf[k], enq[k], subj)})
					} else {
						viols = append(viols, [2]string{"rebroadcast-twice", fmt.Sprintf("%s: %s re-broadcast %d times", step, descOf[k], enq[k])})
					}
				}
			}
		}
		steps := 10 + rng.Intn(50)
		for i := 0; i < steps && len(viols) < 4; i++ {
			switch x := rng.Intn(12); {
			case x < 9:
				if concurrent {
					k := 2 + rng.Intn(5)
					delivered := map[string]bool{}
					wg := newBGroup()
					var names []string
					for g := 0; g < k; g++ {
						m := pool[rng.Intn(len(pool))]
						if g > 0 && rng.Intn(2) == 0 {
							m = pool[rng.Intn(len(pool))]
						}
						delivered[string(m.Buf)] = true
						names = append(names, m.Desc)
						b := append([]byte(nil), m.Buf...)
						wg.Go(func() {
							nd.NotifyMsg(b)
							nd.NotifyMsg(b)
						})
					}
					wg.Wait()
					synctest.Wait()
					fmt.Fprintf(&sb, "par%v ", names)
					judge(fmt.Sprintf("step %d parallel %v", i, names), tr.poll(nd), delivered, false)
					stats["deliveries"] += 2 * k
				} else {
					m := pool[rng.Intn(len(pool))]
					nd.NotifyMsg(append([]byte(nil), m.Buf...))
					synctest.Wait()
					sb.WriteString(m.Desc + " ")
					judge(fmt.Sprintf("step %d %s", i, m.Desc), tr.poll(nd), map[string]bool{string(m.Buf): true}, false)
					stats["deliveries"]++
				}
			case x < 11:
				// push/pull with random content
				pp := &wire.MsgPushPull{LTime: uint64(1 + rng.Intn(14)), StatusLTimes: map[string]uint64{}, EventLTime: uint64(1 + rng.Intn(12)), QueryLTime: uint64(1 + rng.Intn(12))}
				for _, s := range subjects {
					if rng.Intn(2) == 0 {
						pp.StatusLTimes[s] = uint64(rng.Intn(14))
						if rng.Intn(3) == 0 {
							pp.LeftMembers = append(pp.LeftMembers, s)
						}
					}
				}
				pp.Events = []*wire.UserEvents{{LTime: uint64(1 + rng.Intn(10)), Events: []wire.UserEv{{Name: "e", Payload: []byte(fmt.Sprint(rng.Intn(3)))}}}}
				nd.ML.Delegate.MergeRemoteState(wire.Encode(wire.PushPull, pp), rng.Intn(2) == 0)
				synctest.Wait()
				fmt.Fprintf(&sb, "merge(%v,left=%v) ", pp.StatusLTimes, pp.LeftMembers)
				judge(fmt.Sprintf("step %d merge", i), tr.poll(nd), nil, true)
				stats["merges"]++
			default:
				// a membership change from memberlist
				if len(subjects) <= 2 {
					continue
				}
				s := subjects[2+rng.Intn(len(subjects)-2)]
				idx := 0
				for j, st := range states {
					if st == s {
						idx = j + 1
					}
				}
				if rng.Intn(2) == 0 {
					nd.NotifyJoin(cluster.FakeNode(s, fmt.Sprintf("10.0.1.%d", idx), 7946, nil))
					sb.WriteString("up(" + s + ") ")
				} else {
					nd.NotifyLeave(cluster.FakeNode(s, fmt.Sprintf("10.0.1.%d", idx), 7946, nil))
					sb.WriteString("down(" + s + ") ")
				}
				synctest.Wait()
				judge(fmt.Sprintf("step %d notify", i), tr.poll(nd), nil, true)
			}
			time.Sleep(time.Duration(rng.Intn(1500)) * time.Millisecond)
		}
		dups := 0
		for _, c := range enq {
			if c >= 1 {
				dups++
			}
		}
		stats["contents_rebroadcast"] = dups
	})
	desc = sb.String()
	return
}

// c04Edge: user events and queries whose Lamport times sit at the edges of small
// de-duplication buffers (t, t+B-1, t+B, t+B+1, t+2B ...: same slot, just inside, just
// outside the window), delivered with duplicates in any order. Whatever the window, a
// given message may be re-broadcast at most once: after it has been handled the clock is
// past it, so every handled message that is still in the window has a slot of its own.
func c04Edge(t *testing.T, rng *rand.Rand) (viols [][2]string, stats map[string]int, desc string) {
	stats = map[string]int{}
	var sb strings.Builder
	synctest.Test(t, func(t *testing.T) {
		B := []int{1, 2, 3, 4, 8, 16}[rng.Intn(6)]
		// the two buffers are configured independently: half of the histories give the query
		// buffer a size of its own
		BQ := B
		if rng.Intn(2) == 0 {
			BQ = []int{1, 2, 3, 4, 8, 16, 32}[rng.Intn(7)]
		}
		net := simnet.New(1)
		nd, err := cluster.Start(net, cluster.Opts{Name: "self", IP: "10.0.0.1", Profile: "passive", EventBuf: 1 << 15,
			Mutate: func(c *serf.Config) {
				c.BroadcastTimeout, c.LeavePropagateDelay = 0, 0
				c.EventBuffer, c.QueryBuffer = B, BQ
			}})
		if err != nil {
			viols = append(viols, [2]string{"setup", err.Error()})
			return
		}
		defer nd.Close()
		tr := &c04Tracker{seenPtr: map[uintptr]bool{}}
		synctest.Wait()
		tr.poll(nd)
		base := uint64(1 + rng.Intn(3*B+2))
		offs := []int{0, 1, B - 1, B, B + 1, 2*B - 1, 2 * B, 2*B + 1, 3 * B}
		if BQ != B {
			stats["histories_with_differing_buffer_sizes"]++
			offs = append(offs, BQ-1, BQ, BQ+1, 2*BQ, 2*BQ+1)
		}
		var pool []c04Msg
		for i, n := 0, 4+rng.Intn(8); i < n; i++ {
			lt := base + uint64(offs[rng.Intn(len(offs))])
			if rng.Intn(2) == 0 {
				pl := fmt.Sprint(rng.Intn(2))
				pool = append(pool, c04Msg{wire.Encode(wire.UserEvent, &wire.MsgUserEvent{LTime: lt, Name: "e", Payload: []byte(pl)}), fmt.Sprintf("event(%d,%s)", lt, pl), ""})
			} else {
				id := uint32(rng.Intn(2))
				pool = append(pool, c04Msg{wire.Encode(wire.Query, &wire.MsgQuery{LTime: lt, ID: id, Addr: []byte{10, 0, 0, 9}, Port: 7946, SourceNode: "src",
					Timeout: time.Second, Name: "q"}), fmt.Sprintf("query(%d,id%d)", lt, id), ""})
			}
		}
		fmt.Fprintf(&sb, "EventBuffer=%d QueryBuffer=%d ", B, BQ)
		enq := map[string]int{}
		descOf := map[string]string{}
		for _, m := range pool {
			descOf[string(m.Buf)] = m.Desc
		}
		steps := 10 + rng.Intn(50)
		for i := 0; i < steps && len(viols) < 3; i++ {
			if rng.Intn(10) == 0 {
				lt := base + uint64(offs[rng.Intn(len(offs))])
				pp := &wire.MsgPushPull{LTime: 1, StatusLTimes: map[string]uint64{}, EventLTime: lt + uint64(rng.Intn(2)), QueryLTime: base + uint64(offs[rng.Intn(len(offs))])}
				pp.Events = []*wire.UserEvents{{LTime: lt, Events: []wire.UserEv{{Name: "e", Payload: []byte(fmt.Sprint(rng.Intn(2)))}}}}
				nd.ML.Delegate.MergeRemoteState(wire.Encode(wire.PushPull, pp), false)
				synctest.Wait()
				fmt.Fprintf(&sb, "merge(ev=%d,evclock=%d,qclock=%d) ", lt, pp.EventLTime, pp.QueryLTime)
				stats["merges"]++
				for _, f := range tr.poll(nd) {
					viols = append(viols, [2]string{"merge-enqueue", fmt.Sprintf("step %d: state-sync merge enqueued a broadcast: % x", i, f)})
				}
				continue
			}
			m := pool[rng.Intn(len(pool))]
			nd.NotifyMsg(append([]byte(nil), m.Buf...))
			synctest.Wait()
			sb.WriteString(m.Desc + " ")
			stats["deliveries"]++
			for _, f := range tr.poll(nd) {
				k := string(f)
				if k != string(m.Buf) {
					viols = append(viols, [2]string{"foreign-enqueue", fmt.Sprintf("step %d %s: enqueued a message that was not delivered in this step: % x", i, m.Desc, f)})
					continue
				}
				enq[k]++
				stats["rebroadcasts"]++
				if enq[k] > 1 {
					viols = append(viols, [2]string{"rebroadcast-twice/window-edge", fmt.Sprintf("step %d: %s re-broadcast %d times (EventBuffer %d, QueryBuffer %d)", i, descOf[k], enq[k], B, BQ)})
				}
			}
		}
	})
	desc = sb.String()
	return
}


// c04Crowded: many DISTINCT user events (queries) carry one and the same Lamport time - every
// UserEvent call stamps the local clock, so a cluster-wide cron firing `serf event` on every node
// produces exactly that. Each of them is re-broadcast once when it is first seen and never
// again, however many there are and however often copies of them come back.
func c04Crowded(t *testing.T, rng *rand.Rand) (viols [][2]string, stats map[string]int, desc string) {
	stats = map[string]int{}
	n := 2 + rng.Intn(70)
	lt := uint64(1 + rng.Intn(500))
	queries := rng.Intn(3) == 0
	desc = fmt.Sprintf("%d distinct messages (queries=%v) at Lamport time %d", n, queries, lt)
	synctest.Test(t, func(t *testing.T) {
		net := simnet.New(1)
		nd, err := cluster.Start(net, cluster.Opts{Name: "self", IP: "10.0.0.1", Profile: "passive", EventBuf: 1 << 15,
			Mutate: func(c *serf.Config) { c.BroadcastTimeout, c.LeavePropagateDelay = 0, 0 }})
		if err != nil {
			viols = append(viols, [2]string{"setup", err.Error()})
			return
		}
		defer nd.Close()
		tr := &c04Tracker{seenPtr: map[uintptr]bool{}}
		synctest.Wait()
		tr.poll(nd)
		msgs := make([][]byte, n)
		for i := range msgs {
			if queries {
				msgs[i] = wire.Encode(wire.Query, &wire.MsgQuery{LTime: lt, ID: uint32(1000 + i), Addr: []byte{10, 0, 0, 9}, Port: 7946, SourceNode: "src", Timeout: time.Second, Name: "q"})
			} else {
				msgs[i] = wire.Encode(wire.UserEvent, &wire.MsgUserEvent{LTime: lt, Name: "cron", Payload: []byte(fmt.Sprint("node-", i))})
			}
		}
		enq := map[string]int{}
		deliver := func(i int, round string) {
			nd.NotifyMsg(append([]byte(nil), msgs[i]...))
			synctest.Wait()
			stats["deliveries"]++
			for _, f := range tr.poll(nd) {
				k := string(f)
				if k != string(msgs[i]) {
					viols = append(viols, [2]string{"foreign-enqueue", fmt.Sprintf("%s: delivery of message %d enqueued another message", round, i)})
					continue
				}
				enq[k]++
				stats["rebroadcasts"]++
				if enq[k] > 1 && len(viols) < 3 {
					viols = append(viols, [2]string{"rebroadcast-twice/crowded-time", fmt.Sprintf("%s: message %d of %d distinct ones at Lamport time %d was re-broadcast %d times", round, i, n, lt, enq[k])})
				}
			}
		}
		for i := range msgs {
			deliver(i, "first copies")
		}
		for round := 0; round < 3 && len(viols) == 0; round++ {
			for _, i := range rng.Perm(n) {
				deliver(i, fmt.Sprintf("duplicates, round %d", round+1))
			}
		}
	})
	return
}

// c04SameRace: several copies of one NEW message arrive at the same instant on different
// goroutines (memberlist hands a UDP packet and every TCP stream to NotifyMsg on goroutines
// of their own). However the copies interleave inside the node, the message is re-broadcast once.
func c04SameRace(t *testing.T, rng *rand.Rand, rounds int) (viols [][2]string, stats map[string]int) {
	stats = map[string]int{}
	synctest.Test(t, func(t *testing.T) {
		net := simnet.New(1)
		nd, err := cluster.Start(net, cluster.Opts{Name: "self", IP: "10.0.0.1", Profile: "passive", EventBuf: 1 << 15,
			Mutate: func(c *serf.Config) { c.BroadcastTimeout, c.LeavePropagateDelay = 0, 0 }})
		if err != nil {
			viols = append(viols, [2]string{"setup", err.Error()})
			return
		}
		defer nd.Close()
		nd.NotifyJoin(cluster.FakeNode("alive", "10.0.1.1", 7946, nil))
		tr := &c04Tracker{seenPtr: map[uintptr]bool{}}
		synctest.Wait()
		tr.poll(nd)
		for round := 0; round < rounds && len(viols) == 0; round++ {
			lt := uint64(100 + round)
			var msg []byte
			var desc string
			switch rng.Intn(4) {
			case 0:
				msg, desc = wire.Encode(wire.UserEvent, &wire.MsgUserEvent{LTime: lt, Name: "e", Payload: []byte("p")}), fmt.Sprintf("event(%d)", lt)
			case 1:
				msg, desc = wire.Encode(wire.Query, &wire.MsgQuery{LTime: lt, ID: uint32(round), Addr: []byte{10, 0, 0, 9}, Port: 7946, SourceNode: "src", Timeout: time.Second, Name: "q"}), fmt.Sprintf("query(%d)", lt)
			case 2:
				msg, desc = wire.Encode(wire.Join, &wire.MsgJoin{LTime: lt, Node: "alive"}), fmt.Sprintf("join(alive,%d)", lt)
			default:
				msg, desc = wire.Encode(wire.Join, &wire.MsgJoin{LTime: lt, Node: fmt.Sprintf("unknown-%d", round%3)}), fmt.Sprintf("join(unknown,%d)", lt)
			}
			k := 2 + rng.Intn(7)
			var start atomic.Bool
			g := newBGroup()
			for i := 0; i < k; i++ {
				b := append([]byte(nil), msg...)
				g.Go(func() {
					for !start.Load() {
					}
					nd.NotifyMsg(b)
				})
			}
			start.Store(true)
			g.Wait()
			synctest.Wait()
			n := 0
			for _, f := range tr.poll(nd) {
				if string(f) == string(msg) {
					n++
				}
			}
			stats["same_message_races"]++
			stats["same_message_copies"] += k
			if n > 1 {
				viols = append(viols, [2]string{"rebroadcast-twice/simultaneous-copies", fmt.Sprintf("round %d: %d copies of %s delivered at the same instant on %d goroutines were re-broadcast %d times", round, k, desc, k, n)})
			}
		}
	})
	return
}

func TestC04(t *testing.T) {
	r := evid.Start(t, "C04", "exploration")
	race := os.Getenv("VERIF_PHASE") == "race"
	n := r.N(3000, 100000)
	nc := r.N(600, 20000)
	if race {
		n, nc = r.N(60, 2000), r.N(120, 4000)
	}
	run := func(group string, n int, conc bool) {
		r.Cases(group, n, 0, func(ci int, rng *rand.Rand) {
			viols, stats, desc := c04History(t, rng, conc)
			r.Eval(1)
			for k, v := range stats {
				r.Count(group+"_"+k, v)
			}
			if stats["rebroadcasts"] > 0 && stats["deliveries"] > stats["rebroadcasts"] {
				r.Distinct(desc)
			}
			for _, v := range viols {
				r.Violation(v[0], ci, v[1]+" ; history: "+desc, desc)
			}
			if ci == 2 {
				r.Sample(map[string]any{"mode": group, "history": desc, "stats": stats})
			}
		})
	}
	run("seq", n, false)
	run("conc", nc, true)
	nr := r.N(48, 1500)
	if race {
		nr = r.N(8, 100)
	}
	r.Cases("samerace", nr, 0, func(ci int, rng *rand.Rand) {
		viols, stats := c04SameRace(t, rng, 1500)
		r.Eval(1)
		for k, v := range stats {
			r.Count(k, v)
		}
		for _, v := range viols {
			r.Violation(v[0], ci, v[1], v[1])
		}
	})
	ne := r.N(3000, 100000)
	if race {
		ne = r.N(60, 2000)
	}
	r.Cases("edge", ne, 0, func(ci int, rng *rand.Rand) {
		viols, stats, desc := c04Edge(t, rng)
		r.Eval(1)
		for k, v := range stats {
			r.Count("edge_"+k, v)
		}
		if stats["rebroadcasts"] > 0 && stats["deliveries"] > stats["rebroadcasts"] {
			r.Distinct(desc)
		}
		for _, v := range viols {
			r.Violation(v[0], ci, v[1]+" ; history: "+desc, desc)
		}
	})
	r.Cases("crowded", r.N(120, 3000), 0, func(ci int, rng *rand.Rand) {
		viols, stats, desc := c04Crowded(t, rng)
		r.Eval(1)
		for k, v := range stats {
			r.Count("crowded_"+k, v)
		}
		if stats["rebroadcasts"] > 16 {
			r.Distinct(desc)
		}
		for _, v := range viols {
			r.Violation(v[0], ci, v[1]+" ; "+desc, desc)
		}
	})
	floor := 300
	if race {
		floor = 10
	}
	r.Finish("histories of 10-60 steps on one real node whose members cover unknown/alive/leaving/left/failed/self: gossip deliveries drawn with replacement from a pool of 6-20 join/leave(±prune)/user-event/query messages (LTimes 1-12, so duplicates and stale/newer variants abound), random state-sync merges and memberlist up/down notifications; concurrent variant delivers 2-6 messages twice each from parallel goroutines; new queue entries are identified by buffer identity after every step; non-trivial = history with at least one re-broadcast and at least one suppressed delivery",
		floor, "histories span < 5 virtual minutes (recent-intent retention) and LTimes stay inside the 64-slot event/query buffers", "a refutation join about the node itself is a new message, not a re-broadcast")
}
