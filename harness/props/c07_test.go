package props

import (
	"bytes"
	"encoding/json"
	"fmt"
	"hash/fnv"
	"math/rand"
	"net"
	"os"
	"os/exec"
	"path/filepath"
	"regexp"
	"runtime"
	"sort"
	"strconv"
	"strings"
	"sync"
	"sync/atomic"
	"testing"
	"testing/synctest"
	"time"

	"github.com/hashicorp/serf/serf"

	"verif/harness/cluster"
	"verif/harness/evid"
	"verif/harness/simnet"
	"verif/harness/wire"
)

// C07: query replies are routed to their query exactly once and never after close.
//
// One real serf node issues 1-3 overlapping real queries; 2-6 puppets (real,
// alive memberlist members, so the result channels have real capacity) send
// scripted acks/responses: direct, relayed (through the node's own relay
// unwrapping or through another puppet), handed straight to NotifyMsg,
// duplicated, for the sibling query, with wrong ids / Lamport times, and at
// deadline-1ms / deadline / deadline+1ms in virtual time. Consumer goroutines
// drain AckCh/ResponseCh into a log stamped with virtual time.
//
// A second mode delivers the same replies from several goroutines at once
// through NotifyMsg (memberlist does call NotifyMsg concurrently).
//
// Everything runs in child processes (the test binary re-executed) so that a
// double close / send on closed channel / "concurrent map read and map write"
// becomes a recorded violation with the crash output as witness.

const (
	c07PathDirect = iota
	c07PathRelaySelf
	c07PathRelayPuppet
	c07PathNotify
)

// scenarios run per bubble (per node + puppet set)
const c07Episodes = 6

var c07PathNames = []string{"direct", "relay-self", "relay-puppet", "notify"}

type c07QuerySpec struct {
	Ack        bool
	Timeout    time.Duration
	StartAt    time.Duration
	EarlyClose time.Duration // 0 = never; offset from scenario start
}

type c07ReplySpec struct {
	At     time.Duration // offset from scenario start (sequential mode)
	LTOf   int           // query whose Lamport time is used
	LTAdd  uint64        // added to that time (wrong-time replies)
	IDOf   int           // query whose id is used; -1 = random other id
	Flags  uint32
	From   string
	Path   int
	Sender int
	Via    int
	Copies int
	Kind   string // generator's label: match, sibling, wrongid, wrongtime
	Edge   string // "", "d-1ms", "d", "d+1ms", "late"
}

type c07Scenario struct {
	Mode     string // "seq" | "conc"
	NP       int
	Queries  []c07QuerySpec
	Replies  []c07ReplySpec
	G        int  // concurrent mode: delivering goroutines
	Burst    bool // concurrent mode: every goroutine delivers the whole list in its own order
	IssueCon bool
}

type c07Sent struct {
	At      time.Duration
	LTime   uint64
	ID      uint32
	From    string
	Flags   uint32
	Payload string
	Path    string
}

type c07Got struct {
	At      time.Duration
	From    string
	Payload string
}

type c07QueryLog struct {
	LTime     uint64
	ID        uint32
	Ack       bool
	IssuedAt  time.Duration
	Deadline  time.Duration
	CloseWant time.Duration
	Acks      []c07Got
	Resps     []c07Got
	AckClosed time.Duration // -1 = never observed closed
	RespClose time.Duration
}

type c07Viol struct {
	Key     string
	Msg     string
	Witness any
}

type c07Outcome struct {
	Err       string
	Viols     []c07Viol
	Queries   []*c07QueryLog
	Sent      []c07Sent
	Received  int
	Expect    int // deliverable (matching, first per node, strictly before close)
	DupSupp   int // matching copies beyond the first per node sent before close
	Mismatch  int
	Edge      int
	Late      int
	NotifyCon int
}

// c07Group is a channel-based WaitGroup for use inside synctest bubbles (go1.25's
// sync.WaitGroup aborts when its address is recycled across bubbles). Go must be
// called from one goroutine only.
type c07Group struct {
	n  int
	ch chan struct{}
}

func newC07Group() *c07Group { return &c07Group{ch: make(chan struct{}, 4096)} }

func (g *c07Group) Go(f func()) {
	g.n++
	go func() {
		defer func() { g.ch <- struct{}{} }()
		f()
	}()
}

func (g *c07Group) Wait() {
	for ; g.n > 0; g.n-- {
		<-g.ch
	}
}

func c07Hash(parts ...string) int64 {
	h := fnv.New64a()
	for _, p := range parts {
		h.Write([]byte(p))
		h.Write([]byte{0})
	}
	return int64(h.Sum64())
}

// ---- generators

func c07GenSeq(rng *rand.Rand, np int) *c07Scenario {
	sc := &c07Scenario{Mode: "seq", NP: np}
	nq := 1 + rng.Intn(3)
	timeouts := []time.Duration{50 * time.Millisecond, 200 * time.Millisecond, time.Second, 3 * time.Second}
	for i := 0; i < nq; i++ {
		q := c07QuerySpec{Ack: rng.Intn(5) != 0, Timeout: timeouts[rng.Intn(len(timeouts))]}
		if i > 0 {
			switch rng.Intn(3) {
			case 0: // same instant
			case 1:
				q.StartAt = time.Duration(rng.Intn(40)) * time.Millisecond
			default:
				q.StartAt = time.Duration(rng.Intn(300)) * time.Millisecond
			}
		}
		if rng.Intn(8) == 0 {
			q.EarlyClose = q.StartAt + time.Duration(1+rng.Intn(int(q.Timeout/time.Millisecond)))*time.Millisecond
		}
		sc.Queries = append(sc.Queries, q)
	}
	froms := make([]string, 0, sc.NP+1)
	for i := 0; i < sc.NP; i++ {
		froms = append(froms, fmt.Sprintf("p%d", i))
	}
	froms = append(froms, "ghost")
	nr := 6 + rng.Intn(20)
	for i := 0; i < nr; i++ {
		j := rng.Intn(nq)
		q := sc.Queries[j]
		rp := c07ReplySpec{LTOf: j, IDOf: j, From: froms[rng.Intn(len(froms))], Sender: rng.Intn(sc.NP), Via: rng.Intn(sc.NP), Copies: 1, Kind: "match"}
		if rng.Intn(2) == 0 {
			rp.Flags = wire.FlagAck
		}
		if rng.Intn(12) == 0 {
			rp.Flags |= wire.FlagNoBroadcast // an unrelated bit must not matter
		}
		switch x := rng.Intn(100); {
		case x < 60:
		case x < 75 && nq > 1:
			k := (j + 1 + rng.Intn(nq-1)) % nq
			rp.IDOf, rp.Kind = k, "sibling"
		case x < 88:
			rp.IDOf, rp.Kind = -1, "wrongid"
		default:
			rp.LTAdd, rp.Kind = uint64(1+rng.Intn(3)), "wrongtime"
			if rng.Intn(2) == 0 {
				rp.LTAdd = 1000
			}
		}
		dl := q.StartAt + q.Timeout
		switch x := rng.Intn(100); {
		case x < 50:
			rp.At = q.StartAt + time.Duration(rng.Int63n(int64(q.Timeout)))
			rp.At = rp.At.Truncate(100 * time.Microsecond)
		case x < 62:
			rp.At, rp.Edge = dl-time.Millisecond, "d-1ms"
		case x < 76:
			rp.At, rp.Edge = dl, "d"
		case x < 88:
			rp.At, rp.Edge = dl+time.Millisecond, "d+1ms"
		default:
			rp.At, rp.Edge = dl+time.Duration(2+rng.Intn(500))*time.Millisecond, "late"
		}
		// a reply can only be scripted once every query it names has been issued
		for _, k := range []int{rp.LTOf, rp.IDOf} {
			if k >= 0 && rp.At < sc.Queries[k].StartAt {
				rp.At = sc.Queries[k].StartAt
			}
		}
		rp.Path = []int{c07PathDirect, c07PathDirect, c07PathRelaySelf, c07PathRelayPuppet, c07PathNotify}[rng.Intn(5)]
		if rng.Intn(4) == 0 {
			rp.Copies = 2 + rng.Intn(2)
		}
		sc.Replies = append(sc.Replies, rp)
	}
	return sc
}

func c07GenConc(rng *rand.Rand, np int) *c07Scenario {
	sc := &c07Scenario{Mode: "conc", NP: np, G: 3 + rng.Intn(6), Burst: rng.Intn(4) == 0, IssueCon: false}
	nq := 1 + rng.Intn(2)
	for i := 0; i < nq; i++ {
		sc.Queries = append(sc.Queries, c07QuerySpec{Ack: rng.Intn(6) != 0, Timeout: time.Second})
	}
	froms := []string{"ghost"}
	for i := 0; i < sc.NP; i++ {
		froms = append(froms, fmt.Sprintf("p%d", i))
	}
	for j := 0; j < nq; j++ {
		for _, f := range froms {
			if rng.Intn(5) == 0 {
				continue
			}
			sc.Replies = append(sc.Replies, c07ReplySpec{LTOf: j, IDOf: j, From: f, Flags: wire.FlagAck, Path: c07PathNotify, Copies: 1, Kind: "match"})
			sc.Replies = append(sc.Replies, c07ReplySpec{LTOf: j, IDOf: j, From: f, Path: c07PathNotify, Copies: 1, Kind: "match"})
		}
	}
	for i := rng.Intn(4); i > 0; i-- {
		j := rng.Intn(nq)
		rp := c07ReplySpec{LTOf: j, IDOf: -1, From: froms[rng.Intn(len(froms))], Path: c07PathNotify, Copies: 1, Kind: "wrongid"}
		if nq > 1 && rng.Intn(2) == 0 {
			rp.IDOf, rp.Kind = (j+1)%nq, "sibling"
		}
		if rng.Intn(2) == 0 {
			rp.Flags = wire.FlagAck
		}
		sc.Replies = append(sc.Replies, rp)
	}
	rng.Shuffle(len(sc.Replies), func(a, b int) { sc.Replies[a], sc.Replies[b] = sc.Replies[b], sc.Replies[a] })
	return sc
}

func (sc *c07Scenario) sig() string {
	var sb strings.Builder
	fmt.Fprintf(&sb, "%s np=%d g=%d b=%v|", sc.Mode, sc.NP, sc.G, sc.Burst)
	for _, q := range sc.Queries {
		fmt.Fprintf(&sb, "Q(%v,%v,%v,%v)", q.Ack, q.Timeout, q.StartAt, q.EarlyClose)
	}
	for _, r := range sc.Replies {
		fmt.Fprintf(&sb, "R(%v,%d,%d,%d,%d,%s,%d,%d)", r.At, r.LTOf, r.LTAdd, r.IDOf, r.Flags, r.From, r.Path, r.Copies)
	}
	return sb.String()
}

// ---- one scenario on the real code

type c07Env struct {
	nd      *cluster.Node
	pups    []*cluster.Puppet
	t0      time.Time
	mu      sync.Mutex
	sent    []c07Sent
	serial  int
	qrs     []*serf.QueryResponse
	logs    []*c07QueryLog
	stop    chan struct{}
	wg      *c07Group
	destUDP net.UDPAddr
}

func (e *c07Env) now() time.Duration { return time.Since(e.t0) }

func (e *c07Env) issue(i int, q c07QuerySpec) error {
	before := e.now()
	qr, err := e.nd.S.Query(fmt.Sprintf("q%d", i), []byte{byte(i)}, &serf.QueryParam{RequestAck: q.Ack, Timeout: q.Timeout})
	if err != nil {
		return err
	}
	// the query message as queued for gossip tells us id and Lamport time
	var mq *wire.MsgQuery
	for _, b := range e.nd.DrainBroadcasts() {
		if len(b) > 0 && b[0] == wire.Query {
			var m wire.MsgQuery
			if wire.Decode(b[1:], &m) == nil && m.Name == fmt.Sprintf("q%d", i) {
				mq = &m
			}
		}
	}
	if mq == nil {
		return fmt.Errorf("query %d not found in the broadcast queue", i)
	}
	lg := &c07QueryLog{LTime: mq.LTime, ID: mq.ID, Ack: q.Ack, IssuedAt: before, Deadline: before + q.Timeout, AckClosed: -1, RespClose: -1}
	lg.CloseWant = lg.Deadline
	if q.EarlyClose > 0 && q.EarlyClose < lg.Deadline {
		lg.CloseWant = q.EarlyClose
	}
	e.mu.Lock()
	e.qrs[i] = qr
	e.logs[i] = lg
	if q.Ack {
		// the node answers its own query: serf itself sends this ack while Query() runs
		e.sent = append(e.sent, c07Sent{At: before, LTime: mq.LTime, ID: mq.ID, From: e.nd.Name, Flags: wire.FlagAck, Path: "self"})
	}
	e.mu.Unlock()
	e.wg.Go(func() {
		ackCh, respCh := qr.AckCh(), qr.ResponseCh()
		for ackCh != nil || respCh != nil {
			select {
			case a, ok := <-ackCh:
				e.mu.Lock()
				if !ok {
					lg.AckClosed = e.now()
					ackCh = nil
				} else {
					lg.Acks = append(lg.Acks, c07Got{At: e.now(), From: a})
				}
				e.mu.Unlock()
			case r, ok := <-respCh:
				e.mu.Lock()
				if !ok {
					lg.RespClose = e.now()
					respCh = nil
				} else {
					lg.Resps = append(lg.Resps, c07Got{At: e.now(), From: r.From, Payload: string(r.Payload)})
				}
				e.mu.Unlock()
			case <-e.stop:
				return
			}
		}
	})
	return nil
}

// build encodes a reply; returns nil when a query it refers to is not issued yet.
func (e *c07Env) build(rp c07ReplySpec, rng *rand.Rand) (*wire.MsgQueryResponse, []byte) {
	e.mu.Lock()
	defer e.mu.Unlock()
	if e.logs[rp.LTOf] == nil || (rp.IDOf >= 0 && e.logs[rp.IDOf] == nil) {
		return nil, nil
	}
	m := &wire.MsgQueryResponse{LTime: e.logs[rp.LTOf].LTime + rp.LTAdd, From: rp.From, Flags: rp.Flags}
	if rp.IDOf >= 0 {
		m.ID = e.logs[rp.IDOf].ID
	} else {
		for {
			m.ID = uint32(rng.Int31())
			clash := false
			for _, l := range e.logs {
				if l != nil && l.ID == m.ID {
					clash = true
				}
			}
			if !clash {
				break
			}
		}
	}
	e.serial++
	m.Payload = []byte(fmt.Sprintf("s%d", e.serial))
	return m, wire.Encode(wire.QueryResponse, m)
}

func (e *c07Env) logSent(m *wire.MsgQueryResponse, path int) {
	e.mu.Lock()
	e.sent = append(e.sent, c07Sent{At: e.now(), LTime: m.LTime, ID: m.ID, From: m.From, Flags: m.Flags, Payload: string(m.Payload), Path: c07PathNames[path]})
	e.mu.Unlock()
}

func (e *c07Env) send(rp c07ReplySpec, m *wire.MsgQueryResponse, buf []byte) {
	e.logSent(m, rp.Path)
	switch rp.Path {
	case c07PathDirect:
		_ = e.pups[rp.Sender].Send(e.nd.Addr, e.nd.Name, buf)
	case c07PathRelaySelf:
		_ = e.pups[rp.Sender].Send(e.nd.Addr, e.nd.Name, wire.EncodeRelay(e.destUDP, e.nd.Name, buf))
	case c07PathRelayPuppet:
		via := e.pups[rp.Via]
		_ = e.pups[rp.Sender].Send(via.Addr, via.Name, wire.EncodeRelay(e.destUDP, e.nd.Name, buf))
	case c07PathNotify:
		e.nd.NotifyMsg(buf)
	}
}

// c07Run runs several scenarios (episodes, same puppet count) one after the other against one
// node + puppet set inside one bubble: creating the members dominates the cost under -race.
func c07Run(t *testing.T, scs []*c07Scenario, seed int64) []*c07Outcome {
	outs := make([]*c07Outcome, len(scs))
	for i := range outs {
		outs[i] = &c07Outcome{}
	}
	rng := rand.New(rand.NewSource(seed))
	// synctest.Test calls t.FailNow (=> Goexit of the calling goroutine) when the race detector
	// fired inside the bubble, so the bubble gets a goroutine of its own.
	bubbleDone := make(chan struct{})
	go func() {
		defer close(bubbleDone)
		c07Bubble(t, scs, seed, rng, outs)
	}()
	<-bubbleDone
	for i, out := range outs {
		if out.Err != "" {
			continue
		}
		if out.Queries == nil {
			out.Err = "bubble did not complete"
			continue
		}
		c07Judge(scs[i], out)
	}
	return outs
}

func c07Bubble(t *testing.T, scs []*c07Scenario, seed int64, rng *rand.Rand, outs []*c07Outcome) {
	synctest.Test(t, func(t *testing.T) {
		fail := func(msg string) {
			for _, o := range outs {
				if o.Queries == nil && o.Err == "" {
					o.Err = msg
				}
			}
		}
		np := scs[0].NP
		nw := simnet.New(seed)
		nd, err := cluster.Start(nw, cluster.Opts{Name: "n1", IP: "10.7.0.1", Profile: "passive"})
		if err != nil {
			fail("start: " + err.Error())
			return
		}
		defer nd.Close()
		var pups []*cluster.Puppet
		for i := 0; i < np; i++ {
			p, err := cluster.StartPuppet(nw, cluster.PuppetOpts{Name: fmt.Sprintf("p%d", i), IP: fmt.Sprintf("10.7.0.%d", 10+i), Profile: "passive"})
			if err != nil {
				fail("puppet: " + err.Error())
				return
			}
			defer p.Close()
			p.OnMsg = func(p *cluster.Puppet, buf []byte) { // a puppet relays like a serf node would
				if len(buf) > 0 && buf[0] == wire.Relay {
					if hdr, inner, err := wire.DecodeRelay(buf); err == nil {
						_ = p.Send(hdr.DestAddr.String(), hdr.DestName, inner)
					}
				}
			}
			if _, err := p.ML.Join([]string{nd.Addr}); err != nil {
				fail("join: " + err.Error())
				return
			}
			pups = append(pups, p)
		}
		synctest.Wait()
		if n := nd.S.NumNodes(); n != np+1 {
			fail(fmt.Sprintf("node sees %d members, want %d", n, np+1))
			return
		}
		for ei, sc := range scs {
			c07Episode(nd, pups, sc, rng, outs[ei])
			if outs[ei].Err != "" {
				fail("earlier episode failed: " + outs[ei].Err)
				return
			}
		}
	})
}

// c07Episode runs one scenario; must be called inside the bubble.
func c07Episode(nd *cluster.Node, pups []*cluster.Puppet, sc *c07Scenario, rng *rand.Rand, out *c07Outcome) {
	{
		e := &c07Env{nd: nd, pups: pups, stop: make(chan struct{}), wg: newC07Group(), qrs: make([]*serf.QueryResponse, len(sc.Queries)), logs: make([]*c07QueryLog, len(sc.Queries)),
			destUDP: net.UDPAddr{IP: nd.Tr.IP(), Port: nd.Tr.Port()}}
		nd.DrainBroadcasts()
		e.t0 = time.Now()
		defer func() {
			close(e.stop)
			e.wg.Wait()
		}()

		var maxEnd time.Duration
		for _, q := range sc.Queries {
			if d := q.StartAt + q.Timeout; d > maxEnd {
				maxEnd = d
			}
		}
		if sc.Mode == "seq" {
			type action struct {
				at   time.Duration
				kind int // 0 issue, 1 reply, 2 early close
				idx  int
			}
			var acts []action
			for i, q := range sc.Queries {
				acts = append(acts, action{q.StartAt, 0, i})
				if q.EarlyClose > 0 {
					acts = append(acts, action{q.EarlyClose, 2, i})
				}
			}
			for i, rp := range sc.Replies {
				acts = append(acts, action{rp.At, 1, i})
				if rp.At > maxEnd {
					maxEnd = rp.At
				}
			}
			sort.SliceStable(acts, func(a, b int) bool {
				if acts[a].at != acts[b].at {
					return acts[a].at < acts[b].at
				}
				return acts[a].kind == 0 && acts[b].kind != 0
			})
			for k := 0; k < len(acts); {
				at := acts[k].at
				if d := at - e.now(); d > 0 {
					time.Sleep(d)
				}
				for ; k < len(acts) && acts[k].at == at; k++ {
					a := acts[k]
					switch a.kind {
					case 0:
						if err := e.issue(a.idx, sc.Queries[a.idx]); err != nil {
							out.Err = "query: " + err.Error()
							return
						}
					case 1:
						rp := sc.Replies[a.idx]
						if m, buf := e.build(rp, rng); m != nil {
							for c := 0; c < rp.Copies; c++ { // duplicates are byte-identical
								e.send(rp, m, buf)
							}
						}
					case 2:
						e.qrs[a.idx].Close()
					}
				}
				synctest.Wait()
			}
		} else {
			for i, q := range sc.Queries {
				if err := e.issue(i, q); err != nil {
					out.Err = "query: " + err.Error()
					return
				}
			}
			type item struct {
				m   *wire.MsgQueryResponse
				buf []byte
			}
			var items []item
			for _, rp := range sc.Replies {
				m, buf := e.build(rp, rng)
				items = append(items, item{m, buf})
			}
			dwg := newC07Group()
			if sc.Burst {
				gate := make(chan struct{})
				for g := 0; g < sc.G; g++ {
					order := rng.Perm(len(items))
					dwg.Go(func() {
						<-gate
						for _, k := range order {
							e.logSent(items[k].m, c07PathNotify)
							nd.NotifyMsg(items[k].buf)
						}
					})
				}
				synctest.Wait()
				close(gate)
			} else {
				gates := make([]chan struct{}, len(items))
				for i := range gates {
					gates[i] = make(chan struct{})
				}
				arrived := make([]atomic.Int32, len(items))
				for g := 0; g < sc.G; g++ {
					dwg.Go(func() {
						for k := range items {
							<-gates[k]
							// bounded spin so that the calls really start together
							arrived[k].Add(1)
							for spin := 0; spin < 20000 && int(arrived[k].Load()) < sc.G; spin++ {
							}
							nd.NotifyMsg(items[k].buf)
						}
					})
				}
				for k := range items {
					synctest.Wait()
					for g := 0; g < sc.G; g++ {
						e.logSent(items[k].m, c07PathNotify)
					}
					close(gates[k])
				}
			}
			dwg.Wait()
			out.NotifyCon = sc.G * len(items)
		}
		if d := maxEnd + 5*time.Second - e.now(); d > 0 {
			time.Sleep(d)
		}
		synctest.Wait()
		e.mu.Lock()
		out.Queries = e.logs
		out.Sent = e.sent
		e.mu.Unlock()
	}
}

// c07Judge is the offline oracle over the recorded history.
func c07Judge(sc *c07Scenario, out *c07Outcome) {
	add := func(key, format string, a ...any) {
		out.Viols = append(out.Viols, c07Viol{Key: key, Msg: fmt.Sprintf(format, a...)})
	}
	for qi, lg := range out.Queries {
		if lg == nil {
			continue
		}
		// closure: exactly at the deadline (or at the explicit Close before it)
		if lg.RespClose != lg.CloseWant {
			add("close-time", "query %d: ResponseCh closed at %v, want %v (deadline %v)", qi, lg.RespClose, lg.CloseWant, lg.Deadline)
		}
		if lg.Ack && lg.AckClosed != lg.CloseWant {
			add("close-time", "query %d: AckCh closed at %v, want %v (deadline %v)", qi, lg.AckClosed, lg.CloseWant, lg.Deadline)
		}
		check := func(ch string, got []c07Got, ack bool) {
			seen := map[string]int{}
			for _, g := range got {
				out.Received++
				seen[g.From]++
				if g.At > lg.CloseWant {
					add("after-close", "query %d %s: item from %q received at %v, after the query finished at %v", qi, ch, g.From, g.At, lg.CloseWant)
				}
				ok := false
				for _, s := range out.Sent {
					if s.LTime == lg.LTime && s.ID == lg.ID && (s.Flags&wire.FlagAck != 0) == ack && s.From == g.From && s.At <= g.At && (ack || s.Payload == g.Payload) {
						ok = true
						break
					}
				}
				if !ok {
					add("misrouted-"+ch, "query %d (ltime %d id %d) %s: received item from %q payload %q at %v that no reply addressed to this query carried", qi, lg.LTime, lg.ID, ch, g.From, g.Payload, g.At)
				}
			}
			for f, n := range seen {
				if n > 1 {
					add("duplicate-"+ch+"-"+sc.Mode, "query %d %s: %d items from node %q", qi, ch, n, f)
				}
			}
		}
		check("ack", lg.Acks, true)
		check("response", lg.Resps, false)
		// what could have been delivered (for the vacuity guard only)
		first := map[string]bool{}
		for _, s := range out.Sent {
			if s.LTime == lg.LTime && s.ID == lg.ID && s.At < lg.CloseWant {
				ack := s.Flags&wire.FlagAck != 0
				if ack && !lg.Ack {
					continue
				}
				k := fmt.Sprint(ack, s.From)
				if first[k] {
					out.DupSupp++
				} else {
					first[k] = true
					out.Expect++
				}
			}
		}
	}
	for _, s := range out.Sent {
		m := false
		for _, lg := range out.Queries {
			if lg != nil && s.LTime == lg.LTime && s.ID == lg.ID {
				m = true
				if s.At > lg.CloseWant {
					out.Late++
				}
			}
		}
		if !m {
			out.Mismatch++
		}
	}
	for _, r := range sc.Replies {
		if r.Edge == "d-1ms" || r.Edge == "d" || r.Edge == "d+1ms" {
			out.Edge++
		}
	}
	if len(out.Viols) > 0 {
		w := map[string]any{"scenario": sc, "queries": out.Queries, "sent": out.Sent}
		for i := range out.Viols {
			out.Viols[i].Witness = w
		}
	}
}

// ---- child process: runs a batch of scenarios, writes a JSON report

type c07Report struct {
	Done     bool
	Cases    int
	Sigs     []string
	Counters map[string]int64
	Viols    []c07Viol
	Samples  []any
	Errs     []string
}

func c07Child(t *testing.T, outPath string) {
	seed, _ := strconv.ParseInt(os.Getenv("VERIF_C07_SEED"), 10, 64)
	nSeq, _ := strconv.Atoi(os.Getenv("VERIF_C07_NSEQ"))
	nConc, _ := strconv.Atoi(os.Getenv("VERIF_C07_NCONC"))
	rep := &c07Report{Counters: map[string]int64{}}
	var mu sync.Mutex
	type job struct {
		mode string
		i    int
	}
	jobs := make(chan job)
	var wg sync.WaitGroup
	workers := runtime.GOMAXPROCS(0)
	for w := 0; w < workers; w++ {
		wg.Add(1)
		go func() {
			defer wg.Done()
			for j := range jobs {
				cs := c07Hash("c07", strconv.FormatInt(seed, 10), j.mode, strconv.Itoa(j.i))
				rng := rand.New(rand.NewSource(cs))
				np := 2 + rng.Intn(5)
				var scs []*c07Scenario
				for k := 0; k < c07Episodes; k++ {
					if j.mode == "seq" {
						scs = append(scs, c07GenSeq(rng, np))
					} else {
						scs = append(scs, c07GenConc(rng, np))
					}
				}
				outs := c07Run(t, scs, cs)
				for k, o := range outs {
					sc := scs[k]
					mu.Lock()
					rep.Cases++
					c := rep.Counters
					if o.Err != "" {
						rep.Errs = append(rep.Errs, o.Err)
						mu.Unlock()
						continue
					}
					c["scenarios_"+j.mode]++
					c["queries_issued"] += int64(len(o.Queries))
					c["replies_injected"] += int64(len(o.Sent))
					c["items_received_"+j.mode] += int64(o.Received)
					c["items_deliverable"] += int64(o.Expect)
					c["duplicate_copies_sent"] += int64(o.DupSupp)
					c["nonmatching_replies_sent"] += int64(o.Mismatch)
					c["replies_at_deadline_edges"] += int64(o.Edge)
					c["replies_after_close"] += int64(o.Late)
					c["concurrent_notifymsg_calls"] += int64(o.NotifyCon)
					for _, lg := range o.Queries {
						if lg != nil {
							c["channels_closed_observed"]++
							if lg.Ack {
								c["channels_closed_observed"]++
							}
							if lg.CloseWant < lg.Deadline {
								c["queries_closed_early_by_caller"]++
							}
						}
					}
					for _, s := range o.Sent {
						c["path_"+s.Path]++
					}
					if o.Received > 0 && (o.DupSupp > 0 || o.Mismatch > 0 || o.Edge > 0 || o.Late > 0) {
						rep.Sigs = append(rep.Sigs, strconv.FormatInt(c07Hash(sc.sig()), 36))
					}
					for _, v := range o.Viols {
						if len(rep.Viols) < 12 {
							rep.Viols = append(rep.Viols, v)
						}
						c["violations"]++
					}
					if rep.Cases%20 == 0 { // partial report: survives a crash of this process
						if b, err := json.Marshal(rep); err == nil {
							_ = os.WriteFile(outPath+".part", b, 0o644)
						}
					}
					if len(rep.Samples) < 1 && j.i == 2 {
						rep.Samples = append(rep.Samples, map[string]any{"mode": j.mode, "puppets": sc.NP, "queries": sc.Queries, "replies": len(sc.Replies), "sent": len(o.Sent), "received": o.Received, "first_query": o.Queries[0]})
					}
					mu.Unlock()
				}
			}
		}()
	}
	for i := 0; i < nSeq; i++ {
		jobs <- job{"seq", i}
	}
	for i := 0; i < nConc; i++ {
		jobs <- job{"conc", i}
	}
	close(jobs)
	wg.Wait()
	rep.Done = true
	b, _ := json.Marshal(rep)
	_ = os.WriteFile(outPath, b, 0o644)
}

// ---- race log attribution (same rule as tools/racesum.py: for both accesses the
// innermost frame that belongs to the repository or the harness must be a repository frame)

func c07RaceBlocks(path, repo string) (total, inSerf int, first string) {
	b, err := os.ReadFile(path)
	if err != nil {
		return
	}
	parts := strings.Split(string(b), "WARNING: DATA RACE")
	secRe := regexp.MustCompile(`(?m)^(Read|Write|Previous read|Previous write|Atomic|Previous atomic)[^\n]* by `)
	for _, blk := range parts[1:] {
		blk = strings.Split(blk, "==================")[0]
		total++
		idx := secRe.FindAllStringIndex(blk, -1)
		if len(idx) < 2 {
			continue
		}
		secs := []string{blk[idx[0][0]:idx[1][0]], blk[idx[1][0]:]}
		ok := true
		for _, s := range secs {
			s = strings.Split(s, "\nGoroutine ")[0]
			owner := ""
			for _, ln := range strings.Split(s, "\n") {
				ln = strings.TrimSpace(ln)
				if strings.HasPrefix(ln, strings.TrimRight(repo, "/")+"/") {
					owner = "repo"
					break
				}
				if strings.HasPrefix(ln, "/verif/") {
					owner = "harness"
					break
				}
			}
			if owner != "repo" {
				ok = false
			}
		}
		if ok {
			inSerf++
			if first == "" {
				first = "WARNING: DATA RACE" + blk
			}
		}
	}
	return
}

// c07Stalled: the application does not read its event channel, so (once serf's internal
// event buffer is full as well) an incoming query blocks inside the node (it holds the query registry while waiting to hand the event
// over) across the deadline of a query the node itself is running. The close of that
// query and every late reply then queue up behind it. When the application finally reads,
// whatever order they are released in, a reply that was handed to the node after the
// deadline must not appear on the result channels. Real time (a bubble cannot advance its
// clock while a goroutine waits for a mutex); the only timing assumption is that real time
// passes, no verdict depends on how fast.
func c07Stalled(rng *rand.Rand) (viol string, exercised bool, err error) {
	snet := simnet.New(rng.Int63())
	nd, e := cluster.Start(snet, cluster.Opts{Name: "origin", IP: "10.0.0.1", Profile: "passive", NoDrain: true, EventBuf: 1})
	if e != nil {
		return "", false, e
	}
	defer nd.Close()
	{
		// member events of the setup are read by a temporary consumer (the channel has one slot)
		stop, done := make(chan struct{}), make(chan struct{})
		go func() {
			defer close(done)
			for {
				select {
				case <-nd.Ch:
				case <-stop:
					return
				}
			}
		}()
		for i := 0; i < 3; i++ {
			nd.NotifyJoin(cluster.FakeNode(fmt.Sprintf("p%d", i), fmt.Sprintf("10.0.0.%d", 10+i), 7946, nil))
		}
		for i := 0; i < 20 && len(nd.S.Members()) < 4; i++ {
			time.Sleep(time.Millisecond)
		}
		time.Sleep(2 * time.Millisecond)
		close(stop)
		<-done
		for len(nd.Ch) > 0 {
			<-nd.Ch
		}
	}
	timeout := time.Duration(30+rng.Intn(40)) * time.Millisecond
	params := nd.S.DefaultQueryParams()
	params.RequestAck = true
	params.Timeout = timeout
	qr, e := nd.S.Query("stalled", []byte("x"), params)
	if e != nil {
		return "", false, e
	}
	// the result channels are buffered to the (small) member count and replies are dropped when
	// they are full: consume from the start
	var bad []string
	late := map[string]bool{"p1": true, "p2": true}
	consumed := make(chan struct{})
	var afterFinished []string
	go func() {
		defer close(consumed)
		ack, rsp := qr.AckCh(), qr.ResponseCh()
		gotAck := func(a string, proven bool) {
			if late[a] {
				bad = append(bad, "ack from "+a)
			} else if proven {
				afterFinished = append(afterFinished, "ack from "+a)
			}
		}
		gotRsp := func(r serf.NodeResponse, proven bool) {
			if late[r.From] {
				bad = append(bad, "response from "+r.From)
			} else if proven {
				afterFinished = append(afterFinished, "response from "+r.From)
			}
		}
		for ack != nil || rsp != nil {
			// Finished() is read first, then both streams are found empty: whatever this (only) reader
			// receives afterwards was put on a stream after the query had finished - no timing assumption
			fin := qr.Finished()
			empty := false
			select {
			case a, ok := <-ack:
				if !ok {
					ack = nil
				} else {
					gotAck(a, false)
				}
			case r, ok := <-rsp:
				if !ok {
					rsp = nil
				} else {
					gotRsp(r, false)
				}
			default:
				empty = true
			}
			if !empty {
				continue
			}
			if !fin {
				time.Sleep(200 * time.Microsecond)
				continue
			}
			select {
			case a, ok := <-ack:
				if !ok {
					ack = nil
				} else {
					gotAck(a, true)
				}
			case r, ok := <-rsp:
				if !ok {
					rsp = nil
				} else {
					gotRsp(r, true)
				}
			}
		}
	}()
	// the node's own query event now fills the one-slot event channel
	var lt uint64
	var id uint32
	for _, m := range nd.DrainBroadcasts() {
		if len(m) > 0 && m[0] == wire.Query {
			var q wire.MsgQuery
			if wire.Decode(m[1:], &q) == nil && q.Name == "stalled" {
				lt, id = q.LTime, q.ID
			}
		}
	}
	if lt == 0 {
		return "", false, fmt.Errorf("query message not found in the broadcast queue")
	}
	g := newBGroup()
	// an incoming query from a peer: blocks handing its event to the application
	// (serf buffers up to 1024 events between itself and the application, so it takes more than
	// that many incoming queries before a handler blocks)
	var incomingDone atomic.Bool
	var floodAt atomic.Uint32
	g.Go(func() {
		defer incomingDone.Store(true)
		for k := uint32(0); k < 1100; k++ {
			floodAt.Store(k)
			nd.NotifyMsg(wire.Encode(wire.Query, &wire.MsgQuery{LTime: lt + 1, ID: 1000 + k, Addr: []byte{10, 0, 0, 10}, Port: 7946, SourceNode: "p0", Timeout: time.Second, Name: "incoming"}))
		}
	})
	// early, legitimate replies handed over well before the deadline, while the handler may already be
	// stalled: a stalled one is looked at only when the application resumes, i.e. after the query has
	// finished, and must be dropped then (seeded C07-i: deadline compared with the arrival time)
	early := rng.Intn(4) != 0
	if early {
		// wait until the flood has stopped making progress (a handler is blocked), if that happens in time
		last, since := floodAt.Load(), time.Now()
		for time.Now().Before(qr.Deadline().Add(-10*time.Millisecond)) && !incomingDone.Load() {
			time.Sleep(200 * time.Microsecond)
			if k := floodAt.Load(); k != last {
				last, since = k, time.Now()
			} else if time.Since(since) > 2*time.Millisecond {
				break
			}
		}
		early = time.Now().Before(qr.Deadline().Add(-8 * time.Millisecond))
	}
	if early {
		g.Go(func() {
			nd.NotifyMsg(wire.Encode(wire.QueryResponse, &wire.MsgQueryResponse{LTime: lt, ID: id, From: "p0", Payload: []byte("early")}))
		})
		g.Go(func() {
			nd.NotifyMsg(wire.Encode(wire.QueryResponse, &wire.MsgQueryResponse{LTime: lt, ID: id, From: "p0", Flags: 1}))
		})
	}
	for time.Now().Before(qr.Deadline().Add(5 * time.Millisecond)) {
		time.Sleep(time.Millisecond)
	}
	// late replies, handed over after the deadline from goroutines of their own
	for i := 1; i <= 2; i++ {
		from := fmt.Sprintf("p%d", i)
		g.Go(func() {
			nd.NotifyMsg(wire.Encode(wire.QueryResponse, &wire.MsgQueryResponse{LTime: lt, ID: id, From: from, Flags: 1}))
		})
		g.Go(func() {
			nd.NotifyMsg(wire.Encode(wire.QueryResponse, &wire.MsgQueryResponse{LTime: lt, ID: id, From: from, Payload: []byte("late")}))
		})
	}
	time.Sleep(5 * time.Millisecond)
	exercised = !incomingDone.Load() // a handler is still blocked, 10 ms after the deadline
	// the application wakes up
	stopDrain := make(chan struct{})
	drained := make(chan struct{})
	go func() {
		defer close(drained)
		for {
			select {
			case <-nd.Ch:
			case <-stopDrain:
				return
			}
		}
	}()
	g.Wait()
	select {
	case <-consumed:
	case <-time.After(30 * time.Second):
		close(stopDrain)
		<-drained
		return "", exercised, fmt.Errorf("result channels not closed 30 s after the application resumed (watchdog)")
	}
	close(stopDrain)
	<-drained
	if len(afterFinished) > 0 && len(bad) == 0 {
		sort.Strings(afterFinished)
		viol = fmt.Sprintf("query with a %v timeout; replies handed to the node before its deadline, while an incoming query was blocked on the application's full event channel, were put on the result streams after the query had finished (Finished() had returned true and both streams were empty) once the application resumed: %s", timeout, strings.Join(afterFinished, ", "))
	}
	if len(bad) > 0 {
		sort.Strings(bad)
		viol = fmt.Sprintf("query with a %v timeout; replies handed to the node 5 ms or more after its deadline, while an incoming query was blocked on the application's full event channel, were delivered once the application resumed: %s", timeout, strings.Join(bad, ", "))
	}
	return
}

// c07CloseRace (child process, plain build): replies are delivered on four goroutines while
// the caller closes the query. Whichever side wins, nothing may be sent on a closed stream (that
// is a panic, which ends the child) and no node may appear twice.
func c07CloseRace(outPath string, seed int64, trials int) {
	rng := rand.New(rand.NewSource(seed))
	type report struct {
		Trials, Items int
		Viols         []string
		Done          bool
	}
	rep := report{}
	write := func() {
		b, _ := json.Marshal(rep)
		_ = os.WriteFile(outPath, b, 0o644)
	}
	snet := simnet.New(seed)
	nd, err := cluster.Start(snet, cluster.Opts{Name: "origin", IP: "10.0.0.1", Profile: "passive"})
	if err != nil {
		rep.Viols = append(rep.Viols, "setup: "+err.Error())
		write()
		return
	}
	defer nd.Close()
	for trial := 0; trial < trials; trial++ {
		params := nd.S.DefaultQueryParams()
		params.RequestAck = true
		params.Timeout = 30 * time.Second
		qr, err := nd.S.Query("closerace", nil, params)
		if err != nil {
			continue
		}
		var lt uint64
		var id uint32
		for _, m := range nd.DrainBroadcasts() {
			if len(m) > 0 && m[0] == wire.Query {
				var q wire.MsgQuery
				if wire.Decode(m[1:], &q) == nil && q.Name == "closerace" && q.LTime > lt {
					lt, id = q.LTime, q.ID
				}
			}
		}
		seenAck, seenRsp := map[string]int{}, map[string]int{}
		consumed := make(chan struct{})
		go func() {
			defer close(consumed)
			ack, rsp := qr.AckCh(), qr.ResponseCh()
			for ack != nil || rsp != nil {
				select {
				case a, ok := <-ack:
					if !ok {
						ack = nil
					} else {
						seenAck[a]++
					}
				case r, ok := <-rsp:
					if !ok {
						rsp = nil
					} else {
						seenRsp[r.From]++
					}
				}
			}
		}()
		var start atomic.Bool
		g := newBGroup()
		for w := 0; w < 4; w++ {
			from := fmt.Sprintf("p%d", w)
			a := wire.Encode(wire.QueryResponse, &wire.MsgQueryResponse{LTime: lt, ID: id, From: from, Flags: 1})
			r := wire.Encode(wire.QueryResponse, &wire.MsgQueryResponse{LTime: lt, ID: id, From: from, Payload: []byte("x")})
			g.Go(func() {
				for !start.Load() {
				}
				nd.NotifyMsg(a)
				nd.NotifyMsg(r)
				nd.NotifyMsg(a)
			})
		}
		spin := rng.Intn(3000)
		g.Go(func() {
			for !start.Load() {
			}
			for k := 0; k < spin; k++ {
				_ = start.Load()
			}
			qr.Close()
		})
		start.Store(true)
		g.Wait()
		<-consumed
		rep.Trials++
		for n, c := range seenAck {
			rep.Items += c
			if c > 1 {
				rep.Viols = append(rep.Viols, fmt.Sprintf("trial %d: %d acks from %s", trial, c, n))
			}
		}
		for n, c := range seenRsp {
			rep.Items += c
			if c > 1 {
				rep.Viols = append(rep.Viols, fmt.Sprintf("trial %d: %d responses from %s", trial, c, n))
			}
		}
		if trial%200 == 0 {
			write()
		}
	}
	rep.Done = true
	write()
}

func TestC07(t *testing.T) {
	if p := os.Getenv("VERIF_C07_CLOSERACE"); p != "" {
		seed, _ := strconv.ParseInt(os.Getenv("VERIF_C07_SEED"), 10, 64)
		n, _ := strconv.Atoi(os.Getenv("VERIF_C07_TRIALS"))
		c07CloseRace(p, seed, n)
		return
	}
	if p := os.Getenv("VERIF_C07_CHILD"); p != "" {
		c07Child(t, p)
		return
	}
	r := evid.Start(t, "C07", "exploration")
	if os.Getenv("VERIF_PHASE") == "plain" {
		// pre-phase in a build WITHOUT the race detector: under -race the scheduler lets the
		// closing timer win every time and the window never opens (measured: 0 of 20 rounds
		// against 20 of 20 in a plain build, on a tree where the deadline check was removed)
		r.Cases("stalled", r.N(60, 1500), 4, func(ci int, rng *rand.Rand) {
			viol, exercised, err := c07Stalled(rng)
			r.Eval(1)
			r.Count("stalled_app_rounds", 1)
			if exercised {
				r.Count("stalled_app_rounds_with_handler_blocked_across_deadline", 1)
			}
			if err != nil {
				r.Count("stalled_app_setup_errors", 1)
				if strings.Contains(err.Error(), "watchdog") {
					r.Inconclusive(err.Error())
				}
				return
			}
			if viol != "" {
				r.Violation("reply-after-deadline/stalled-application", ci, viol, viol)
			}
		})
		// close race: deliveries against the caller's Close, in child processes (a send on a closed
		// stream is a panic)
		tmpc, _ := os.MkdirTemp("", "c07cr")
		defer os.RemoveAll(tmpc)
		r.Cases("closerace", r.N(8, 60), 4, func(ci int, rng *rand.Rand) {
			out := filepath.Join(tmpc, fmt.Sprintf("cr%d.json", ci))
			errPath := out + ".stderr"
			ef, _ := os.Create(errPath)
			cmd := exec.Command(os.Args[0], "-test.run=^TestC07$", "-test.count=1", "-test.timeout=1200s")
			env := []string{}
			for _, kv := range os.Environ() {
				if strings.HasPrefix(kv, "VERIF_RESULT=") || strings.HasPrefix(kv, "VERIF_CASE=") || strings.HasPrefix(kv, "VERIF_CARRY") {
					continue
				}
				env = append(env, kv)
			}
			cmd.Env = append(env, "VERIF_C07_CLOSERACE="+out, fmt.Sprintf("VERIF_C07_SEED=%d", rng.Int63()), "VERIF_C07_TRIALS=3000")
			cmd.Stdout, cmd.Stderr = ef, ef
			runErr := cmd.Run()
			ef.Close()
			var rep struct {
				Trials, Items int
				Viols         []string
				Done          bool
			}
			if b, err := os.ReadFile(out); err == nil {
				_ = json.Unmarshal(b, &rep)
			}
			r.Eval(1)
			r.Count("close_race_trials", rep.Trials)
			r.Count("close_race_items_received", rep.Items)
			for _, v := range rep.Viols {
				r.Violation("close-race-duplicate", ci, v, v)
			}
			if !rep.Done {
				eb, _ := os.ReadFile(errPath)
				tail := eb
				crashed := false
				if i := bytes.Index(eb, []byte("fatal error:")); i >= 0 {
					tail, crashed = eb[i:], true
				} else if i := bytes.Index(eb, []byte("panic:")); i >= 0 {
					tail, crashed = eb[i:], true
				}
				if len(tail) > 4000 {
					tail = tail[:4000]
				}
				head := strings.SplitN(string(tail), "\n", 2)[0]
				if crashed && bytes.Contains(tail, []byte("github.com/hashicorp/serf/serf.")) {
					r.Violation("crash-close-race", ci, fmt.Sprintf("child process crashed inside serf while replies raced the caller's Close (after %d trials): %s", rep.Trials, head), string(tail))
				} else {
					r.Inconclusive(fmt.Sprintf("close-race child %d ended without a report (%v): %s", ci, runErr, head))
				}
			}
		})
		r.Finish("stalled-application rounds (plain build): an incoming query blocks on the application's full event channel across the deadline of the node's own query; replies handed over after the deadline must not be delivered when the application resumes", 0)
		return
	}
	nBatch := r.N(4, 12)
	nSeq := r.N(8, 60) // bubbles per child, c07Episodes scenarios each
	nConc := r.N(8, 40)
	tmp, err := os.MkdirTemp("", "c07")
	if err != nil {
		r.Inconclusive("no temp dir: " + err.Error())
		r.Finish("", 0)
		return
	}
	defer os.RemoveAll(tmp)
	repo := os.Getenv("VERIF_REPO")
	if repo == "" {
		repo = "/repo"
	}
	raceLog := ""
	for _, f := range strings.Fields(os.Getenv("GORACE")) {
		if strings.HasPrefix(f, "log_path=") {
			raceLog = strings.TrimPrefix(f, "log_path=")
		}
	}
	// one child process per (batch, mode): a crash in the concurrent mode does not take the
	// observations of the sequential mode with it
	child := func(bi int, mode string, seed int64, nS, nC int) {
		outPath := filepath.Join(tmp, fmt.Sprintf("batch%d-%s.json", bi, mode))
		errPath := filepath.Join(tmp, fmt.Sprintf("batch%d-%s.stderr", bi, mode))
		ef, _ := os.Create(errPath)
		cmd := exec.Command(os.Args[0], "-test.run=^TestC07$", "-test.count=1", "-test.timeout=1200s")
		env := []string{}
		for _, kv := range os.Environ() {
			if strings.HasPrefix(kv, "VERIF_RESULT=") || strings.HasPrefix(kv, "VERIF_CASE=") {
				continue
			}
			env = append(env, kv)
		}
		env = append(env, "VERIF_C07_CHILD="+outPath, fmt.Sprintf("VERIF_C07_SEED=%d", seed),
			fmt.Sprintf("VERIF_C07_NSEQ=%d", nS), fmt.Sprintf("VERIF_C07_NCONC=%d", nC))
		cmd.Env = env
		cmd.Stdout = ef
		cmd.Stderr = ef
		runErr := cmd.Run()
		ef.Close()
		pid := 0
		if cmd.Process != nil {
			pid = cmd.Process.Pid
		}
		r.Count("child_processes", 1)
		var rep c07Report
		if b, err := os.ReadFile(outPath); err == nil {
			_ = json.Unmarshal(b, &rep)
		}
		if !rep.Done {
			if b, err := os.ReadFile(outPath + ".part"); err == nil {
				_ = json.Unmarshal(b, &rep)
				rep.Done = false
			}
			eb, _ := os.ReadFile(errPath)
			tail := eb
			crashed := false
			if i := bytes.Index(eb, []byte("fatal error:")); i >= 0 {
				tail, crashed = eb[i:], true
			} else if i := bytes.Index(eb, []byte("panic:")); i >= 0 {
				tail, crashed = eb[i:], true
			}
			if len(tail) > 6000 {
				tail = tail[:6000]
			}
			head := strings.SplitN(string(tail), "\n", 2)[0]
			if len(head) > 300 {
				head = head[:300]
			}
			if crashed && bytes.Contains(tail, []byte("github.com/hashicorp/serf/serf.")) {
				r.Count("child_crashes_in_serf", 1)
				key := "crash-" + mode
				if strings.Contains(head, "concurrent map") {
					key = "crash-concurrent-map-" + mode
				}
				r.Violation(key, bi, fmt.Sprintf("child process (%s mode) crashed inside serf while replies were delivered: %s", mode, head), string(tail))
			} else {
				r.Inconclusive(fmt.Sprintf("batch %d/%s: child ended without a report (%v): %s", bi, mode, runErr, head))
			}
		}
		r.Eval(rep.Cases)
		for _, s := range rep.Sigs {
			r.Distinct(s)
		}
		for k, v := range rep.Counters {
			r.Count(k, int(v))
		}
		for _, s := range rep.Samples {
			r.Sample(s)
		}
		if len(rep.Errs) > 0 {
			r.Count("scenario_setup_errors", len(rep.Errs))
			if len(rep.Errs) > rep.Cases/20 {
				r.Inconclusive(fmt.Sprintf("batch %d/%s: %d scenarios could not be run, e.g. %s", bi, mode, len(rep.Errs), rep.Errs[0]))
			}
		}
		for _, v := range rep.Viols {
			r.Violation(v.Key, bi, v.Msg, v.Witness)
		}
		if raceLog != "" && pid != 0 {
			total, inSerf, first := c07RaceBlocks(fmt.Sprintf("%s.%d", raceLog, pid), repo)
			r.Count("race_reports", total)
			r.Count("race_reports_inside_serf", inSerf)
			if inSerf > 0 {
				r.Violation("data-race-"+mode, bi, fmt.Sprintf("race detector (%s mode): %d report(s) with both accesses inside serf while replies were delivered", mode, inSerf), first)
			}
		}
	}
	r.Cases("batch", nBatch, 4, func(bi int, rng *rand.Rand) {
		s1, s2 := rng.Int63(), rng.Int63()
		child(bi, "seq", s1, nSeq, 0)
		child(bi, "conc", s2, 0, nConc)
	})
	if r.Counter("items_received_seq") < int64(r.N(300, 6000)) || r.Counter("items_received_conc") < int64(r.N(300, 6000)) {
		r.Inconclusive(fmt.Sprintf("too few replies reached the result channels (seq %d, conc %d): capacity-bound drops would make the run vacuous",
			r.Counter("items_received_seq"), r.Counter("items_received_conc")))
	}
	r.Extra("race_detector", raceLog != "")
	r.Finish("random reply scripts against 1-3 overlapping real queries of one real node with 2-6 puppet members: matching / sibling-id / wrong-id / wrong-time replies, acks and responses, direct / relayed through the node itself / relayed through a puppet / NotifyMsg, duplicates, timed inside the window, at deadline-1ms, deadline, deadline+1ms and later (virtual time), optional early Close by the caller; plus concurrent mode: 3-8 goroutines deliver the same replies through NotifyMsg at once (spin barrier). Oracle: received multiset within sent-and-matching, at most one item per node and channel, nothing after the finish time, both channels observed closed exactly at the deadline. Non-trivial = at least one item received and at least one duplicate, non-matching, edge-timed or late reply; distinct by script",
		r.N(200, 4000),
		"puppets stand in for responding serf nodes (the node under test does not validate the From field)",
		"a double close or send on a closed channel shows up as a crash of the child process; race detector reports are attributed by tools/racesum.py and by the same rule in the monitor")
}
