package props

import (
	"fmt"
	"math/rand"
	"sort"
	"strconv"
	"strings"
	"testing"
	"testing/synctest"
	"time"

	"github.com/hashicorp/serf/serf"

	"verif/harness/cluster"
	"verif/harness/evid"
	"verif/harness/simnet"
	"verif/harness/wire"
)

// C15: member bookkeeping stays consistent and reaping is exact.
//
// One real node (passive memberlist); the harness plays memberlist and the
// rest of the cluster for 3-6 other members: NotifyJoin / NotifyLeave in the
// order memberlist would issue them, join and leave intents (with and without
// prune) with strictly increasing Lamport times, RemoveFailedNode[Prune], and
// jumps of virtual time around the reconnect / tombstone timeouts (as adjusted
// by a per-member override). After every single step, at quiescence, the
// node's Stats(), Members() and event log are read.

const (
	c15Reconnect = time.Hour
	c15Tombstone = 3 * time.Hour
	c15Reap      = 15 * time.Second
)

// c15Override is the per-member timeout override (by member name).
type c15Override struct{}

func c15Factor(name string) (num, den int64) {
	switch {
	case strings.HasSuffix(name, "-fast"):
		return 1, 4
	case strings.HasSuffix(name, "-slow"):
		return 2, 1
	}
	return 1, 1
}

func (c15Override) ReconnectTimeout(m *serf.Member, timeout time.Duration) time.Duration {
	num, den := c15Factor(m.Name)
	return timeout * time.Duration(num) / time.Duration(den)
}

func c15Timeout(name string, st serf.MemberStatus, override bool) time.Duration {
	base := c15Reconnect
	if st == serf.StatusLeft {
		base = c15Tombstone
	}
	if !override {
		return base
	}
	num, den := c15Factor(name)
	return base * time.Duration(num) / time.Duration(den)
}

// c15PruneRace: a pruning leave about a member that is still alive makes the node wait
// (BroadcastTimeout + LeavePropagateDelay) before it erases the member; other intents about
// the same member arrive meanwhile on other goroutines. Whatever they do, the member is reaped
// exactly once and the counters agree with the member list afterwards. Real time (the wait
// happens under the member lock, which a bubble cannot advance through).
func c15PruneRace(rng *rand.Rand, seq int) (viols []string, stats map[string]int) {
	stats = map[string]int{}
	nw := simnet.New(int64(seq))
	nd, err := cluster.Start(nw, cluster.Opts{Name: fmt.Sprintf("pr-%d", seq), IP: "10.15.0.1", Profile: "passive", Mutate: func(c *serf.Config) {
		c.ReapInterval = 100 * time.Hour
		c.BroadcastTimeout = 12 * time.Millisecond
		c.LeavePropagateDelay = 3 * time.Millisecond
	}})
	if err != nil {
		return []string{"setup: " + err.Error()}, stats
	}
	defer nd.Close()
	for round := 0; round < 12 && len(viols) == 0; round++ {
		name := fmt.Sprintf("r%d", round)
		fn := cluster.FakeNode(name, fmt.Sprintf("10.15.1.%d", round+1), 7946, nil)
		nd.NotifyJoin(fn)
		lt := uint64(100 + 10*round)
		g := newBGroup()
		g.Go(func() { nd.NotifyMsg(wire.Encode(wire.Leave, &wire.MsgLeave{LTime: lt, Node: name, Prune: true})) })
		second := rng.Intn(4)
		delay := time.Duration(1+rng.Intn(8)) * time.Millisecond
		g.Go(func() {
			time.Sleep(delay)
			switch second {
			case 0: // a second pruning leave with a newer time
				nd.NotifyMsg(wire.Encode(wire.Leave, &wire.MsgLeave{LTime: lt + 1, Node: name, Prune: true}))
			case 1: // the member refutes and then fails
				nd.NotifyMsg(wire.Encode(wire.Join, &wire.MsgJoin{LTime: lt + 1, Node: name}))
				nd.NotifyLeave(fn)
			case 2: // a duplicate of the same intent
				nd.NotifyMsg(wire.Encode(wire.Leave, &wire.MsgLeave{LTime: lt, Node: name, Prune: true}))
			default: // memberlist reports it dead meanwhile
				nd.NotifyLeave(fn)
			}
		})
		g.Wait()
		marker := fmt.Sprintf("marker-%d-%d", seq, round)
		if err := nd.S.UserEvent(marker, nil, false); err != nil {
			return []string{"setup: marker: " + err.Error()}, stats
		}
		deadline := time.Now().Add(60 * time.Second)
		for {
			seen, reaps := false, 0
			for _, le := range nd.Events() {
				switch e := le.E.(type) {
				case serf.MemberEvent:
					if e.Type == serf.EventMemberReap {
						for _, m := range e.Members {
							if m.Name == name {
								reaps++
							}
						}
					}
				case serf.UserEvent:
					if e.Name == marker {
						seen = true
					}
				}
			}
			if !seen {
				if time.Now().After(deadline) {
					stats["prune_race_watchdog"]++
					return
				}
				time.Sleep(200 * time.Microsecond)
				continue
			}
			stats["prune_races"]++
			listed := false
			nFailed, nLeft := 0, 0
			for _, m := range nd.S.Members() {
				if m.Name == name {
					listed = true
				}
				switch m.Status {
				case serf.StatusFailed:
					nFailed++
				case serf.StatusLeft:
					nLeft++
				}
			}
			st := nd.S.Stats()
			if reaps > 1 {
				viols = append(viols, fmt.Sprintf("member %s (pruning leave while alive, then variant %d after %v): %d reap events for one member", name, second, delay, reaps))
			}
			if listed && reaps > 0 {
				viols = append(viols, fmt.Sprintf("member %s (variant %d): reaped but still listed", name, second))
			}
			if st["failed"] != strconv.Itoa(nFailed) || st["left"] != strconv.Itoa(nLeft) {
				viols = append(viols, fmt.Sprintf("member %s (pruning leave while alive, then variant %d after %v): Stats failed=%s left=%s but Members() lists %d failed and %d left", name, second, delay, st["failed"], st["left"], nFailed, nLeft))
			}
			break
		}
	}
	return
}

func TestC15(t *testing.T) {
	r := evid.Start(t, "C15", "exploration")
	n := r.N(800, 30000)
	suffix := []string{"", "", "-fast", "-slow"}
	jumps := []time.Duration{time.Second, 14 * time.Second, 15 * time.Second, 16 * time.Second, time.Minute, 14 * time.Minute, 15 * time.Minute, 16 * time.Minute,
		29 * time.Minute, 31 * time.Minute, 44 * time.Minute, 46 * time.Minute, 59 * time.Minute, time.Hour, 61 * time.Minute, 2 * time.Hour, 3 * time.Hour, 3*time.Hour + time.Minute, 6 * time.Hour, 7 * time.Hour}

	r.Cases("prunerace", r.N(32, 600), 16, func(ci int, rng *rand.Rand) {
		viols, stats := c15PruneRace(rng, ci)
		r.Eval(1)
		for k, v := range stats {
			r.Count(k, v)
		}
		if stats["prune_race_watchdog"] > 0 {
			r.Inconclusive("prune race: marker event not seen within 60 s (watchdog)")
		}
		for _, v := range viols {
			r.Violation("prune-race", ci, v, v)
		}
	})
	r.Cases("history", n, 0, func(ci int, rng *rand.Rand) {
		type viol struct{ key, msg string }
		var viols []viol
		var trace []string
		counts := map[string]int{}
		var setupErr string
		override := rng.Intn(4) != 0
		nm := 3 + rng.Intn(4)
		names := make([]string, nm)
		for i := range names {
			names[i] = fmt.Sprintf("m%d%s", i, suffix[rng.Intn(len(suffix))])
		}
		steps := 15 + rng.Intn(50)
		reapedByTimeout, pruned := 0, 0

		noCoords := rng.Intn(3) == 0
		synctest.Test(t, func(t *testing.T) {
			nw := simnet.New(int64(ci))
			self := fmt.Sprintf("self-%d", ci)
			nd, err := cluster.Start(nw, cluster.Opts{Name: self, IP: fmt.Sprintf("10.15.%d.1", ci%250), Profile: "passive", Mutate: func(c *serf.Config) {
				c.ReconnectTimeout = c15Reconnect
				c.TombstoneTimeout = c15Tombstone
				c.ReapInterval = c15Reap
				c.BroadcastTimeout = 0 // a pruning leave of a leaving member sleeps this long under the member lock
				c.LeavePropagateDelay = 0
				c.RecentIntentTimeout = 5 * time.Minute
				if override {
					c.ReconnectTimeoutOverride = c15Override{}
				}
				// a third of the nodes run without network coordinates (reaping also cleans the coordinate cache)
				c.DisableCoordinates = noCoords
			}})
			if err != nil {
				setupErr = err.Error()
				return
			}
			defer func() {
				nd.Close()
				time.Sleep(3 * time.Minute)
			}()
			t0 := time.Now()
			mlAlive := map[string]bool{}           // memberlist-level liveness (what the harness has told the node)
			departAt := map[string]time.Duration{} // virtual time of the last NotifyLeave per member
			meta := wire.EncodeTags(map[string]string{"role": "x"})
			node := func(name string) int {
				for i, n := range names {
					if n == name {
						return i
					}
				}
				return 0
			}
			lt := uint64(1)
			nextLT := func() uint64 {
				cur, _ := strconv.ParseUint(nd.S.Stats()["member_time"], 10, 64)
				if cur > lt {
					lt = cur
				}
				lt++
				return lt
			}
			type view struct {
				at     time.Duration
				status map[string]serf.MemberStatus
			}
			observe := func() view {
				synctest.Wait()
				v := view{at: time.Since(t0), status: map[string]serf.MemberStatus{}}
				ms := nd.S.Members()
				failed, left := 0, 0
				for _, m := range ms {
					if _, dup := v.status[m.Name]; dup {
						viols = append(viols, viol{"duplicate-member-name", fmt.Sprintf("Members() lists %q twice", m.Name)})
					}
					v.status[m.Name] = m.Status
					switch m.Status {
					case serf.StatusFailed:
						failed++
					case serf.StatusLeft:
						left++
					}
				}
				st := nd.S.Stats()
				counts["observations"]++
				if st["failed"] != strconv.Itoa(failed) || st["left"] != strconv.Itoa(left) || st["members"] != strconv.Itoa(len(ms)) {
					viols = append(viols, viol{"counters-disagree-with-list", fmt.Sprintf("at %v Stats() reports members=%s failed=%s left=%s, Members() lists %d members, %d failed, %d left", v.at, st["members"], st["failed"], st["left"], len(ms), failed, left)})
				}
				if failed+left > 0 {
					counts["observations_with_failed_or_left"]++
				}
				return v
			}
			reapEvents := func() map[string]int {
				out := map[string]int{}
				for _, le := range nd.Events() {
					if me, ok := le.E.(serf.MemberEvent); ok && me.Type == serf.EventMemberReap {
						for _, m := range me.Members {
							out[m.Name]++
						}
					}
				}
				return out
			}
			gone := map[string]int{} // observed disappearances per member
			prev := observe()
			for s := 0; s < steps && len(viols) == 0; s++ {
				x := names[rng.Intn(nm)]
				i := node(x)
				ip := fmt.Sprintf("10.15.%d.%d", ci%250, 10+i)
				var op string
				expectGone := "" // member that this step must erase
				mayReap := false
				switch k := rng.Intn(20); {
				case k < 4:
					if mlAlive[x] {
						op = "fail " + x
						nd.NotifyLeave(cluster.FakeNode(x, ip, 7946, meta))
						mlAlive[x] = false
						if _, known := prev.status[x]; known {
							departAt[x] = time.Since(t0)
						}
					} else {
						op = "join " + x
						nd.NotifyJoin(cluster.FakeNode(x, ip, 7946, meta))
						mlAlive[x] = true
					}
				case k < 7:
					prune := rng.Intn(3) == 0
					op = fmt.Sprintf("leave-intent %s prune=%v", x, prune)
					nd.NotifyMsg(wire.Encode(wire.Leave, &wire.MsgLeave{LTime: nextLT(), Node: x, Prune: prune}))
					if _, known := prev.status[x]; known && prune {
						expectGone = x
					}
				case k < 8:
					op = "join-intent " + x
					nd.NotifyMsg(wire.Encode(wire.Join, &wire.MsgJoin{LTime: nextLT(), Node: x}))
				case k < 10:
					prune := rng.Intn(2) == 0
					op = fmt.Sprintf("force-leave %s prune=%v", x, prune)
					nextLT()
					g := newBGroup()
					g.Go(func() {
						if prune {
							_ = nd.S.RemoveFailedNodePrune(x)
						} else {
							_ = nd.S.RemoveFailedNode(x)
						}
					})
					g.Wait()
					nd.DrainBroadcasts()
					if _, known := prev.status[x]; known && prune {
						expectGone = x
					}
				default:
					d := jumps[rng.Intn(len(jumps))]
					switch rng.Intn(3) {
					case 0:
						d = time.Duration(rng.Intn(4*3600)) * time.Second
					case 1:
						// land shortly after the earliest pending expiry, so that a single reap pass is observed
						first, any := time.Duration(0), false
						for name, st := range prev.status {
							if st == serf.StatusFailed || st == serf.StatusLeft {
								if e := departAt[name] + c15Timeout(name, st, override); !any || e < first {
									first, any = e, true
								}
							}
						}
						if now := time.Since(t0); any && first >= now {
							d = first - now + []time.Duration{time.Second, 8 * time.Second, 15 * time.Second, 16 * time.Second}[rng.Intn(4)]
							counts["advances_aimed_at_an_expiry"]++
						}
					}
					op = "advance " + d.String()
					time.Sleep(d)
					mayReap = true
				}
				cur := observe()
				trace = append(trace, fmt.Sprintf("%v %s -> %s", cur.at, op, c15Show(cur.status)))
				expiry := map[string]time.Duration{}
				for name, st := range prev.status {
					if st == serf.StatusFailed || st == serf.StatusLeft {
						expiry[name] = departAt[name] + c15Timeout(name, st, override)
					}
				}
				// what may / must have disappeared
				for name, st := range prev.status {
					_, still := cur.status[name]
					if name == self {
						if !still {
							viols = append(viols, viol{"local-member-removed", "the node no longer lists itself"})
						}
						continue
					}
					reapable := st == serf.StatusFailed || st == serf.StatusLeft
					age := cur.at - departAt[name]
					to := c15Timeout(name, st, override)
					switch {
					case !still && name == expectGone:
						gone[name]++
						pruned++
						delete(departAt, name)
					case !still && mayReap && reapable && age > to:
						gone[name]++
						reapedByTimeout++
						counts["reaped_"+st.String()]++
						delete(departAt, name)
					case !still:
						gone[name]++
						viols = append(viols, viol{"removed-unexpectedly/" + st.String(), fmt.Sprintf("member %s (%v, departed %v ago, timeout %v) disappeared during step %q", name, st, age, to, op)})
					case still && name == expectGone:
						viols = append(viols, viol{"pruned-member-still-listed/" + st.String(), fmt.Sprintf("member %s (%v) is still listed as %v after step %q", name, st, cur.status[name], op)})
					case still && mayReap && reapable && age > to+c15Reap:
						viols = append(viols, viol{"not-reaped/" + st.String(), fmt.Sprintf("member %s is still listed as %v at %v although it departed at %v and its timeout is %v (reap interval %v)", name, st, cur.at, departAt[name], to, c15Reap)})
					case still && mayReap && reapable && age > to:
						counts["reap_window_undecided"]++
					}
				}
				// a reap pass that removed one member must have removed every member that was eligible no later
				if mayReap {
					latest, who := time.Duration(-1), ""
					for name, st := range prev.status {
						if _, still := cur.status[name]; !still && (st == serf.StatusFailed || st == serf.StatusLeft) {
							if e := expiry[name]; e > latest {
								latest, who = e, name
							}
						}
					}
					for name, st := range prev.status {
						if _, still := cur.status[name]; still && who != "" && (st == serf.StatusFailed || st == serf.StatusLeft) && expiry[name] <= latest {
							counts["same_pass_comparisons"]++
							viols = append(viols, viol{"reap-pass-skipped-eligible-member/" + st.String(), fmt.Sprintf("during %q member %s (expired at %v) was reaped but %s (%v, expired at %v) is still listed at %v", op, who, latest, name, st, expiry[name], cur.at)})
						}
					}
				}
				// exactly one reap event per disappearance
				ev := reapEvents()
				for _, name := range names {
					if ev[name] != gone[name] {
						viols = append(viols, viol{"reap-event-count", fmt.Sprintf("member %s disappeared %d times, %d reap events were delivered (after step %q)", name, gone[name], ev[name], op)})
					}
				}
				for name := range ev {
					if _, ok := gone[name]; !ok && ev[name] > 0 {
						viols = append(viols, viol{"reap-event-count", fmt.Sprintf("reap event for %s which never disappeared", name)})
					}
				}
				prev = cur
			}
			counts["steps"] += len(trace)
		})

		r.Eval(1)
		if setupErr != "" {
			r.Count("setup_errors", 1)
			return
		}
		for k, v := range counts {
			r.Count(k, v)
		}
		r.Count("members_reaped_by_timeout", reapedByTimeout)
		r.Count("members_pruned", pruned)
		if reapedByTimeout+pruned > 0 {
			r.Distinct(fmt.Sprint(override) + strings.Join(trace, ";"))
		}
		if ci < 2 {
			r.Sample(map[string]any{"override": override, "members": names, "history": trace})
		}
		for _, v := range viols {
			r.Violation(v.key, ci, v.msg+" | history: "+strings.Join(trace, " ; "), map[string]any{"override": override, "members": names, "history": trace})
		}
	})
	if r.Counter("setup_errors") > 0 {
		r.Inconclusive(fmt.Sprintf("%d histories could not be set up", r.Counter("setup_errors")))
	}
	for _, k := range []string{"reaped_failed", "reaped_left", "members_pruned", "observations_with_failed_or_left"} {
		if r.Counter(k) == 0 {
			r.Inconclusive("nothing observed for " + k)
		}
	}
	r.Finish("one history = 15-64 single steps on one real node for 3-6 other members (memberlist join/leave notifications in a legal order, join and leave intents with and without prune and increasing Lamport times, RemoveFailedNode with and without prune, virtual-time jumps around the 1 h reconnect / 3 h tombstone timeouts and their per-member overrides x1/4, x1, x2), observed after every step; non-trivial = at least one member was reaped or pruned; distinct = different history",
		r.N(300, 10000),
		"a departure is timed from the instant memberlist reported it (NotifyLeave), which is what serf records; a forced leave of a failed member keeps that instant",
		"a member must be gone once its age exceeds timeout + one reap interval and must not go before its age exceeds the timeout; in between either is accepted",
		"intents carry strictly increasing Lamport times, so a pruning leave of a listed member always applies",
	)
}

func c15Show(m map[string]serf.MemberStatus) string {
	var ks []string
	for k := range m {
		ks = append(ks, k)
	}
	sort.Strings(ks)
	var b strings.Builder
	for _, k := range ks {
		if strings.HasPrefix(k, "self-") {
			continue
		}
		fmt.Fprintf(&b, "%s=%v ", k, m[k])
	}
	return strings.TrimSpace(b.String())
}
