package props

import (
	"fmt"
	"math"
	"math/rand"
	"runtime"
	"strings"
	"sync/atomic"
	"testing"
	"testing/synctest"
	"time"

	"github.com/hashicorp/serf/serf"

	"verif/harness/cluster"
	"verif/harness/evid"
	"verif/harness/simnet"
	"verif/harness/wire"
)

// C03: a running member never reports itself departed and refutes newer claims.
//
// One real node that never calls Leave. Leave / force-leave / prune claims about
// the node itself arrive by gossip and inside push/pull state, with LTimes below,
// equal to, just above and far above its clock (up to 2^64-2), interleaved with
// joins about itself, messages about others, user events and real Join calls.
// After every delivery (+quiescence): LocalMember().Status must be alive, and a
// claim whose LTime was newer than the node's own status time must have produced
// a queued join intent about the node with a strictly greater LTime.

// c03Clock reads the node's member clock from its push/pull state.
func c03Clock(nd *cluster.Node) uint64 {
	st, err := nd.State()
	if err != nil {
		return 0
	}
	return st.LTime
}

func c03SelfLTime(nd *cluster.Node) (uint64, bool) {
	st, err := nd.State()
	if err != nil {
		return 0, false
	}
	v, ok := st.StatusLTimes["self"]
	return v, ok
}

func c03History(t *testing.T, rng *rand.Rand) (viols [][2]string, stats map[string]int, desc string) {
	stats = map[string]int{}
	var sb strings.Builder
	synctest.Test(t, func(t *testing.T) {
		net := simnet.New(1)
		nd, err := cluster.Start(net, cluster.Opts{Name: "self", IP: "10.0.0.1", Profile: "passive",
			Mutate: func(c *serf.Config) { c.BroadcastTimeout, c.LeavePropagateDelay = 0, 0 }})
		if err != nil {
			viols = append(viols, [2]string{"setup", err.Error()})
			return
		}
		defer nd.Close()
		var pup *cluster.Puppet
		defer func() {
			if pup != nil {
				pup.Close()
			}
		}()
		nd.NotifyJoin(cluster.FakeNode("other", "10.0.0.2", 7946, nil))
		tr := newQTracker()
		synctest.Wait()
		tr.Poll(nd)
		clockOf := func() uint64 {
			var c uint64
			fmt.Sscan(nd.S.Stats()["member_time"], &c)
			return c
		}
		var pickRaw func() uint64
		pickLT := func() uint64 {
			v := pickRaw()
			if v == math.MaxUint64 { // 2^64-1 is excluded (clock wrap, C19 known finding)
				v--
			}
			return v
		}
		pickRaw = func() uint64 {
			cur := clockOf()
			switch rng.Intn(10) {
			case 0:
				return 0
			case 1:
				return uint64(rng.Intn(4))
			case 2:
				if cur > 2 {
					return cur - 1 - uint64(rng.Intn(2))
				}
				return cur
			case 3:
				return cur
			case 4, 5:
				return cur + 1 + uint64(rng.Intn(3))
			case 6:
				return cur + uint64(rng.Intn(1000000))
			case 7:
				if rng.Intn(4) == 0 {
					return math.MaxUint64 - 1 - uint64(rng.Intn(3))
				}
				return cur + 1<<40
			default:
				l, _ := c03SelfLTime(nd)
				if l >= math.MaxUint64-3 {
					return math.MaxUint64 - 1
				}
				return l + uint64(rng.Intn(3))
			}
		}
		joinsAboutSelf := func(fresh [][]byte) (max uint64, n int) {
			for _, f := range fresh {
				if f[0] == wire.Join {
					var j wire.MsgJoin
					if wire.Decode(f[1:], &j) == nil && j.Node == "self" {
						n++
						if j.LTime > max {
							max = j.LTime
						}
					}
				}
			}
			return
		}
		checkAlive := func(step string) {
			lm := nd.S.LocalMember()
			if lm.Status != serf.StatusAlive {
				viols = append(viols, [2]string{"self-not-alive", fmt.Sprintf("%s: LocalMember().Status=%v", step, lm.Status)})
			}
			found := false
			for _, m := range nd.S.Members() {
				if m.Name == "self" {
					found = true
					if m.Status != serf.StatusAlive {
						viols = append(viols, [2]string{"self-not-alive", fmt.Sprintf("%s: Members() lists self as %v", step, m.Status)})
					}
				}
			}
			if !found {
				viols = append(viols, [2]string{"self-missing", fmt.Sprintf("%s: Members() does not list the node itself", step)})
			}
		}
		steps := 5 + rng.Intn(30)
		for i := 0; i < steps && len(viols) == 0; i++ {
			lBefore, ok := c03SelfLTime(nd)
			if !ok {
				viols = append(viols, [2]string{"self-missing", fmt.Sprintf("step %d: push/pull state has no status time for the node itself", i)})
				break
			}
			var claim uint64
			isClaim := false
			step := ""
			c0 := c03Clock(nd) // the node's Lamport clock before the step
			switch x := rng.Intn(20); {
			case x < 9:
				claim = pickLT()
				isClaim = true
				pr := rng.Intn(3) == 0
				step = fmt.Sprintf("leave(self,%d,prune=%v)", claim, pr)
				nd.NotifyMsg(wire.Encode(wire.Leave, &wire.MsgLeave{LTime: claim, Node: "self", Prune: pr}))
				if rng.Intn(4) == 0 && claim < math.MaxUint64-100 && c0 < math.MaxUint64-100 {
					// a second, newer claim right behind the first (no quiescence in between: the refutation
					// of the first may still be on its way); the newer one has to be refuted as well
					// (newer than the refutation of the first: that one carries the node's clock after it
					// witnessed the first claim, max(clock, claim+1), and a claim equal to the node's own
					// latest join is not a newer claim)
					if claim+1 > c0 {
						c0 = claim + 1
					}
					claim = c0 + 1 + uint64(rng.Intn(20))
					pr2 := rng.Intn(3) == 0
					nd.NotifyMsg(wire.Encode(wire.Leave, &wire.MsgLeave{LTime: claim, Node: "self", Prune: pr2}))
					step += fmt.Sprintf("+leave(self,%d,prune=%v)", claim, pr2)
					stats["claims_followed_by_a_newer_claim_at_once"]++
				} else if rng.Intn(3) == 0 && claim < math.MaxUint64-10 {
					// a state sync lands right behind the claim (no quiescence in between: the refutation
					// the claim started may not have run yet); the peer already knows a newer status time
					// of this node, which must not keep the refutation from going out
					st := claim + 1 + uint64(rng.Intn(3))
					pp := &wire.MsgPushPull{LTime: 1, StatusLTimes: map[string]uint64{"self": st, "other": 1}, EventLTime: 1, QueryLTime: 1}
					nd.ML.Delegate.MergeRemoteState(wire.Encode(wire.PushPull, pp), false)
					step += fmt.Sprintf("+merge(self=%d)", st)
					stats["claims_followed_by_immediate_merge"]++
				}
			case x < 12:
				// claim inside a state sync: self on the left list => synthetic leave at statusLTime+1
				sl := pickLT()
				if sl == math.MaxUint64-1 {
					sl--
				}
				claim = sl + 1
				isClaim = true
				pp := &wire.MsgPushPull{LTime: 1, StatusLTimes: map[string]uint64{"self": sl, "other": 1}, LeftMembers: []string{"self"}, EventLTime: 1, QueryLTime: 1}
				// the peer's left list usually names other departed members too, before and after this node
				for k := rng.Intn(4); k > 0; k-- {
					g := fmt.Sprintf("gone-%d", rng.Intn(5))
					if _, dup := pp.StatusLTimes[g]; dup {
						continue
					}
					pp.StatusLTimes[g] = uint64(rng.Intn(8))
					if rng.Intn(2) == 0 {
						pp.LeftMembers = append(pp.LeftMembers, g)
					} else {
						pp.LeftMembers = append([]string{g}, pp.LeftMembers...)
					}
				}
				step = fmt.Sprintf("merge(left=%v,status=%d)", pp.LeftMembers, sl)
				nd.ML.Delegate.MergeRemoteState(wire.Encode(wire.PushPull, pp), rng.Intn(2) == 0)
			case x < 14:
				lt := pickLT()
				step = fmt.Sprintf("join(self,%d)", lt)
				nd.NotifyMsg(wire.Encode(wire.Join, &wire.MsgJoin{LTime: lt, Node: "self"}))
			case x < 16:
				lt := pickLT()
				step = fmt.Sprintf("leave(other,%d)", lt)
				nd.NotifyMsg(wire.Encode(wire.Leave, &wire.MsgLeave{LTime: lt, Node: "other", Prune: rng.Intn(2) == 0}))
				nd.NotifyJoin(cluster.FakeNode("other", "10.0.0.2", 7946, nil))
			case x < 18:
				step = "userevent"
				_ = nd.S.UserEvent("e", []byte("x"), false)
			default:
				if pup == nil {
					p, err := cluster.StartPuppet(net, cluster.PuppetOpts{Name: "pup", IP: "10.0.0.9", Profile: "passive"})
					if err != nil {
						viols = append(viols, [2]string{"setup", err.Error()})
						return
					}
					pup = p
				}
				step = "Join(puppet)"
				if _, err := nd.S.Join([]string{pup.Addr}, false); err != nil {
					viols = append(viols, [2]string{"setup", "join: " + err.Error()})
				}
			}
			synctest.Wait()
			sb.WriteString(step + " ")
			fresh := tr.Poll(nd)
			maxJoin, nJoin := joinsAboutSelf(fresh)
			stats["self_joins_queued"] += nJoin
			checkAlive(fmt.Sprintf("step %d %s", i, step))
			if isClaim {
				stats["claims"]++
				if claim > lBefore {
					stats["claims_newer"]++
					if nJoin == 0 {
						viols = append(viols, [2]string{"no-refutation", fmt.Sprintf("step %d %s: claim LTime %d is newer than the node's status time %d but no join intent was queued", i, step, claim, lBefore)})
					} else if maxJoin <= claim {
						viols = append(viols, [2]string{"weak-refutation", fmt.Sprintf("step %d %s: claim LTime %d, refutation join LTime %d is not strictly greater", i, step, claim, maxJoin)})
					}
				} else {
					stats["claims_stale"]++
				}
			}
			if rng.Intn(3) == 0 {
				time.Sleep(time.Duration(rng.Intn(3000)) * time.Millisecond)
			}
		}
	})
	desc = sb.String()
	return
}

// c03Concurrent: claims about the node arrive while other gossip is being handled on
// other goroutines (memberlist calls NotifyMsg from its packet handler and from every
// stream goroutine). Background goroutines deliver join intents about unknown members,
// stamped like gossip from peers whose clocks are in step with the node's (at or just
// above the last value the harness saw), without pause; the main goroutine injects leave
// claims about the node, each newer than anything it has seen, and waits for the refuting
// join: its LTime must be strictly greater than the claim. Real time (no bubble: the
// background never quiesces); the only wall-clock element is a watchdog whose firing is
// inconclusive.
func c03Concurrent(rng *rand.Rand, claims int) (viols [][2]string, stats map[string]int, inconclusive string) {
	stats = map[string]int{}
	net := simnet.New(1)
	nd, err := cluster.Start(net, cluster.Opts{Name: "self", IP: "10.0.0.1", Profile: "passive",
		Mutate: func(c *serf.Config) { c.BroadcastTimeout, c.LeavePropagateDelay = 0, 0 }})
	if err != nil {
		return [][2]string{{"setup", err.Error()}}, stats, ""
	}
	defer nd.Close()
	tr := newQTracker()
	tr.Poll(nd)
	clockOf := func() uint64 {
		var c uint64
		fmt.Sscan(nd.S.Stats()["member_time"], &c)
		return c
	}
	var seen atomic.Uint64 // a recent clock reading, shared with the background
	seen.Store(clockOf())
	var stop atomic.Bool
	var delivered atomic.Int64
	g := newBGroup()
	for w := 0; w < 6; w++ {
		w := w
		g.Go(func() {
			k := uint64(0)
			for !stop.Load() {
				k++
				lt := seen.Load() + k%3
				nd.NotifyMsg(wire.Encode(wire.Join, &wire.MsgJoin{LTime: lt, Node: fmt.Sprintf("ghost-%d", w)}))
				delivered.Add(1)
			}
		})
	}
	defer func() { stop.Store(true); g.Wait() }()
	var lastJoin uint64
	for i := 0; i < claims && len(viols) == 0; i++ {
		cur := clockOf()
		seen.Store(cur)
		claim := cur + uint64(8+rng.Intn(64))
		nd.NotifyMsg(wire.Encode(wire.Leave, &wire.MsgLeave{LTime: claim, Node: "self", Prune: rng.Intn(4) == 0}))
		// the refutation is queued by a goroutine of its own: wait for a join about the node newer than the last one
		var max uint64
		deadline := time.Now().Add(20 * time.Second)
		for {
			for _, f := range tr.Poll(nd) {
				if f[0] == wire.Join {
					var j wire.MsgJoin
					if wire.Decode(f[1:], &j) == nil && j.Node == "self" && j.LTime > max {
						max = j.LTime
					}
				}
			}
			if max != 0 && max != lastJoin {
				break
			}
			if time.Now().After(deadline) {
				return viols, stats, fmt.Sprintf("no refuting join observed within 20 s of real time after claim %d (watchdog)", claim)
			}
			runtime.Gosched()
		}
		lastJoin = max
		stats["concurrent_claims"]++
		seen.Store(max)
		if max <= claim {
			viols = append(viols, [2]string{"weak-refutation/concurrent", fmt.Sprintf("claim %d: leave claim about the node with LTime %d (its clock was %d) while 6 goroutines deliver join intents about other members: the refuting join has LTime %d, not strictly greater", i, claim, cur, max)})
		}
		if lm := nd.S.LocalMember(); lm.Status != serf.StatusAlive {
			viols = append(viols, [2]string{"self-not-alive/concurrent", fmt.Sprintf("claim %d: LocalMember().Status=%v", i, lm.Status)})
		}
	}
	stats["concurrent_background_deliveries"] = int(delivered.Load())
	return
}

func TestC03(t *testing.T) {
	r := evid.Start(t, "C03", "exploration")
	nc := r.N(6, 120)
	r.Cases("conc", nc, 2, func(ci int, rng *rand.Rand) {
		viols, stats, inc := c03Concurrent(rng, 400)
		if inc != "" {
			r.Inconclusive(inc)
		}
		r.Eval(1)
		for k, v := range stats {
			r.Count(k, v)
		}
		for _, v := range viols {
			r.Violation(v[0], ci, v[1], v[1])
		}
	})
	n := r.N(5000, 200000)
	r.Cases("hist", n, 0, func(ci int, rng *rand.Rand) {
		viols, stats, desc := c03History(t, rng)
		r.Eval(1)
		for k, v := range stats {
			r.Count(k, v)
		}
		if stats["claims_newer"] > 0 && stats["claims_stale"] > 0 {
			r.Distinct(desc)
		}
		for _, v := range viols {
			r.Violation(v[0], ci, v[1]+" ; history: "+desc, desc)
		}
		if ci == 4 {
			r.Sample(map[string]any{"history": desc, "stats": stats})
		}
	})
	r.Finish("histories of 5-35 deliveries to one real node: leave/force-leave/prune claims about itself by gossip and inside push/pull left-lists with LTimes 0, small, around/equal/above its clock and status time, far above and up to 2^64-2, interleaved with joins about itself, leaves about another member, local user events and real Join calls; non-trivial = history containing both a newer and a stale claim; distinct by history",
		500, "claims with LTime 2^64-1 are excluded (clock wrap, C19 known finding)", "the node's own status time is read from its push/pull state right before each delivery")
}
