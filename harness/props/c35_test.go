package props

import (
	"bytes"
	"fmt"
	"math/rand"
	"net"
	"sort"
	"strconv"
	"sync"
	"testing"
	"testing/synctest"
	"time"

	"github.com/hashicorp/serf/serf"

	"verif/harness/cluster"
	"verif/harness/evid"
	"verif/harness/simnet"
	"verif/harness/wire"
)

// C35: query reply relays go to distinct eligible peers.
//
// Member list of the real node = puppets (real, alive, protocol max 5) + fake
// members injected through the node's own memberlist event delegate (alive
// with protocol max 2..5, failed, leaving, left, moved to a new address) whose
// addresses are silent simnet sinks. A puppet sends queries with relay factor
// k; the node acks and (driven from its EventCh) responds. Every packet the
// node hands to the transport is observed (simnet.OnPacket) and parsed.
// Only upper bounds and eligibility are asserted (DESIGN 9).

type c35Pkt struct {
	To    string
	Relay bool
	Hdr   wire.RelayHeader
	Msg   wire.MsgQueryResponse
	Inner []byte
}

// c35UserMsg extracts the serf message from a raw memberlist packet (compression is off at the node).
func c35UserMsg(b []byte) []byte {
	if len(b) > 5 && b[0] == 12 { // hasCrcMsg + 4 byte crc
		b = b[5:]
	}
	if len(b) > 1 && b[0] == 8 { // userMsg
		return b[1:]
	}
	return nil
}

func TestC35(t *testing.T) {
	r := evid.Start(t, "C35", "exploration")
	nBubbles := r.N(1600, 100000)
	perBubble := r.N(8, 8)
	kinds := []string{"alive5", "alive5", "alive-old", "alive-old", "failed", "left", "leaving", "moved"}

	r.Cases("bubble", nBubbles, 0, func(ci int, rng *rand.Rand) {
		np := 1 + rng.Intn(4)
		nf := rng.Intn(7)
		type viol struct {
			key, msg string
			w        any
		}
		var viols []viol
		counts := map[string]int{}
		var sigs []string
		var sample any
		var setupErr string
		synctest.Test(t, func(t *testing.T) {
			nw := simnet.New(int64(ci))
			var pmu sync.Mutex
			var pkts []c35Pkt
			nodeAddr := "10.35.0.1:7946"
			nw.OnPacket = func(pi simnet.PacketInfo) {
				if pi.From != nodeAddr {
					return
				}
				m := c35UserMsg(pi.Buf)
				if len(m) == 0 {
					return
				}
				p := c35Pkt{To: pi.To}
				switch m[0] {
				case wire.QueryResponse:
					if wire.Decode(m[1:], &p.Msg) != nil {
						return
					}
					p.Inner = m
				case wire.Relay:
					hdr, inner, err := wire.DecodeRelay(m)
					if err != nil || len(inner) == 0 || inner[0] != wire.QueryResponse || wire.Decode(inner[1:], &p.Msg) != nil {
						return
					}
					p.Relay, p.Hdr, p.Inner = true, hdr, inner
				default:
					return
				}
				pmu.Lock()
				pkts = append(pkts, p)
				pmu.Unlock()
			}
			nd, err := cluster.Start(nw, cluster.Opts{Name: "n1", IP: "10.35.0.1", Profile: "passive", Mutate: func(c *serf.Config) {
				c.MemberlistConfig.EnableCompression = false
			}})
			if err != nil {
				setupErr = err.Error()
				return
			}
			defer nd.Close()
			var pups []*cluster.Puppet
			for i := 0; i < np; i++ {
				p, err := cluster.StartPuppet(nw, cluster.PuppetOpts{Name: fmt.Sprintf("p%d", i), IP: fmt.Sprintf("10.35.0.%d", 10+i), Profile: "passive"})
				if err != nil {
					setupErr = err.Error()
					return
				}
				defer p.Close()
				if _, err := p.ML.Join([]string{nd.Addr}); err != nil {
					setupErr = err.Error()
					return
				}
				pups = append(pups, p)
			}
			synctest.Wait()
			origin := pups[0]
			meta := wire.EncodeTags(map[string]string{"role": "fake"})
			intentLT := uint64(10)
			sinkN := 0
			newSink := func() (string, uint16) {
				sinkN++
				ip := fmt.Sprintf("10.35.1.%d", sinkN)
				nw.NewSink(ip, 7946)
				return ip, 7946
			}
			join := func(name, ip string, port uint16, pmax uint8) {
				n := cluster.FakeNode(name, ip, port, meta)
				n.PMax = pmax
				if pmax < n.PCur {
					n.PCur = pmax
				}
				nd.NotifyJoin(n)
			}
			leaveIntent := func(name string) {
				intentLT++
				nd.NotifyMsg(wire.Encode(wire.Leave, &wire.MsgLeave{LTime: intentLT, Node: name}))
			}
			type fakeState struct {
				name, ip string
				port     uint16
				pmax     uint8
			}
			var fakes []*fakeState
			oldAddrs := map[string]string{} // addresses that no longer belong to any member
			for i := 0; i < nf; i++ {
				kind := kinds[rng.Intn(len(kinds))]
				ip, port := newSink()
				f := &fakeState{name: fmt.Sprintf("f%d", i), ip: ip, port: port, pmax: 5}
				switch kind {
				case "alive-old":
					f.pmax = uint8(2 + rng.Intn(3))
				case "failed", "left", "leaving", "moved":
					if rng.Intn(3) == 0 {
						f.pmax = uint8(2 + rng.Intn(3))
					}
				}
				join(f.name, f.ip, f.port, f.pmax)
				switch kind {
				case "failed":
					nd.NotifyLeave(cluster.FakeNode(f.name, f.ip, f.port, meta))
				case "leaving":
					leaveIntent(f.name)
				case "left":
					leaveIntent(f.name)
					nd.NotifyLeave(cluster.FakeNode(f.name, f.ip, f.port, meta))
				case "moved":
					oldAddrs[net.JoinHostPort(f.ip, strconv.Itoa(int(f.port)))] = f.name
					f.ip, f.port = newSink()
					join(f.name, f.ip, f.port, f.pmax)
				}
				counts["fake_"+kind]++
				fakes = append(fakes, f)
			}
			synctest.Wait()
			nd.DrainBroadcasts()
			evSeen := len(nd.Events())
			lt := uint64(1)
			for qi := 0; qi < perBubble; qi++ {
				// membership churn between queries
				if len(fakes) > 0 && rng.Intn(3) == 0 {
					f := fakes[rng.Intn(len(fakes))]
					switch rng.Intn(3) {
					case 0:
						nd.NotifyLeave(cluster.FakeNode(f.name, f.ip, f.port, meta))
					case 1:
						// (a member that comes back may run another version than before)
						f.pmax = []uint8{5, 5, 5, 4, 3, 2}[rng.Intn(6)]
						join(f.name, f.ip, f.port, f.pmax)
					default:
						leaveIntent(f.name)
					}
					counts["membership_changes_between_queries"]++
				}
				synctest.Wait()
				// ground truth: the node's own member list at quiescence; the protocol versions of the fake
				// members are what they announced last
				truth := func() (members []serf.Member, elig, why, cat map[string]string) {
					members = nd.S.Members()
					elig = map[string]string{} // addr -> name
					why = map[string]string{}  // addr -> reason for ineligibility
					cat = map[string]string{}  // addr -> reason category (violation key)
					announced := map[string]uint8{}
					for _, f := range fakes {
						announced[f.name] = f.pmax
					}
					for _, m := range members {
						a := net.JoinHostPort(m.Addr.String(), strconv.Itoa(int(m.Port)))
						counts["member_views_"+m.Status.String()]++
						pmax := m.ProtocolMax
						if v, ok := announced[m.Name]; ok {
							pmax = v
						}
						if pmax < 5 {
							counts["member_views_protocol_max_below_5"]++
						}
						switch {
						case m.Name == "n1":
							why[a], cat[a] = "the node itself", "self"
						case m.Status != serf.StatusAlive:
							why[a], cat[a] = "member "+m.Name+" is "+m.Status.String(), "status-"+m.Status.String()
						case pmax < 5:
							why[a], cat[a] = fmt.Sprintf("member %s announced protocol max %d", m.Name, pmax), "old-protocol"
						default:
							elig[a] = m.Name
						}
					}
					for a, n := range oldAddrs {
						if _, ok := elig[a]; !ok {
							why[a], cat[a] = "former address of member "+n, "former-address"
						}
					}
					return
				}
				members, elig, why, cat := truth()
				maxK := len(members) + 2
				k := rng.Intn(maxK + 1)
				if rng.Intn(6) == 0 {
					k = []int{0, 1, 200, 255}[rng.Intn(4)]
				}
				lt += uint64(1 + rng.Intn(3))
				id := rng.Uint32()
				ack := rng.Intn(2) == 0
				respond := rng.Intn(5) != 0
				qm := &wire.MsgQuery{LTime: lt, ID: id, Addr: []byte(origin.Tr.IP().To4()), Port: uint16(origin.Tr.Port()), SourceNode: origin.Name,
					RelayFactor: uint8(k), Timeout: 10 * time.Second, Name: "ask", Payload: []byte{byte(qi)}}
				if ack {
					qm.Flags = wire.FlagAck
				}
				pmu.Lock()
				pkts = nil
				pmu.Unlock()
				if rng.Intn(2) == 0 {
					_ = origin.Send(nd.Addr, nd.Name, wire.Encode(wire.Query, qm))
				} else {
					nd.NotifyMsg(wire.Encode(wire.Query, qm))
				}
				synctest.Wait()
				var respErr error
				rMembers, rElig, rWhy, rCat := members, elig, why, cat // the truth when the reply is sent
				if respond {
					evs := nd.Events()
					var q *serf.Query
					for _, le := range evs[evSeen:] {
						if sq, ok := le.E.(*serf.Query); ok && uint64(sq.LTime) == lt {
							q = sq
						}
					}
					evSeen = len(evs)
					if q == nil {
						counts["query_not_delivered"]++
					} else {
						if len(fakes) > 0 && rng.Intn(3) == 0 {
							// the application takes its time: the membership changes between the query's arrival
							// and the reply, and the reply goes by what the node knows when it is sent
							f := fakes[rng.Intn(len(fakes))]
							switch rng.Intn(3) {
							case 0:
								nd.NotifyLeave(cluster.FakeNode(f.name, f.ip, f.port, meta))
							case 1:
								f.pmax = []uint8{5, 5, 5, 4, 3, 2}[rng.Intn(6)]
								join(f.name, f.ip, f.port, f.pmax)
							default:
								leaveIntent(f.name)
							}
							synctest.Wait()
							counts["membership_changes_between_arrival_and_reply"]++
							rMembers, rElig, rWhy, rCat = truth()
						}
						respErr = q.Respond([]byte(fmt.Sprintf("answer-%d", qi)))
						synctest.Wait()
					}
				}
				pmu.Lock()
				got := append([]c35Pkt(nil), pkts...)
				pmu.Unlock()
				counts["queries"]++
				for _, isAck := range []bool{true, false} {
					if (isAck && !ack) || (!isAck && !respond) {
						continue
					}
					kindName := map[bool]string{true: "ack", false: "response"}[isAck]
					members, elig, why, cat := members, elig, why, cat
					if !isAck {
						members, elig, why, cat = rMembers, rElig, rWhy, rCat
					}
					var relays []c35Pkt
					direct := 0
					var directBytes []byte
					for _, p := range got {
						if p.Msg.LTime != lt || p.Msg.ID != id || (p.Msg.Flags&wire.FlagAck != 0) != isAck {
							continue
						}
						if p.Relay {
							relays = append(relays, p)
						} else if p.To == origin.Addr {
							direct++
							directBytes = p.Inner
						} else {
							viols = append(viols, viol{"direct-reply-elsewhere", fmt.Sprintf("direct %s sent to %s, the origin is %s", kindName, p.To, origin.Addr), nil})
						}
					}
					var dests []string
					for _, p := range relays {
						dests = append(dests, p.To)
					}
					sort.Strings(dests)
					wit := map[string]any{"relay_factor": k, "members_known": len(members), "eligible": elig, "ineligible": why, "reply": kindName, "relay_destinations": dests, "direct_copies": direct, "respond_error": fmt.Sprint(respErr)}
					counts["replies_checked"]++
					counts["relay_copies_observed"] += len(relays)
					counts["direct_replies_observed"] += direct
					class := fmt.Sprintf("k=%d/members=%d", min(k, 9), min(len(members), 12))
					if len(relays) > k {
						viols = append(viols, viol{"more-than-k/" + class, fmt.Sprintf("%s relayed through %d peers with relay factor %d: %v", kindName, len(relays), k, dests), wit})
					}
					if len(members) < k+1 && len(relays) > 0 {
						viols = append(viols, viol{"relay-in-small-cluster/" + class, fmt.Sprintf("%s relayed %d times although the node knows %d members < k+1 = %d", kindName, len(relays), len(members), k+1), wit})
					}
					for i, d := range dests {
						if i > 0 && dests[i-1] == d {
							viols = append(viols, viol{"duplicate-peer/" + class, fmt.Sprintf("%s relayed twice through %s: %v", kindName, d, dests), wit})
						}
						if _, ok := elig[d]; !ok {
							reason, key := why[d], "ineligible-peer/"+cat[d]
							if reason == "" {
								reason, key = "not a member address", "ineligible-peer/non-member"
							}
							viols = append(viols, viol{key, fmt.Sprintf("%s relayed through %s: %s", kindName, d, reason), wit})
						}
					}
					for _, p := range relays {
						if p.Hdr.DestAddr.String() != origin.Addr || p.Hdr.DestName != origin.Name {
							viols = append(viols, viol{"relay-header", fmt.Sprintf("relay envelope addressed to %s/%q, origin is %s/%q", p.Hdr.DestAddr.String(), p.Hdr.DestName, origin.Addr, origin.Name), wit})
						}
						if directBytes != nil && !bytes.Equal(p.Inner, directBytes) {
							viols = append(viols, viol{"relay-content", fmt.Sprintf("relayed %s differs from the direct reply", kindName), wit})
						}
					}
					ne := len(elig)
					if k > 0 && len(members) >= k+1 && ne > 0 {
						counts["replies_with_relay_possible"]++
						if len(relays) > 0 {
							counts["replies_with_relays_observed"]++
						}
						if ne > k && len(relays) == k {
							counts["replies_relayed_exactly_k_with_more_eligible"]++
						}
					}
					if k > 0 && len(members) < k+1 && ne > 0 {
						counts["replies_gate_small_cluster_with_eligible_peers"]++
					}
					if len(why) > 1 && len(relays) > 0 {
						counts["replies_relayed_with_ineligible_members_present"]++
					}
					if k > 0 {
						sigs = append(sigs, fmt.Sprintf("%d|%d|%d|%d|%s|%d", k, len(members), ne, len(why), kindName, len(relays)))
					}
					if sample == nil && len(relays) > 0 && len(why) > 2 && ci < 40 {
						sample = wit
					}
				}
			}
		})
		if setupErr != "" {
			r.Inconclusive("bubble setup failed: " + setupErr)
			return
		}
		r.Eval(counts["replies_checked"])
		for k, v := range counts {
			r.Count(k, v)
		}
		for _, s := range sigs {
			r.Distinct(s)
		}
		if sample != nil {
			r.Sample(sample)
		}
		for _, v := range viols {
			r.Violation(v.key, ci, v.msg, v.w)
		}
	})
	for _, k := range []string{"replies_with_relays_observed", "replies_relayed_exactly_k_with_more_eligible", "replies_gate_small_cluster_with_eligible_peers", "replies_relayed_with_ineligible_members_present"} {
		if r.Counter(k) < int64(r.N(300, 2000)) {
			r.Inconclusive(fmt.Sprintf("%s = %d: too few observations", k, r.Counter(k)))
		}
	}
	r.Finish("member lists of 1-4 alive puppets plus 0-6 fake members (alive with protocol max 5, alive with protocol max 2-4, failed, leaving, left, moved to a new address; churn between queries) around one real node; queries with relay factor 0..members+2 (and 200/255) from a puppet; acks and Respond replies; every packet leaving the node parsed. Asserted: relay copies <= k, distinct peers, only to alive members with protocol max >= 5 other than the node (ground truth = the node's own Members() at quiescence - for a Respond reply as of the moment it is sent, a third of them after a membership change since the query arrived - with the protocol version each fake member announced last), none when members < k+1, envelope addressed to the origin and identical to the direct reply. Non-trivial = relay factor > 0; distinct by (k, members, eligible, ineligible, reply kind, copies seen)",
		r.N(600, 1500),
		"relay selection is random with bounded probing: only upper bounds and eligibility are asserted, never 'exactly k'",
		"eligibility is judged against the node's own member list (status, protocol max) read at quiescence immediately before the query")
}
