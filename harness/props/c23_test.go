package props

import (
	"encoding/base64"
	"fmt"
	"math/rand"
	"net"
	"regexp"
	"sort"
	"strconv"
	"strings"
	"testing"
	"testing/synctest"
	"time"

	"github.com/hashicorp/memberlist"
	"github.com/hashicorp/serf/serf"

	"verif/harness/cluster"
	"verif/harness/evid"
	"verif/harness/simnet"
	"verif/harness/wire"
)

// C23: cluster key operations aggregate replies faithfully; list-keys replies fit.
//
// Part A (aggregation): a real Serf node issues key operations through the
// public KeyManager; every other member is a puppet (a real memberlist member)
// that answers the internal key query per script. The KeyResponse and the
// error are compared with a reference aggregation of what the puppets sent
// (first reply per responder, as the query layer de-duplicates) plus the
// node's own, predictable reply.
//
// Part B (truncation): a real node holding 1..200 keys with a response size
// limit of 64..4096 answers a list-keys query issued by a puppet; the reply is
// measured at the puppet.

// ---------------------------------------------------------------- part A

const (
	c23Silence   = "silence"
	c23Success   = "ok"
	c23Failure   = "fail"
	c23WrongType = "wrongtype"
	c23Truncated = "truncated"
	c23Empty     = "empty"
	c23Partial   = "partial" // a well-formed reply that carries only some of the fields (absent = zero value)
)

type c23Reply struct {
	Kind    string
	Dup     string // kind of a second reply sent afterwards ("" = none)
	Keys    []string
	Primary string
	Msg     string
	Cut     int  // truncated: bytes kept of the msgpack body
	TypeB   byte // wrongtype: the type byte used
	Fields  int  // partial: bit set of the fields present (1 Result, 2 Message, 4 Keys, 8 PrimaryKey)
}

type c23OpCase struct {
	Kind    string // list | install | use | remove
	KeyDesc string
	Key     string // base64
	Replies []c23Reply
	Order   []int
	Gaps    []int // ms slept before each send
}

type c23Case struct {
	Enc     bool
	NodeKey int // number of keys on the node (enc only)
	P       int
	Ops     []c23OpCase
}

func c23Pool(rng *rand.Rand) [][]byte {
	sizes := []int{16, 24, 32, 16, 32}
	var pool [][]byte
	for _, s := range sizes {
		k := make([]byte, s)
		rng.Read(k)
		pool = append(pool, k)
	}
	return pool
}

func c23B64(b []byte) string { return base64.StdEncoding.EncodeToString(b) }

func c23GenReply(rng *rand.Rand, pool [][]byte, list bool, kind string) c23Reply {
	rp := c23Reply{Kind: kind}
	switch kind {
	case c23Success, c23WrongType, c23Truncated:
		if list || rng.Intn(4) == 0 {
			perm := rng.Perm(len(pool))
			nk := rng.Intn(len(pool) + 1)
			for _, i := range perm[:nk] {
				rp.Keys = append(rp.Keys, c23B64(pool[i]))
			}
			if nk > 0 && rng.Intn(6) != 0 {
				rp.Primary = rp.Keys[rng.Intn(nk)]
			}
		}
		if rng.Intn(5) == 0 {
			rp.Msg = "truncated key list response, showing first 1 of 9 keys"
		}
	case c23Partial:
		rp.Fields = rng.Intn(16)
		if rp.Fields&1 == 0 {
			// a failed reply that nevertheless lists keys: the statement does not say whether they count
			rp.Fields &^= 4 | 8
		}
		perm := rng.Perm(len(pool))
		nk := rng.Intn(len(pool) + 1)
		for _, i := range perm[:nk] {
			rp.Keys = append(rp.Keys, c23B64(pool[i]))
		}
		if nk > 0 {
			rp.Primary = rp.Keys[rng.Intn(nk)]
		}
	case c23Failure:
		rp.Msg = "scripted failure"
		if rng.Intn(3) == 0 {
			rp.Msg = "" // a failure without a message (what a node answers when it cannot decode the request)
		}
	}
	rp.TypeB = []byte{wire.ConflictResponse, wire.KeyRequest, wire.QueryResponse, 0, 0xff, 77}[rng.Intn(6)]
	rp.Cut = rng.Intn(1 << 16)
	return rp
}

func c23Gen(rng *rand.Rand, pool [][]byte) c23Case {
	c := c23Case{Enc: rng.Intn(4) != 0, NodeKey: 1 + rng.Intn(3), P: 1 + rng.Intn(5)}
	nOps := 1 + rng.Intn(3)
	kinds := []string{c23Success, c23Success, c23Success, c23Failure, c23WrongType, c23Truncated, c23Empty, c23Partial, c23Silence}
	for o := 0; o < nOps; o++ {
		var op c23OpCase
		switch x := rng.Intn(10); {
		case x < 5:
			op.Kind, op.KeyDesc = "list", "-"
		case x < 7:
			op.Kind = "install"
			switch rng.Intn(3) {
			case 0:
				op.Key, op.KeyDesc = c23B64(pool[3]), "new"
			case 1:
				op.Key, op.KeyDesc = c23B64(pool[0]), "present"
			default:
				op.Key, op.KeyDesc = c23B64(pool[0][:15]), "len15"
			}
		case x < 9:
			op.Kind = "use"
			switch rng.Intn(3) {
			case 0:
				op.Key, op.KeyDesc = c23B64(pool[0]), "primary"
			case 1:
				op.Key, op.KeyDesc = c23B64(pool[4]), "absent"
			default:
				op.Key, op.KeyDesc = c23B64(pool[1]), "k1"
			}
		default:
			op.Kind = "remove"
			switch rng.Intn(3) {
			case 0:
				op.Key, op.KeyDesc = c23B64(pool[4]), "absent"
			case 1:
				op.Key, op.KeyDesc = c23B64(pool[2]), "k2"
			default:
				op.Key, op.KeyDesc = "", "primary" // filled at run time with the node's current primary
			}
		}
		// reply profile: all-success cases must exist (error must then be nil)
		profile := rng.Intn(5)
		for i := 0; i < c.P; i++ {
			k := kinds[rng.Intn(len(kinds))]
			if profile == 0 {
				k = c23Success
			}
			if profile == 1 && i > 0 {
				k = c23Success
			}
			rp := c23GenReply(rng, pool, op.Kind == "list", k)
			if k != c23Silence && rng.Intn(4) == 0 {
				rp.Dup = kinds[rng.Intn(len(kinds)-1)]
			}
			op.Replies = append(op.Replies, rp)
			op.Gaps = append(op.Gaps, []int{0, 0, 1, 50, 300}[rng.Intn(5)])
		}
		op.Order = rng.Perm(c.P)
		c.Ops = append(c.Ops, op)
	}
	return c
}

// c23Encode builds the payload of one scripted reply.
func c23Encode(rp c23Reply, kind string) []byte {
	body := wire.EncodeBody(&wire.NodeKeyResponse{Result: kind != c23Failure, Message: rp.Msg, Keys: rp.Keys, PrimaryKey: rp.Primary})
	switch kind {
	case c23Partial:
		m := map[string]interface{}{}
		if rp.Fields&1 != 0 {
			m["Result"] = true
		}
		if rp.Fields&2 != 0 {
			m["Message"] = "partial"
		}
		if rp.Fields&4 != 0 {
			m["Keys"] = rp.Keys
		}
		if rp.Fields&8 != 0 {
			m["PrimaryKey"] = rp.Primary
		}
		return append([]byte{wire.KeyResponse}, wire.EncodeBody(m)...)
	case c23Empty:
		return []byte{}
	case c23WrongType:
		return append([]byte{rp.TypeB}, body...)
	case c23Truncated:
		return append([]byte{wire.KeyResponse}, body[:rp.Cut%len(body)]...)
	}
	return append([]byte{wire.KeyResponse}, body...)
}

// reference aggregation (the property statement, literally)
type c23Agg struct {
	Replies  int
	Failures int
	Keys     map[string]int
	Primary  map[string]int
}

func newC23Agg() *c23Agg { return &c23Agg{Keys: map[string]int{}, Primary: map[string]int{}} }

// add classifies one first-per-responder reply payload with the harness's own decoder.
func (a *c23Agg) add(payload []byte) string {
	a.Replies++
	if len(payload) < 1 || payload[0] != wire.KeyResponse {
		a.Failures++
		return "undecodable"
	}
	var nr wire.NodeKeyResponse
	if err := wire.Decode(payload[1:], &nr); err != nil {
		a.Failures++
		return "undecodable"
	}
	if !nr.Result {
		a.Failures++
		return "failed"
	}
	for _, k := range nr.Keys {
		a.Keys[k]++
	}
	a.Primary[nr.PrimaryKey]++
	return "ok"
}

func c23MapStr(m map[string]int) string {
	var ks []string
	for k, v := range m {
		if k != "" && v != 0 {
			ks = append(ks, fmt.Sprintf("%s=%d", k, v))
		}
	}
	sort.Strings(ks)
	return strings.Join(ks, " ")
}

type c23Result struct {
	viol, violKey string
	inconc        string
	sigs          []string
	ops           int
	sent          int
	classes       map[string]int
	errs, noerrs  int
	trace         []string
}

// c23FindQuery looks through a puppet's received messages for a query with the given name newer than minLTime.
func c23FindQuery(ps []*cluster.Puppet, name string, minLTime uint64) *wire.MsgQuery {
	for _, p := range ps {
		for _, m := range p.Received() {
			if len(m) == 0 || m[0] != wire.Query {
				continue
			}
			var q wire.MsgQuery
			if wire.Decode(m[1:], &q) != nil {
				continue
			}
			if q.Name == name && q.LTime > minLTime {
				return &q
			}
		}
	}
	return nil
}

func c23RunAgg(t *testing.T, c c23Case, pool [][]byte, seed int64) c23Result {
	res := c23Result{classes: map[string]int{}}
	synctest.Test(t, func(t *testing.T) {
		sn := simnet.New(seed)
		// runs after every Close below: virtual time stops when the bubble's root function returns, so let
		// timer-bound goroutines of the closed instances (probe timeouts against dead peers) run out first
		defer time.Sleep(time.Minute)
		var ring *memberlist.Keyring
		mkRing := func(keys [][]byte) *memberlist.Keyring {
			kr, err := memberlist.NewKeyring(keys, keys[0])
			if err != nil {
				panic(err)
			}
			return kr
		}
		// reference view of the node's own keyring (ordered, primary first)
		var own []string
		if c.Enc {
			ring = mkRing(pool[:c.NodeKey])
			for _, k := range pool[:c.NodeKey] {
				own = append(own, string(k))
			}
		}
		nd, err := cluster.Start(sn, cluster.Opts{Name: "origin", IP: "10.0.0.1", Keyring: ring})
		if err != nil {
			res.inconc = "node start: " + err.Error()
			return
		}
		defer nd.Close()
		var ps []*cluster.Puppet
		for i := 0; i < c.P; i++ {
			var pr *memberlist.Keyring
			if c.Enc {
				pr = mkRing(pool) // same primary as the node, and every key the node may ever switch to
			}
			p, err := cluster.StartPuppet(sn, cluster.PuppetOpts{Name: fmt.Sprintf("p%d", i), IP: fmt.Sprintf("10.0.1.%d", i+1), Keyring: pr})
			if err != nil {
				res.inconc = "puppet start: " + err.Error()
				return
			}
			defer p.Close()
			ps = append(ps, p)
			if _, err := p.ML.Join([]string{nd.Addr}); err != nil {
				res.inconc = "puppet join: " + err.Error()
				return
			}
		}
		if seed%3 == 0 {
			// a member that has departed (failed, not reaped yet): it is no cluster member any more and
			// must not be counted or waited for
			gone := cluster.FakeNode("departed", "10.0.1.200", 7946, nil)
			nd.NotifyJoin(gone)
			nd.NotifyLeave(gone)
			res.classes["cases_with_a_departed_member_still_listed_as_failed"]++
		}
		time.Sleep(2 * time.Second)
		synctest.Wait()
		members := 1 + c.P
		km := nd.S.KeyManager()
		var lastLTime uint64
		for oi, op := range c.Ops {
			if n := nd.S.Memberlist().NumMembers(); n != members {
				res.inconc = fmt.Sprintf("op %d: node sees %d members, want %d", oi, n, members)
				return
			}
			if op.Kind == "remove" && op.KeyDesc == "primary" {
				if c.Enc {
					op.Key = c23B64([]byte(own[0]))
				} else {
					op.Key = c23B64(pool[0])
				}
			}
			// --- the node's own predictable reply
			ref := newC23Agg()
			ownOK := false
			if c.Enc {
				raw, _ := base64.StdEncoding.DecodeString(op.Key)
				k := string(raw)
				has := false
				for _, x := range own {
					if x == k {
						has = true
					}
				}
				switch op.Kind {
				case "list":
					ownOK = true
				case "install":
					ownOK = len(k) == 16 || len(k) == 24 || len(k) == 32
					if ownOK && !has {
						own = append(own, k)
					}
				case "use":
					ownOK = has
					if has {
						nk := []string{k}
						for _, x := range own {
							if x != k {
								nk = append(nk, x)
							}
						}
						own = nk
					}
				case "remove":
					ownOK = k != own[0]
					if ownOK && has {
						var nk []string
						for _, x := range own {
							if x != k {
								nk = append(nk, x)
							}
						}
						own = nk
					}
				}
			}
			ref.Replies++
			if !ownOK {
				ref.Failures++
			} else if op.Kind == "list" {
				for _, k := range own {
					ref.Keys[c23B64([]byte(k))]++
				}
				ref.Primary[c23B64([]byte(own[0]))]++
			}

			// --- issue the operation
			type out struct {
				kr  *serf.KeyResponse
				err error
			}
			done := make(chan out, 1)
			go func() {
				var o out
				switch op.Kind {
				case "list":
					o.kr, o.err = km.ListKeys()
				case "install":
					o.kr, o.err = km.InstallKey(op.Key)
				case "use":
					o.kr, o.err = km.UseKey(op.Key)
				case "remove":
					o.kr, o.err = km.RemoveKey(op.Key)
				}
				done <- o
			}()
			// wait until gossip has carried the query to some puppet
			var q *wire.MsgQuery
			for i := 0; i < 40 && q == nil; i++ {
				time.Sleep(25 * time.Millisecond)
				synctest.Wait()
				q = c23FindQuery(ps, "_serf_"+op.Kind+"-key"+map[bool]string{true: "s", false: ""}[op.Kind == "list"], lastLTime)
			}
			if q == nil {
				<-done
				res.inconc = fmt.Sprintf("op %d: no puppet received the %s query", oi, op.Kind)
				return
			}
			lastLTime = q.LTime
			dest := net.JoinHostPort(net.IP(q.Addr).String(), strconv.Itoa(int(q.Port)))
			finished := false
			var sig []string
			for _, pi := range op.Order {
				rp := op.Replies[pi]
				if rp.Kind == c23Silence {
					continue
				}
				time.Sleep(time.Duration(op.Gaps[pi]) * time.Millisecond)
				select {
				case o := <-done:
					done <- o
					finished = true
				default:
				}
				if finished {
					res.inconc = fmt.Sprintf("op %d: operation returned before all scripted replies were sent", oi)
					return
				}
				first := c23Encode(rp, rp.Kind)
				send := func(payload []byte) {
					buf := wire.Encode(wire.QueryResponse, &wire.MsgQueryResponse{LTime: q.LTime, ID: q.ID, From: ps[pi].Name, Payload: payload})
					if err := ps[pi].Send(dest, q.SourceNode, buf); err != nil {
						res.inconc = "puppet send: " + err.Error()
					}
					res.sent++
					synctest.Wait()
				}
				send(first)
				cl := ref.add(first)
				res.classes[cl]++
				if rp.Dup != "" && rp.Dup != c23Silence {
					d := rp
					d.Msg = "second reply"
					if len(d.Keys) > 0 {
						d.Keys = d.Keys[:len(d.Keys)-1]
					} else {
						d.Keys = []string{c23B64(pool[1])}
					}
					send(c23Encode(d, rp.Dup)) // must be ignored: only the first reply per responder counts
					res.classes["second_reply_ignored"]++
				}
			}
			for pi, rp := range op.Replies {
				s := rp.Kind
				if rp.Dup != "" {
					s += "+" + rp.Dup
				}
				_ = pi
				sig = append(sig, s)
			}
			o := <-done
			synctest.Wait()
			res.ops++
			if res.inconc != "" {
				return
			}
			if sn.Dropped.Load() != 0 {
				res.inconc = fmt.Sprintf("op %d: simnet dropped %d packets, reply delivery not guaranteed", oi, sn.Dropped.Load())
				return
			}
			kr := o.kr
			step := fmt.Sprintf("op %d %s(%s) enc=%v members=%d replies=[%s] order=%v", oi, op.Kind, op.KeyDesc, c.Enc, members, strings.Join(sig, " "), op.Order)
			res.trace = append(res.trace, fmt.Sprintf("%s -> NumNodes=%d NumResp=%d NumErr=%d err=%v keys{%s} primary{%s}", step, kr.NumNodes, kr.NumResp, kr.NumErr, o.err, c23MapStr(kr.Keys), c23MapStr(kr.PrimaryKeys)))
			if kr.NumNodes != members {
				res.viol, res.violKey = fmt.Sprintf("%s: NumNodes=%d, the cluster has %d members", step, kr.NumNodes, members), "numnodes"
				return
			}
			wantErr := ref.Failures > 0 || ref.Replies < members
			switch {
			case ref.Failures == 0 && ref.Replies < members:
				res.classes["op_error_only_because_members_silent"]++
			case ref.Failures > 0 && ref.Replies == members:
				res.classes["op_error_only_because_failures"]++
			case !wantErr:
				res.classes["op_all_members_succeeded"]++
			}
			if o.err != nil {
				res.errs++
			} else {
				res.noerrs++
			}
			fail := func(key, msg string) {
				if res.viol == "" {
					res.viol, res.violKey = step+": "+msg, key
				}
			}
			if kr.NumResp != ref.Replies {
				fail("numresp", fmt.Sprintf("NumResp=%d, but %d distinct members replied (own reply included)", kr.NumResp, ref.Replies))
			}
			if kr.NumErr != ref.Failures {
				fail("numerr", fmt.Sprintf("NumErr=%d, but %d replies were failed or undecodable", kr.NumErr, ref.Failures))
			}
			if (o.err != nil) != wantErr {
				fail("error", fmt.Sprintf("err=%v, but failures=%d replies=%d members=%d", o.err, ref.Failures, ref.Replies, members))
			}
			if op.Kind == "list" {
				if g, w := c23MapStr(kr.Keys), c23MapStr(ref.Keys); g != w {
					fail("keys", fmt.Sprintf("Keys {%s}, reference {%s}", g, w))
				}
				if g, w := c23MapStr(kr.PrimaryKeys), c23MapStr(ref.Primary); g != w {
					fail("primarykeys", fmt.Sprintf("PrimaryKeys {%s}, reference {%s}", g, w))
				}
			}
			res.sigs = append(res.sigs, fmt.Sprintf("%s/%s/%v/%v/%s", op.Kind, op.KeyDesc, c.Enc, ownOK, strings.Join(sig, ",")))
			if res.viol != "" {
				return
			}
		}
	})
	return res
}

// ---------------------------------------------------------------- part B

type c23Trunc struct {
	N     int
	Limit int
	Sizes []int
}

func c23GenTrunc(rng *rand.Rand, i int) c23Trunc {
	var c c23Trunc
	switch rng.Intn(4) {
	case 0:
		c.N = 1 + rng.Intn(5)
	case 1:
		c.N = 1 + rng.Intn(40)
	default:
		c.N = 1 + rng.Intn(200)
	}
	switch rng.Intn(5) {
	case 0:
		c.Limit = 64 + rng.Intn(300)
	case 1:
		c.Limit = []int{64, 128, 256, 512, 1024, 2048, 4096}[rng.Intn(7)]
	case 2:
		c.Limit = 150 + rng.Intn(200)
	default:
		c.Limit = 64 + rng.Intn(4096-64+1)
	}
	mode := rng.Intn(4)
	for k := 0; k < c.N; k++ {
		s := []int{16, 24, 32}[rng.Intn(3)]
		if mode < 3 {
			s = []int{16, 24, 32}[mode]
		}
		c.Sizes = append(c.Sizes, s)
	}
	return c
}

var c23TwoInts = regexp.MustCompile(`(\d+)\D+(\d+)`)

type c23TruncResult struct {
	viol, violKey string
	inconc        string
	replied       bool
	truncated     bool
	shown         int
	size          int
	sizeModelOK   bool
	oneFits       bool
}

func c23ReplySize(from string, ltime uint64, id uint32, nr *wire.NodeKeyResponse) int {
	payload := append([]byte{wire.KeyResponse}, wire.EncodeBody(nr)...)
	return len(wire.Encode(wire.QueryResponse, &wire.MsgQueryResponse{LTime: ltime, ID: id, From: from, Payload: payload}))
}

func c23RunTrunc(t *testing.T, c c23Trunc, rng *rand.Rand, seed int64) c23TruncResult {
	var res c23TruncResult
	keys := make([][]byte, c.N)
	for i := range keys {
		keys[i] = make([]byte, c.Sizes[i])
		rng.Read(keys[i])
	}
	synctest.Test(t, func(t *testing.T) {
		sn := simnet.New(seed)
		// runs after every Close below: virtual time stops when the bubble's root function returns, so let
		// timer-bound goroutines of the closed instances (probe timeouts against dead peers) run out first
		defer time.Sleep(time.Minute)
		ring, err := memberlist.NewKeyring(keys, keys[0])
		if err != nil {
			res.inconc = err.Error()
			return
		}
		nd, err := cluster.Start(sn, cluster.Opts{Name: "keeper", IP: "10.0.0.1", Keyring: ring,
			Mutate: func(sc *serf.Config) { sc.QueryResponseSizeLimit = c.Limit }})
		if err != nil {
			res.inconc = "node start: " + err.Error()
			return
		}
		defer nd.Close()
		pr, _ := memberlist.NewKeyring(nil, keys[0])
		p, err := cluster.StartPuppet(sn, cluster.PuppetOpts{Name: "asker", IP: "10.0.1.1", Keyring: pr})
		if err != nil {
			res.inconc = "puppet start: " + err.Error()
			return
		}
		defer p.Close()
		if _, err := p.ML.Join([]string{nd.Addr}); err != nil {
			res.inconc = "puppet join: " + err.Error()
			return
		}
		time.Sleep(time.Second)
		synctest.Wait()
		var nodeKeys []string
		for _, k := range nd.ML.Keyring.GetKeys() {
			nodeKeys = append(nodeKeys, c23B64(k))
		}
		ltime, id := uint64(3+rng.Intn(50)), rng.Uint32()
		q := &wire.MsgQuery{LTime: ltime, ID: id, Addr: []byte(net.ParseIP("10.0.1.1").To4()), Port: 7946, SourceNode: "asker",
			Timeout: 5 * time.Second, Name: "_serf_list-keys", Payload: wire.Encode(wire.KeyRequest, &wire.KeyReq{})}
		if err := p.Send(nd.Addr, nd.Name, wire.Encode(wire.Query, q)); err != nil {
			res.inconc = "puppet send: " + err.Error()
			return
		}
		time.Sleep(2 * time.Second)
		synctest.Wait()
		if sn.Dropped.Load() != 0 {
			res.inconc = fmt.Sprintf("simnet dropped %d packets", sn.Dropped.Load())
			return
		}
		var replies [][]byte
		for _, m := range p.Received() {
			if len(m) > 0 && m[0] == wire.QueryResponse {
				var qr wire.MsgQueryResponse
				if wire.Decode(m[1:], &qr) == nil && qr.LTime == ltime && qr.ID == id && qr.Flags&wire.FlagAck == 0 {
					replies = append(replies, m)
				}
			}
		}
		// would a reply with exactly one key fit? (harness's own encoding of that reply)
		one := &wire.NodeKeyResponse{Result: true, Keys: nodeKeys[:1], PrimaryKey: nodeKeys[0]}
		if c.N > 1 {
			one.Message = fmt.Sprintf("truncated key list response, showing first %d of %d keys", 1, c.N)
		}
		res.oneFits = c23ReplySize("keeper", ltime, id, one) <= c.Limit
		if len(replies) == 0 {
			return
		}
		res.replied = true
		m := replies[0]
		res.size = len(m)
		desc := fmt.Sprintf("keys=%d limit=%d", c.N, c.Limit)
		if len(m) > c.Limit {
			res.viol, res.violKey = fmt.Sprintf("%s: list-keys reply is %d bytes, limit %d", desc, len(m), c.Limit), "oversize"
			return
		}
		var qr wire.MsgQueryResponse
		_ = wire.Decode(m[1:], &qr)
		var nr wire.NodeKeyResponse
		if len(qr.Payload) < 1 || qr.Payload[0] != wire.KeyResponse || wire.Decode(qr.Payload[1:], &nr) != nil {
			res.viol, res.violKey = fmt.Sprintf("%s: list-keys reply does not decode: %x", desc, qr.Payload), "undecodable-reply"
			return
		}
		res.shown = len(nr.Keys)
		if len(nr.Keys) > len(nodeKeys) || strings.Join(nr.Keys, ",") != strings.Join(nodeKeys[:len(nr.Keys)], ",") {
			res.viol, res.violKey = fmt.Sprintf("%s: listed keys are not a prefix of the node's keys: listed %v, node has %v", desc, nr.Keys, nodeKeys), "not-prefix"
			return
		}
		if len(nr.Keys) < c.N {
			res.truncated = true
			mm := c23TwoInts.FindStringSubmatch(nr.Message)
			if mm == nil || mm[1] != strconv.Itoa(len(nr.Keys)) || mm[2] != strconv.Itoa(c.N) {
				res.viol, res.violKey = fmt.Sprintf("%s: reply shows %d of %d keys but says %q", desc, len(nr.Keys), c.N, nr.Message), "wrong-count-statement"
				return
			}
		}
		res.sizeModelOK = c23ReplySize(qr.From, qr.LTime, qr.ID, &nr) == len(m)
		if len(replies) > 1 {
			res.inconc = fmt.Sprintf("%s: %d replies to one query", desc, len(replies))
		}
	})
	return res
}

func TestC23(t *testing.T) {
	r := evid.Start(t, "C23", "exploration")
	nAgg := r.N(1500, 50000)
	r.Cases("agg", nAgg, 0, func(ci int, rng *rand.Rand) {
		pool := c23Pool(rng)
		c := c23Gen(rng, pool)
		res := c23RunAgg(t, c, pool, int64(ci))
		r.Eval(res.ops) // one evaluation = one key operation whose aggregation was judged
		r.Count("agg_cases", 1)
		r.Count("agg_operations_judged", res.ops)
		r.Count("agg_reply_packets_sent_by_puppets", res.sent)
		for k, v := range res.classes {
			if strings.HasPrefix(k, "op_") {
				r.Count("agg_"+k, v)
			} else {
				r.Count("agg_first_replies_"+k, v)
			}
		}
		r.Count("agg_operations_returning_error", res.errs)
		r.Count("agg_operations_returning_nil", res.noerrs)
		if res.inconc != "" {
			r.Inconclusive(fmt.Sprintf("agg case %d: %s", ci, res.inconc))
		}
		for _, s := range res.sigs {
			r.Distinct("agg:" + s)
		}
		if res.viol != "" {
			r.Violation("agg-"+res.violKey, ci, res.viol, map[string]any{"case": c, "trace": res.trace})
		}
		if ci < 3 {
			r.Sample(map[string]any{"part": "aggregation", "trace": res.trace})
		}
	})

	nTr := r.N(600, 4800)
	r.Cases("trunc", nTr, 0, func(ci int, rng *rand.Rand) {
		c := c23GenTrunc(rng, ci)
		res := c23RunTrunc(t, c, rng, int64(ci))
		r.Eval(1)
		if res.inconc != "" {
			r.Inconclusive(fmt.Sprintf("trunc case %d: %s", ci, res.inconc))
		}
		if res.replied {
			r.Count("trunc_replies_measured", 1)
			r.Max("trunc_max_reply_bytes", int64(res.size))
			if res.sizeModelOK {
				r.Count("trunc_harness_size_model_exact", 1)
			}
			if res.truncated {
				r.Count("trunc_replies_truncated", 1)
				r.Distinct(fmt.Sprintf("trunc:%d/%d", c.N, c.Limit))
				if res.size == c.Limit {
					r.Count("trunc_replies_exactly_at_limit", 1)
				}
				if res.shown == 1 {
					r.Count("trunc_replies_showing_one_key", 1)
				}
			} else {
				r.Count("trunc_replies_complete", 1)
			}
		} else if res.inconc == "" {
			if res.oneFits {
				// the reply whose size the statement bounds never arrived although a one-key reply would fit
				// (the listing operation then counts this node as missing instead of showing a prefix of its keys)
				r.Count("trunc_no_reply_although_one_key_fits", 1)
				r.Violation("trunc-no-reply-although-one-key-fits", ci, fmt.Sprintf("keys=%d limit=%d: the node sent no list-keys reply at all although a reply with one key fits the limit: instead of a prefix of its keys and a 'showing first n of %d' note the asker gets nothing", c.N, c.Limit, c.N), map[string]any{"keys": c.N, "limit": c.Limit, "key_sizes": c.Sizes})
			} else {
				r.Count("trunc_no_reply_limit_below_one_key", 1)
			}
		}
		if res.viol != "" {
			r.Violation("trunc-"+res.violKey, ci, res.viol, map[string]any{"keys": c.N, "limit": c.Limit, "key_sizes": c.Sizes})
		}
		if ci < 3 {
			r.Sample(map[string]any{"part": "truncation", "keys": c.N, "limit": c.Limit, "replied": res.replied, "shown": res.shown, "bytes": res.size})
		}
	})
	r.Finish("part A: real origin node (with keyring 3/4 of the time) + 1-5 puppet members; 1-3 key operations (list/install/use/remove) per cluster; each puppet answers per script (ok, failed, wrong type byte, truncated msgpack, empty payload, silence; optional second differing reply) in random order with virtual-time gaps; KeyResponse and error compared with a reference aggregation of the first reply per responder plus the node's own predictable reply; distinct by (operation, key class, encryption, own result, reply kinds per puppet). part B: node with 1-200 keys (16/24/32 bytes) and QueryResponseSizeLimit 64-4096 answering a puppet's _serf_list-keys query, reply measured at the puppet; non-trivial = truncated reply, distinct by (keys, limit)",
		r.N(900, 10000),
		"only the first reply per responder name counts (the query layer de-duplicates by the From field)",
		"Keys/PrimaryKeys are compared for non-empty keys only and for list operations only; scripted failed replies carry no keys",
		"puppets answer with their own member name; no packets are dropped by the simulated network (checked per case)")
}
