package props

import (
	"fmt"
	"math/rand"
	"net"
	"os"
	"path/filepath"
	"sort"
	"strings"
	"sync"
	"testing"
	"testing/synctest"
	"time"

	"github.com/hashicorp/serf/serf"

	"verif/harness/cluster"
	"verif/harness/evid"
	"verif/harness/simnet"
)

// C10: restart from a snapshot restores the rejoin set and the clocks exactly,
// whether the snapshot was compacted zero or many times in between.
//
// Layer 1 ("direct"): the real serf.Snapshotter is driven through its public
// channel API in a synctest bubble (real files), every history is run with four
// compaction thresholds; each recovered state (at every intermediate restart
// and at the end) is compared with the reference model of c10_snapmodel_test.go
// and the four final states with each other (differential oracle).
// Layer 2 ("e2e"): real Serf nodes with SnapshotPath on simnet; crash of the
// node under test, reopen of its snapshot, restart, and the rejoin attempts seen
// by the network are compared with the last Members() view.

// c10Key is the failing-input class: the line format of the snapshot is not
// escaped, so histories containing a member name with '\n' form their own class.
func c10Key(ops []c10Op, what string) string {
	if c10HasNewline(ops) {
		return "name-contains-newline"
	}
	return what
}

func TestC10(t *testing.T) {
	r := evid.Start(t, "C10", "exploration")
	base := t.TempDir()
	var classMu sync.Mutex
	classSeen := map[string]int{}
	classFailed := map[string]int{}

	n := r.N(600, 5000)
	r.Cases("direct", n, 0, func(ci int, rng *rand.Rand) {
		maxOps := 400
		if rng.Intn(3) == 0 {
			maxOps = 60 // short histories too
		}
		ops, classes := c10GenHistory(rng, c10GenOpts{MinOps: 20, MaxOps: maxOps, Newline: ci%8 == 5, Restarts: true})
		hs := c10HistoryString(ops)
		type res struct {
			got   c10State
			mism  []c10Mismatch
			stats c10RunStats
			err   error
			want  c10State
		}
		results := make([]res, len(c10Thresholds))
		for ti, th := range c10Thresholds {
			dir, err := os.MkdirTemp(base, "d")
			if err != nil {
				r.Inconclusive("mkdir: " + err.Error())
				return
			}
			synctest.Test(t, func(t *testing.T) {
				got, model, mism, stats, err := c10Drive(filepath.Join(dir, "snap"), ops, th, false, true)
				results[ti] = res{got: got, mism: mism, stats: stats, err: err}
				if model != nil {
					results[ti].want = model.st.clone()
				}
			})
			os.RemoveAll(dir)
		}
		r.Eval(len(c10Thresholds))
		failed := false
		compactions := 0
		var perTh []int
		for ti, rs := range results {
			if rs.err != nil {
				r.Inconclusive(fmt.Sprintf("case %d threshold %d: driver error %v", ci, c10Thresholds[ti], rs.err))
				return
			}
			r.Count("reopen_comparisons", rs.stats.Reopens)
			r.Count("compactions_seen", rs.stats.Compactions)
			r.Count("sessions", rs.stats.Sessions)
			r.Count("events_forwarded", rs.stats.Forwarded)
			r.Max("max_snapshot_bytes", rs.stats.MaxSize)
			compactions += rs.stats.Compactions
			perTh = append(perTh, rs.stats.Compactions)
			if ti == 0 {
				for k, v := range rs.stats.Sent {
					r.Count("sent_"+k, v)
				}
			}
			for _, m := range rs.mism {
				failed = true
				c10Viol(r, c10Key(ops, "state-mismatch"), ci,
					fmt.Sprintf("minCompactSize=%d: reopen after op %d of %d recovered %s ; reference %s ; name classes %v ; history: %s",
						c10Thresholds[ti], m.At, len(ops), m.Got, m.Want, classes, c10Trunc(hs, 3000)),
					map[string]any{"threshold": c10Thresholds[ti], "ops": c10WitnessOps(ops)})
				break
			}
		}
		// differential oracle: identical recovered state for every threshold
		for ti := 1; ti < len(results); ti++ {
			r.Count("differential_comparisons", 1)
			if !results[ti].got.equal(results[0].got) {
				failed = true
				c10Viol(r, c10Key(ops, "threshold-differential"), ci,
					fmt.Sprintf("same history, minCompactSize=%d recovered %s but minCompactSize=%d recovered %s (compactions seen %v) ; history: %s",
						c10Thresholds[0], results[0].got, c10Thresholds[ti], results[ti].got, perTh, c10Trunc(hs, 3000)),
					map[string]any{"ops": c10WitnessOps(ops)})
				break
			}
		}
		if perTh[0] > 0 && perTh[len(perTh)-1] == 0 {
			r.Count("histories_compacted_and_uncompacted", 1)
		}
		classMu.Lock()
		for _, c := range classes {
			classSeen[c]++
			if failed {
				classFailed[c]++
			}
		}
		classMu.Unlock()
		want := results[0].want
		if len(want.Alive) > 0 && (want.Clock > 0 || want.EventClock > 0 || want.QueryClock > 0) && compactions > 0 {
			r.Distinct("direct|" + hs)
		}
		if ci == 1 || ci == 5 {
			r.Sample(map[string]any{"mode": "direct", "ops": len(ops), "name_classes": classes, "compactions_per_threshold": perTh,
				"recovered": results[0].got.String(), "history_head": c10Trunc(hs, 400)})
		}
	})
	classMu.Lock()
	for c, k := range classSeen {
		r.Count("histories_with_class_"+c, k)
	}
	for c, k := range classFailed {
		r.Count("failed_histories_with_class_"+c, k)
	}
	classMu.Unlock()

	c10E2E(t, r, base)

	r.Finish("direct: random histories (20-400 steps over 1-12 member names of hostile classes, IPv4/IPv6/odd addresses, huge LTimes, "+
		"virtual-time gaps, mid-history restarts) run against the real Snapshotter with minCompactSize 1/64/1024/131072; non-trivial = "+
		"non-empty final rejoin set, a non-zero clock and at least one compaction observed (inode change). e2e: real nodes on simnet, "+
		"non-trivial = at least one peer alive and one peer gone at the crash.",
		r.N(300, 2500),
		"the snapshot keeps up: at most 1500 events between quiescence points (tee buffers hold 2048), synctest.Wait() before every shutdown",
		"member clock never reaches 2^64-1 (C19 finding); the clock is >= 1 when the snapshotter runs, as Serf.Create guarantees",
		"every session ends with a clean snapshotter shutdown (crash points are C11)")
}

// c10Viol reports a violation and counts it per failing-input class in the evidence.
func c10Viol(r *evid.Run, key string, ci int, msg string, witness any) {
	r.Count("violations_of_class_"+key, 1)
	r.Violation(key, ci, msg, witness)
}

// ---------------------------------------------------------------- end to end

type c10Peer struct {
	name, ip string
	fate     string // "stay" | "leave" | "crash"
	nd       *cluster.Node
}

// c10PeerName picks peer names for the real-node layer; memberlist and serf put no
// restriction on names (ValidateNodeNames is off by default).
func c10PeerName(rng *rand.Rand, i int, allowNewline bool) string {
	classes := []string{"plain", "plain", "space-inside", "trailing-space", "leading-space", "unicode", "lookalike", "slash", "cr", "control"}
	if allowNewline {
		classes = []string{"newline"}
	}
	for {
		n := c10GenName(rng, classes[rng.Intn(len(classes))], i)
		if n != "" && len(n) < 120 {
			return n
		}
	}
}

// c10E2EKey computes the failing-input class of an e2e violation from the input:
//   - any peer name containing '\n' (unescaped snapshot line format);
//   - for the rejoin check only: every address the node failed to dial belongs to a
//     member whose name contains "/" and nothing unexpected was dialled (serf hands
//     "name/addr" to memberlist, whose address syntax splits at the first "/").
func c10E2EKey(peers []*c10Peer, what string, missing []string, extra int, alive map[string]string) string {
	for _, p := range peers {
		if strings.Contains(p.name, "\n") {
			return "name-contains-newline"
		}
	}
	if what == "rejoin-attempts" && extra == 0 && len(missing) > 0 {
		all := true
		for _, addr := range missing {
			ok := false
			for name, a := range alive {
				if a == addr && strings.Contains(name, "/") {
					ok = true
				}
			}
			all = all && ok
		}
		if all {
			return "rejoin-name-contains-slash"
		}
	}
	return "e2e-" + what
}

func c10E2E(t *testing.T, r *evid.Run, base string) {
	// A member name containing "/" makes memberlist's address parser hand a bogus host
	// to the Go resolver.  The resolver's global state must be initialised outside any
	// bubble (its semaphore channel would otherwise belong to the first bubble), and
	// concurrent cases must not share a lookup key (singleflight): names carry the case number.
	_, _ = net.LookupIP("verif-c10-prewarm/invalid")
	n := r.N(48, 400)
	r.Cases("e2e", n, 0, func(ci int, rng *rand.Rand) {
		dir, err := os.MkdirTemp(base, "e")
		if err != nil {
			r.Inconclusive("mkdir: " + err.Error())
			return
		}
		defer os.RemoveAll(dir)
		snapPath := filepath.Join(dir, "a.snap")
		k := 1 + rng.Intn(4)
		subnet := fmt.Sprintf("10.%d.%d", 1+ci/250, ci%250)
		aIP := subnet + ".1"
		peers := make([]*c10Peer, k)
		used := map[string]bool{"A": true}
		for i := range peers {
			name := c10PeerName(rng, ci*10+i, ci%10 == 7 && i == 0)
			for used[name] {
				name += "x"
			}
			used[name] = true
			// addresses are unique per case as well (a name ending in "/" makes the bare
			// address part of the resolver's lookup key)
			ip := fmt.Sprintf("%s.%d", subnet, i+2)
			if rng.Intn(4) == 0 {
				ip = fmt.Sprintf("fd00::%x:%x", ci+1, i+2)
			}
			peers[i] = &c10Peer{name: name, ip: ip, fate: []string{"stay", "stay", "leave", "crash"}[rng.Intn(4)]}
		}
		nUser, nQuery := rng.Intn(4), rng.Intn(4)
		type obs struct {
			err                         string
			members                     map[string]string // alive members of A (incl. itself) at the crash
			memberTime                  uint64
			maxUser, maxQuery           uint64
			snap                        c10State
			attempts                    map[string]int
			packets                     int
			clockAfter, evAfter, qAfter uint64
			gone                        int
		}
		var o obs
		synctest.Test(t, c10Settled(func() {
			sn := simnet.New(int64(ci) + 1)
			a, err := cluster.Start(sn, cluster.Opts{Name: "A", IP: aIP, Snap: snapPath})
			if err != nil {
				o.err = "start A: " + err.Error()
				return
			}
			defer a.Close()
			for _, p := range peers {
				nd, err := cluster.Start(sn, cluster.Opts{Name: p.name, IP: p.ip})
				if err != nil {
					o.err = "start peer: " + err.Error()
					return
				}
				p.nd = nd
				defer nd.Close()
				if _, err := nd.S.Join([]string{a.Addr}, false); err != nil {
					o.err = "join: " + err.Error()
					return
				}
			}
			time.Sleep(5 * time.Second)
			// traffic that moves the three clocks
			for i := 0; i < nUser; i++ {
				_ = peers[rng.Intn(k)].nd.S.UserEvent(fmt.Sprint("ev", i), []byte("x"), false)
				time.Sleep(300 * time.Millisecond)
			}
			for i := 0; i < nQuery; i++ {
				if qr, err := peers[rng.Intn(k)].nd.S.Query(fmt.Sprint("q", i), nil, nil); err == nil {
					go func() {
						for range qr.ResponseCh() {
						}
					}()
				}
				time.Sleep(300 * time.Millisecond)
			}
			for _, p := range peers {
				switch p.fate {
				case "leave":
					_ = p.nd.S.Leave()
					p.nd.Close()
					o.gone++
				case "crash":
					p.nd.Close()
					o.gone++
				}
			}
			time.Sleep(45 * time.Second) // failure detection and gossip settle
			synctest.Wait()
			o.members = map[string]string{}
			for _, m := range a.S.Members() {
				if m.Status == serf.StatusAlive {
					o.members[m.Name] = (&c10Mem{IP: m.Addr, Port: m.Port}).addr()
				}
			}
			fmt.Sscan(a.S.Stats()["member_time"], &o.memberTime)
			for _, le := range a.Events() {
				switch e := le.E.(type) {
				case serf.UserEvent:
					if uint64(e.LTime) > o.maxUser {
						o.maxUser = uint64(e.LTime)
					}
				case *serf.Query:
					if uint64(e.LTime) > o.maxQuery {
						o.maxQuery = uint64(e.LTime)
					}
				}
			}
			// crash A, then everybody else (so that every rejoin attempt is refused and
			// the restarted node has to walk its whole rejoin list)
			a.Close()
			for _, p := range peers {
				p.nd.Close()
			}
			synctest.Wait()
			st, err := c10ReadSnapshot(snapPath, false)
			if err != nil {
				o.err = "reopen: " + err.Error()
				return
			}
			o.snap = st
			var mu sync.Mutex
			o.attempts = map[string]int{}
			sn.OnStream = func(from, to, verdict string) {
				mu.Lock()
				o.attempts[to]++
				mu.Unlock()
			}
			sn.OnPacket = func(p simnet.PacketInfo) {
				mu.Lock()
				o.packets++
				mu.Unlock()
			}
			a2, err := cluster.Start(sn, cluster.Opts{Name: "A", IP: aIP, Snap: snapPath, Profile: "passive",
				Mutate: func(c *serf.Config) { c.MemberlistConfig.DNSConfigPath = filepath.Join(dir, "no-resolv.conf") }})
			if err != nil {
				o.err = "restart A: " + err.Error()
				return
			}
			defer a2.Close()
			time.Sleep(90 * time.Second)
			synctest.Wait()
			stats := a2.S.Stats()
			fmt.Sscan(stats["member_time"], &o.clockAfter)
			fmt.Sscan(stats["event_time"], &o.evAfter)
			fmt.Sscan(stats["query_time"], &o.qAfter)
			mu.Lock()
			defer mu.Unlock()
			sn.OnStream, sn.OnPacket = nil, nil
		}))
		r.Eval(1)
		if o.err != "" {
			r.Inconclusive(fmt.Sprintf("e2e case %d: %s", ci, o.err))
			return
		}
		var names []string
		for _, p := range peers {
			names = append(names, fmt.Sprintf("%q@%s:%s", p.name, p.ip, p.fate))
		}
		desc := fmt.Sprintf("peers %v, A saw alive %v at the crash", names, o.members)
		// (1) snapshot content == last Members() view and clocks
		want := c10State{Alive: o.members, Clock: o.memberTime - 1, EventClock: o.maxUser, QueryClock: o.maxQuery}
		r.Count("e2e_reopen_comparisons", 1)
		if !o.snap.equal(want) {
			c10Viol(r, c10E2EKey(peers, "snapshot-vs-members", nil, 0, nil), ci,
				fmt.Sprintf("snapshot of crashed node recovered %s ; node's last view %s ; %s", o.snap, want, desc), names)
		}
		// (2) rejoin attempts == alive members except itself, at their addresses
		wantAtt := map[string]bool{}
		for name, addr := range o.members {
			if name != "A" {
				wantAtt[addr] = true
			}
		}
		var gotAtt []string
		for a := range o.attempts {
			gotAtt = append(gotAtt, a)
		}
		sort.Strings(gotAtt)
		r.Count("e2e_rejoin_dials_seen", len(gotAtt))
		extra := 0
		for _, a := range gotAtt {
			if !wantAtt[a] {
				extra++
			}
		}
		var missing []string
		for a := range wantAtt {
			if o.attempts[a] == 0 {
				missing = append(missing, a)
			}
		}
		if extra > 0 || len(missing) > 0 {
			c10Viol(r, c10E2EKey(peers, "rejoin-attempts", missing, extra, o.members), ci,
				fmt.Sprintf("restarted node dialled %v, expected exactly the last alive members %v ; %s", gotAtt, wantAtt, desc), names)
		}
		// (3) clocks restored into the running node (Create: clock = recorded + 1; nothing else ran)
		if o.clockAfter != want.Clock+1 || o.evAfter != want.EventClock+1 || o.qAfter != want.QueryClock+1 {
			c10Viol(r, c10E2EKey(peers, "clocks-restored", nil, 0, nil), ci,
				fmt.Sprintf("restarted node runs with member/event/query time %d/%d/%d, recorded %d/%d/%d (+1 expected) ; %s",
					o.clockAfter, o.evAfter, o.qAfter, want.Clock, want.EventClock, want.QueryClock, desc), names)
		}
		if len(wantAtt) > 0 && o.gone > 0 {
			r.Distinct("e2e|" + strings.Join(names, ","))
		}
		if ci == 2 {
			r.Sample(map[string]any{"mode": "e2e", "peers": names, "alive_at_crash": o.members, "snapshot": o.snap.String(), "dialled": gotAtt})
		}
	})
}
