//go:build snapfs

package props

// C12: a single transient failure of any snapshot file operation never crashes
// the node, events keep flowing, and once the fault has cleared later membership
// and clock changes are recorded again.
//
// For every history the real Snapshotter (current snapshot.go through the
// generated overlay of tools/fsshim) is first run without faults to count its
// file operations; then the history is re-run once per operation index k with
// exactly that operation failing once (EIO; ENOSPC with a short write; EMFILE /
// EACCES on opens ...). Every run happens in a child process that logs k before
// starting it, so a panic of the snapshotter goroutine (which no recover() can
// see) is attributed to its fault point. Oracle per run:
//   - the process survives to a clean shutdown (no panic, no fatal error);
//   - every event handed to the snapshotter comes out of the pass-through channel, in order;
//   - a node whose open failed can be started again;
//   - after the final clean shutdown a reopen reflects every membership / clock change made
//     by steps that began at least 31 virtual seconds (the documented recovery interval is
//     30 s) after the fault: each history ends with a tail of such changes.

import (
	"bufio"
	"context"
	"encoding/json"
	"fmt"
	"math/rand"
	"os"
	"os/exec"
	"path/filepath"
	"regexp"
	"sort"
	"strconv"
	"strings"
	"sync"
	"syscall"
	"testing"
	"testing/synctest"
	"time"

	"github.com/hashicorp/serf/serf"

	"verif/harness/evid"
)

type c12Case struct {
	Ops    []c10Op
	Th     int
	Rejoin bool
}

func c12Gen(rng *rand.Rand) c12Case {
	maxOps := 45
	if rng.Intn(3) == 0 {
		maxOps = 15
	}
	ops, _ := c10GenHistory(rng, c10GenOpts{MinOps: 6, MaxOps: maxOps, Restarts: true})
	for i := range ops {
		if ops[i].Kind == "wait" && rng.Intn(2) == 0 {
			ops[i] = c10Op{Kind: "sleep", Gap: []time.Duration{300 * time.Millisecond, 600 * time.Millisecond, 2 * time.Second}[rng.Intn(3)]}
		}
	}
	// highest clocks used so far, so that the tail's changes are real changes
	var ev, q, clk uint64
	for _, o := range ops {
		switch o.Kind {
		case "user":
			if o.LTime > ev {
				ev = o.LTime
			}
		case "query":
			if o.LTime > q {
				q = o.LTime
			}
		case "clock":
			if o.LTime > clk {
				clk = o.LTime
			}
		}
	}
	bump := func(v uint64, d uint64) uint64 {
		if v < ^uint64(0)-100 {
			return v + d
		}
		return v
	}
	mem := func(n string, last byte) []c10Mem { return []c10Mem{{Name: n, IP: []byte{10, 8, 8, last}, Port: 7946}} }
	tail := []c10Op{
		{Kind: "sleep", Gap: 31 * time.Second},
		{Kind: "join", Members: mem("zz-tail-1", 1)},
		{Kind: "clock", LTime: bump(clk, 3)},
		{Kind: "user", LTime: bump(ev, 1)},
		{Kind: "query", LTime: bump(q, 1)},
		{Kind: "sleep", Gap: 31 * time.Second},
		{Kind: "join", Members: mem("zz-tail-2", 2)},
		{Kind: "failed", Members: mem("zz-tail-1", 1)},
		{Kind: "clock", LTime: bump(clk, 6)},
		{Kind: "user", LTime: bump(ev, 2)},
		{Kind: "sleep", Gap: 31 * time.Second},
		{Kind: "join", Members: mem("zz-tail-3", 3)},
		{Kind: "query", LTime: bump(q, 2)},
		{Kind: "sleep", Gap: time.Second},
	}
	ops = append(ops, tail...)
	if rng.Intn(5) == 0 {
		ops = append(ops, c10Op{Kind: "LEAVE"}, c10Op{Kind: "sleep", Gap: time.Second})
	}
	th := []int{1, 1, 64, 300, 1024, 128 * 1024}[rng.Intn(6)]
	return c12Case{Ops: ops, Th: th, Rejoin: rng.Intn(4) == 0}
}

// c12Fault picks the error for fault point k of a case (deterministic).
func c12Fault(seed int64, ci, k int) (error, bool) {
	rng := rand.New(rand.NewSource(seed*1000003 + int64(ci)*7919 + int64(k)))
	errs := []error{syscall.EIO, syscall.EIO, syscall.ENOSPC, syscall.EMFILE, syscall.EACCES, syscall.EINTR, syscall.EROFS}
	return errs[rng.Intn(len(errs))], rng.Intn(3) == 0
}

func c12FaultClass(o *sfOpRec) string {
	if o == nil {
		return "none"
	}
	s := o.Kind + "(" + sfFileClass(o.File)
	if o.Kind == "open" {
		if o.Flag&os.O_TRUNC != 0 {
			s += " TRUNC"
		} else {
			s += " APPEND"
		}
	}
	return s + ")"
}

type c12Result struct {
	K            int
	Fault        string // op record of the failed operation
	Class        string
	Step         int
	StepKind     string
	Viol         []c12Viol `json:",omitempty"`
	Demanded     int       // number of later changes whose presence was demanded
	DemandedSoon int       // number of changes demanded at the first restart after the fault
	FullEq       bool      // the reopened state equals the model's final state altogether
	NoFault      bool      // index beyond the last operation
}

type c12Viol struct{ Key, Msg string }

var c12Debug bool

// c12RunOne runs the history with fault point k inside a bubble. k < 0 = no fault (dry run).
func c12RunOne(t *testing.T, base string, cs c12Case, seed int64, ci, k int) (res c12Result, nOps int) {
	res.K = k
	dir, err := os.MkdirTemp(base, "f")
	if err != nil {
		res.Viol = append(res.Viol, c12Viol{"harness", "mkdir: " + err.Error()})
		return
	}
	defer os.RemoveAll(dir)
	path := filepath.Join(dir, "snap")
	hook := newSFHook(dir)
	if k >= 0 {
		hook.failAt = k
		hook.failErr, hook.partial = c12Fault(seed, ci, k)
	}
	var run sfRun
	var got c10State
	var reopenErr error
	synctest.Test(t, func(t *testing.T) {
		serf.VerifFSSetHook(dir, hook)
		run = sfDrive(path, cs.Ops, cs.Th, cs.Rejoin, hook)
		serf.VerifFSSetHook(dir, nil)
		if run.Err == nil {
			got, reopenErr = c10ReadSnapshot(path, cs.Rejoin)
		}
		time.Sleep(time.Second)
		synctest.Wait()
	})
	nOps = hook.nCrashOp
	if c12Debug {
		for _, o := range hook.ops {
			fmt.Printf("op %s step=%d\n", o.String(), o.Step)
		}
		for st, rec := range run.RestartRecovered {
			fmt.Printf("restart at step %d recovered %s expected %s\n", st, rec, run.RestartExpected[st])
		}
	}
	if k < 0 {
		return
	}
	if hook.injected == nil {
		res.NoFault = true
		return
	}
	res.Fault = hook.injected.String()
	res.Class = c12FaultClass(hook.injected)
	res.Step = hook.injected.Step
	if res.Step < len(run.Steps) {
		res.StepKind = run.Steps[res.Step].Kind
	} else if res.Step <= len(cs.Ops) && res.Step >= 1 {
		res.StepKind = cs.Ops[res.Step-1].Kind
	}
	add := func(key, msg string) { res.Viol = append(res.Viol, c12Viol{key + "/fault-" + res.Class, msg}) }
	if run.Err != nil {
		add("cannot-restart", fmt.Sprintf("after %s the node could not be started again (second attempt, fault already cleared): %v", res.Fault, run.Err))
		return
	}
	if reopenErr != nil {
		add("cannot-reopen", fmt.Sprintf("after %s and a clean shutdown the snapshot cannot be reopened: %v", res.Fault, reopenErr))
		return
	}
	// events keep flowing
	if strings.Join(run.Sent, "|") != strings.Join(run.Forwarded, "|") {
		add("events-not-delivered", fmt.Sprintf("after %s the pass-through channel carried %d events, %d were sent (first difference at %d)",
			res.Fault, len(run.Forwarded), len(run.Sent), c12FirstDiff(run.Sent, run.Forwarded)))
	}
	// later changes are recorded again
	final := run.Steps[len(run.Steps)-1].Post
	left := false
	for _, s := range run.Steps {
		if s.Kind == "LEAVE" {
			left = true
		}
	}
	// (1) what the statement says: once the fault has cleared, LATER changes are recorded.
	// Checked at the first restart after the fault: every member / clock whose last change
	// before that restart was made by a step after the step of the fault must be there.
	if !left {
		first := -1
		for st := range run.RestartRecovered {
			if st > res.Step && (first < 0 || st < first) {
				first = st
			}
		}
		if first > 0 {
			rec, exp := run.RestartRecovered[first], run.RestartExpected[first]
			var miss []string
			lastA := map[string]int{}
			lc, le, lq := -1, -1, -1
			for i := 0; i < first && i < len(run.Steps); i++ {
				s := run.Steps[i]
				names := map[string]bool{}
				for n := range s.Pre.Alive {
					names[n] = true
				}
				for n := range s.Post.Alive {
					names[n] = true
				}
				for n := range names {
					a, aok := s.Pre.Alive[n]
					b, bok := s.Post.Alive[n]
					if aok != bok || a != b {
						lastA[n] = i
					}
				}
				if s.Pre.Clock != s.Post.Clock {
					lc = i
				}
				if s.Pre.EventClock != s.Post.EventClock {
					le = i
				}
				if s.Pre.QueryClock != s.Post.QueryClock {
					lq = i
				}
			}
			for n, i := range lastA {
				if i <= res.Step {
					continue
				}
				res.DemandedSoon++
				want, wok := exp.Alive[n]
				g, gok := rec.Alive[n]
				if wok != gok || want != g {
					miss = append(miss, fmt.Sprintf("member %q changed by step %d (%s): restart recovered %q/%v, should be %q/%v", c10Trunc(n, 60), i, run.Steps[i].Kind, g, gok, want, wok))
				}
			}
			ck := func(name string, last int, g, want uint64) {
				if last > res.Step {
					res.DemandedSoon++
					if g != want {
						miss = append(miss, fmt.Sprintf("%s changed by step %d (%s): restart recovered %d, should be %d", name, last, run.Steps[last].Kind, g, want))
					}
				}
			}
			ck("member clock", lc, rec.Clock, exp.Clock)
			ck("event clock", le, rec.EventClock, exp.EventClock)
			ck("query clock", lq, rec.QueryClock, exp.QueryClock)
			sort.Strings(miss)
			if len(miss) > 0 {
				add("change-after-fault-not-recorded", fmt.Sprintf("%s during step %d (%s); the node restarted at step %d and changes made by steps after the fault are missing: %s",
					res.Fault, res.Step, res.StepKind, first, strings.Join(miss, " ; ")))
			}
		}
	}
	// (2) whatever happened in between, changes made 31 s or more after the fault (the documented
	// recovery interval is 30 s) must be there after the final clean shutdown
	from := -1
	for i := res.Step + 1; i < len(run.Steps); i++ {
		if run.Steps[i].At.Sub(hook.injectedAt) >= 31*time.Second {
			from = i
			break
		}
	}
	if from >= 0 && !left {
		lastAlive := map[string]int{}
		lastClock, lastEv, lastQ := -1, -1, -1
		for i, s := range run.Steps {
			names := map[string]bool{}
			for n := range s.Pre.Alive {
				names[n] = true
			}
			for n := range s.Post.Alive {
				names[n] = true
			}
			for n := range names {
				a, aok := s.Pre.Alive[n]
				b, bok := s.Post.Alive[n]
				if aok != bok || a != b {
					lastAlive[n] = i
				}
			}
			if s.Pre.Clock != s.Post.Clock {
				lastClock = i
			}
			if s.Pre.EventClock != s.Post.EventClock {
				lastEv = i
			}
			if s.Pre.QueryClock != s.Post.QueryClock {
				lastQ = i
			}
		}
		var miss []string
		for n, i := range lastAlive {
			if i < from {
				continue
			}
			res.Demanded++
			want, wok := final.Alive[n]
			g, gok := got.Alive[n]
			if wok != gok || want != g {
				miss = append(miss, fmt.Sprintf("member %q changed by step %d (%s): snapshot has %q/%v, should have %q/%v", c10Trunc(n, 60), i, run.Steps[i].Kind, g, gok, want, wok))
			}
		}
		chk := func(name string, last int, g, want uint64) {
			if last >= from {
				res.Demanded++
				if g != want {
					miss = append(miss, fmt.Sprintf("%s changed by step %d (%s): snapshot has %d, should have %d", name, last, run.Steps[last].Kind, g, want))
				}
			}
		}
		chk("member clock", lastClock, got.Clock, final.Clock)
		chk("event clock", lastEv, got.EventClock, final.EventClock)
		chk("query clock", lastQ, got.QueryClock, final.QueryClock)
		sort.Strings(miss)
		if len(miss) > 0 {
			add("later-change-not-recorded", fmt.Sprintf("%s during step %d (%s); changes made 31 s or more after it (from step %d on) are missing after a clean shutdown and reopen: %s",
				res.Fault, res.Step, res.StepKind, from, strings.Join(miss, " ; ")))
		}
		res.FullEq = got.equal(final)
	}
	return
}

func c12FirstDiff(a, b []string) int {
	for i := 0; i < len(a) && i < len(b); i++ {
		if a[i] != b[i] {
			return i
		}
	}
	if len(a) < len(b) {
		return len(a)
	}
	return len(b)
}

// c12Child runs fault points start.. of one case and appends one line per point to <dir>/points.log.
func c12Child(t *testing.T, spec string) {
	f := strings.Split(spec, "|")
	dir := f[0]
	seed, _ := strconv.ParseInt(f[1], 10, 64)
	ci, _ := strconv.Atoi(f[2])
	start, _ := strconv.Atoi(f[3])
	r := evid.Start(t, "C12", "fault_enumeration")
	cs := c12Gen(r.CaseRand("history", ci))
	logf, err := os.OpenFile(filepath.Join(dir, "points.log"), os.O_CREATE|os.O_WRONLY|os.O_APPEND, 0o644)
	if err != nil {
		t.Fatal(err)
	}
	defer logf.Close()
	_, n := c12RunOne(t, dir, cs, seed, ci, -1)
	fmt.Fprintf(logf, "N %d\n", n)
	for k := start; k < n; k++ {
		fmt.Fprintf(logf, "K %d\n", k) // before the run: a crash is attributed to this point
		res, _ := c12RunOne(t, dir, cs, seed, ci, k)
		b, _ := json.Marshal(res)
		fmt.Fprintf(logf, "R %s\n", b)
	}
	fmt.Fprintf(logf, "DONE\n")
}

var c12PanicFrame = regexp.MustCompile(`(?m)^(github\.com/hashicorp/serf/[^\s(]+(?:\([^)]*\))?[^\s(]*)\(`)

func TestC12(t *testing.T) {
	if spec := os.Getenv("VERIF_C12_CHILD"); spec != "" {
		c12Child(t, spec)
		return
	}
	r := evid.Start(t, "C12", "fault_enumeration")
	if one := os.Getenv("VERIF_C12_ONE"); one != "" {
		// debugging aid: VERIF_C12_ONE=<case>:<fault point> runs that single run in this process and prints its file operations
		var ci, k int
		fmt.Sscanf(one, "%d:%d", &ci, &k)
		cs := c12Gen(r.CaseRand("history", ci))
		c12Debug = true
		res, _ := c12RunOne(t, t.TempDir(), cs, r.Seed, ci, k)
		b, _ := json.MarshalIndent(res, "", " ")
		fmt.Printf("history: %s\nresult: %s\n", c10HistoryString(cs.Ops), b)
		t.Errorf("debug run (output above is shown because the test is marked failed)")
		return
	}
	base, err := os.MkdirTemp("/verif/.run", "c12-")
	if err != nil {
		base = t.TempDir()
	}
	defer os.RemoveAll(base)
	n := r.N(48, 1500)
	var mu sync.Mutex
	classes := map[string]int{}
	r.Cases("history", n, 16, func(ci int, rng *rand.Rand) {
		cs := c12Gen(rng)
		hs := c10HistoryString(cs.Ops)
		dir := filepath.Join(base, fmt.Sprint("h", ci))
		_ = os.MkdirAll(dir, 0o755)
		start, total := 0, -1
		points := 0
		for respawn := 0; respawn < 40; respawn++ {
			_ = os.Remove(filepath.Join(dir, "points.log"))
			ctx, cancel := context.WithTimeout(context.Background(), 20*time.Minute) // watchdog only: firing => inconclusive
			cmd := exec.CommandContext(ctx, os.Args[0], "-test.run", "^TestC12$", "-test.count=1", "-test.timeout", "30m")
			cmd.Env = append(os.Environ(), fmt.Sprintf("VERIF_C12_CHILD=%s|%d|%d|%d", dir, r.Seed, ci, start), "VERIF_RESULT=", "GORACE=", "VERIF_CASE=")
			errf, _ := os.Create(filepath.Join(dir, "stderr"))
			cmd.Stdout, cmd.Stderr = errf, errf
			runErr := cmd.Run()
			cancel()
			errf.Close()
			lf, _ := os.Open(filepath.Join(dir, "points.log"))
			lastK, done := -1, false
			if lf != nil {
				sc := bufio.NewScanner(lf)
				sc.Buffer(make([]byte, 1<<20), 1<<26)
				for sc.Scan() {
					l := sc.Text()
					switch {
					case strings.HasPrefix(l, "N "):
						total, _ = strconv.Atoi(l[2:])
					case strings.HasPrefix(l, "K "):
						lastK, _ = strconv.Atoi(l[2:])
					case l == "DONE":
						done = true
					case strings.HasPrefix(l, "R "):
						var res c12Result
						if json.Unmarshal([]byte(l[2:]), &res) != nil || res.NoFault {
							continue
						}
						points++
						r.Count("fault_points_run", 1)
						r.Count("fault_at_"+res.Class, 1)
						r.Count("later_changes_demanded", res.Demanded)
						r.Count("changes_demanded_at_first_restart_after_fault", res.DemandedSoon)
						if res.Demanded > 0 {
							r.Count("runs_with_later_changes_demanded", 1)
						}
						if res.FullEq {
							r.Count("runs_whose_reopened_state_equals_the_model_altogether", 1)
						}
						mu.Lock()
						classes[res.Class+"@"+res.StepKind]++
						mu.Unlock()
						for _, v := range res.Viol {
							if v.Key == "harness" {
								r.Inconclusive(v.Msg)
								continue
							}
							r.Violation(v.Key, ci, fmt.Sprintf("fault point %d: %s ; minCompactSize=%d rejoin=%v ; history: %s", res.K, v.Msg, cs.Th, cs.Rejoin, c10Trunc(hs, 1500)),
								map[string]any{"fault_point": res.K, "fault": res.Fault, "ops": c10WitnessOps(cs.Ops), "minCompactSize": cs.Th, "rejoin": cs.Rejoin})
						}
					}
				}
				lf.Close()
			}
			if done && runErr == nil {
				break
			}
			// the child died: classify
			stderr, _ := os.ReadFile(filepath.Join(dir, "stderr"))
			se := string(stderr)
			pi := strings.Index(se, "panic:")
			if fi := strings.Index(se, "fatal error:"); fi >= 0 && (pi < 0 || fi < pi) {
				pi = fi
			}
			if pi < 0 || lastK < 0 {
				r.Inconclusive(fmt.Sprintf("child for history %d failed without a panic (%v): %s", ci, runErr, c09TailS(se, 400)))
				break
			}
			msg := se[pi:]
			first := strings.SplitN(msg, "\n", 2)[0]
			frame := "unknown"
			for _, m := range c12PanicFrame.FindAllStringSubmatch(msg, -1) {
				if !strings.Contains(m[1], "/harness/") && !strings.Contains(m[1], "verifFile") && !strings.Contains(m[1], "verifFS") {
					frame = m[1]
					break
				}
			}
			if frame == "unknown" {
				r.Inconclusive(fmt.Sprintf("child for history %d crashed outside serf at fault point %d: %s", ci, lastK, c09TailS(msg, 600)))
				break
			}
			// which operation was failed: re-derive from a dry listing is not possible after the crash; the
			// child's stderr carries no record, so describe the point by its index and the panic frame
			points++
			r.Count("fault_points_run", 1)
			r.Count("child_crashes", 1)
			errk, partial := c12Fault(r.Seed, ci, lastK)
			r.Violation("panic@"+frame, ci, fmt.Sprintf("fault point %d of %d (%v, short write %v): %s in %s ; minCompactSize=%d rejoin=%v ; history: %s", lastK, total, errk, partial, first, frame, cs.Th, cs.Rejoin, c10Trunc(hs, 1500)),
				map[string]any{"fault_point": lastK, "panic": first, "stack": c09HeadS(msg, 3000), "ops": c10WitnessOps(cs.Ops), "minCompactSize": cs.Th, "rejoin": cs.Rejoin})
			start = lastK + 1
		}
		r.Eval(points) // one evaluation = one run of a history with one fault point failed
		r.Count("histories", 1)
		r.Count("file_operations_that_are_fault_points", total)
		if total > 0 && points >= total {
			r.Count("histories_with_every_fault_point_run", 1)
		}
		if ci < 2 {
			r.Sample(map[string]any{"history": c10Trunc(hs, 700), "minCompactSize": cs.Th, "rejoin_after_leave": cs.Rejoin, "fault_points": total})
		}
	})
	mu.Lock()
	for k := range classes {
		r.Distinct(k)
	}
	r.Extra("fault_classes(operation@step kind)", classes)
	mu.Unlock()
	r.Exhaustive(false)
	r.Extra("fault_points_per_history", "exhaustive: every open/write/sync/close/remove/rename of every driven history is failed once, each in a run of its own")
	r.Finish("histories of 6-45 snapshot events plus a fixed tail of membership / clock changes 31, 62 and 93 virtual seconds later (sometimes ending in a graceful leave), minCompactSize in {1,64,300,1024,128Ki}; for each history the file operations are counted in a fault-free run and the history is re-run once per operation with exactly that operation failing once (EIO, ENOSPC with a short write, EMFILE, EACCES, EINTR, EROFS), in a child process that logs the fault point first; distinct/non-trivial = (failed operation and file, kind of the step it happened in) classes",
		12,
		"a transient fault = one operation fails once and the operation is not performed (a failing close still releases the descriptor; a short write hands a prefix to the OS)",
		"'once the fault has cleared' is given 31 virtual seconds (the documented recovery interval is 30 s) before a later change is demanded; changes made during that window are not demanded",
		"the overlay changes only how snapshot.go reaches the os package (tools/fsshim)")
}

func c09TailS(s string, n int) string {
	if len(s) > n {
		return s[len(s)-n:]
	}
	return s
}
func c09HeadS(s string, n int) string {
	if len(s) > n {
		return s[:n]
	}
	return s
}
