package props

// Shared by C10, C13 (and, for the file reader, C14): history generator,
// reference model and bubble driver for the real serf.Snapshotter.
//
// The driver feeds the REAL snapshotter (serf.NewSnapshotter, real files) through
// its public event channel inside a testing/synctest bubble, so that the 500 ms
// flush / clock tickers run in virtual time and synctest.Wait() is an exact
// "the snapshot has kept up" barrier.  The reference model is written from the
// property text, not from snapshot.go.

import (
	"fmt"
	"io"
	"log"
	"math"
	"math/rand"
	"net"
	"os"
	"sort"
	"strings"
	"syscall"
	"testing"
	"testing/synctest"
	"time"

	"github.com/hashicorp/serf/serf"
)

// ---------------------------------------------------------------- history

type c10Mem struct {
	Name string
	IP   []byte
	Port uint16
}

func (m c10Mem) addr() string {
	a := net.TCPAddr{IP: net.IP(m.IP), Port: int(m.Port)}
	return a.String()
}

// c10Op is one step of a history.
type c10Op struct {
	// join | leave | failed | update | reap | user | query | clock | sleep | wait | restart | LEAVE
	Kind    string
	Members []c10Mem      `json:",omitempty"`
	LTime   uint64        `json:",omitempty"` // user/query LTime, or value witnessed by the member clock
	Gap     time.Duration `json:",omitempty"`
}

func (o c10Op) String() string {
	switch o.Kind {
	case "join", "leave", "failed", "update", "reap":
		var p []string
		for _, m := range o.Members {
			if o.Kind == "join" {
				p = append(p, fmt.Sprintf("%q@%s", m.Name, m.addr()))
			} else {
				p = append(p, fmt.Sprintf("%q", m.Name))
			}
		}
		return o.Kind + "(" + strings.Join(p, ",") + ")"
	case "user", "query", "clock":
		return fmt.Sprintf("%s(%d)", o.Kind, o.LTime)
	case "sleep":
		return "sleep(" + o.Gap.String() + ")"
	}
	return o.Kind
}

func c10HistoryString(ops []c10Op) string {
	var sb strings.Builder
	for i, o := range ops {
		if i > 0 {
			sb.WriteByte(' ')
		}
		s := o.String()
		if len(s) > 160 {
			s = s[:150] + fmt.Sprintf("…(%d bytes)", len(s))
		}
		sb.WriteString(s)
	}
	return sb.String()
}

// c10State is the observable snapshot state (what a reopen exposes).
type c10State struct {
	Alive                         map[string]string
	Clock, EventClock, QueryClock uint64
}

func (s c10State) String() string {
	keys := make([]string, 0, len(s.Alive))
	for k := range s.Alive {
		keys = append(keys, k)
	}
	sort.Strings(keys)
	var sb strings.Builder
	sb.WriteString("alive{")
	for i, k := range keys {
		if i > 0 {
			sb.WriteString(", ")
		}
		kk := k
		if len(kk) > 80 {
			kk = kk[:70] + fmt.Sprintf("…(%d bytes)", len(k))
		}
		fmt.Fprintf(&sb, "%q=%s", kk, s.Alive[k])
	}
	fmt.Fprintf(&sb, "} clock=%d event=%d query=%d", s.Clock, s.EventClock, s.QueryClock)
	return sb.String()
}

func (s c10State) equal(o c10State) bool {
	if s.Clock != o.Clock || s.EventClock != o.EventClock || s.QueryClock != o.QueryClock || len(s.Alive) != len(o.Alive) {
		return false
	}
	for k, v := range s.Alive {
		if ov, ok := o.Alive[k]; !ok || ov != v {
			return false
		}
	}
	return true
}

func (s c10State) aliveEqual(o c10State) bool {
	if len(s.Alive) != len(o.Alive) {
		return false
	}
	for k, v := range s.Alive {
		if ov, ok := o.Alive[k]; !ok || ov != v {
			return false
		}
	}
	return true
}

func (s c10State) clone() c10State {
	c := s
	c.Alive = make(map[string]string, len(s.Alive))
	for k, v := range s.Alive {
		c.Alive[k] = v
	}
	return c
}

// c10Model is the reference model of the property text:
//   - rejoin set: join sets name->addr, leave/failed delete, everything else leaves it;
//   - event / query clock: maximum seen;
//   - member clock: last value of clock.Time()-1 sampled (a member event, a tick or
//     a shutdown).  Since the clock is monotone and every session ends with a
//     sample at shutdown, the value at a reopen is the clock at that shutdown.
//   - a graceful leave (C13) freezes the state; with rejoin disabled it also
//     empties the rejoin set.
type c10Model struct {
	st      c10State
	left    bool // a graceful leave has been recorded in this session
	rejoin  bool
	atLeave c10State // rejoin set at the moment of the leave
}

func newC10Model(rejoin bool) *c10Model {
	return &c10Model{st: c10State{Alive: map[string]string{}}, rejoin: rejoin}
}

func (m *c10Model) apply(o c10Op) {
	if m.left {
		return // "events sent afterwards must have no effect"
	}
	switch o.Kind {
	case "join":
		for _, mem := range o.Members {
			m.st.Alive[mem.Name] = mem.addr()
		}
	case "leave", "failed":
		for _, mem := range o.Members {
			delete(m.st.Alive, mem.Name)
		}
	case "user":
		if o.LTime > m.st.EventClock {
			m.st.EventClock = o.LTime
		}
	case "query":
		if o.LTime > m.st.QueryClock {
			m.st.QueryClock = o.LTime
		}
	case "LEAVE":
		m.left = true
		m.atLeave = m.st.clone()
		if !m.rejoin {
			m.st.Alive = map[string]string{}
		}
	}
}

// sampleClock is called where the snapshotter is guaranteed to sample the member clock.
func (m *c10Model) sampleClock(t uint64) {
	if t >= 1 && t-1 > m.st.Clock {
		m.st.Clock = t - 1
	}
}

// ---------------------------------------------------------------- name classes

var c10NameClasses = []string{"plain", "space-inside", "leading-space", "trailing-space", "unicode",
	"lookalike", "long", "empty", "newline", "cr", "slash", "control", "invalid-utf8", "only-spaces"}

// c10ClassOf classifies a name from the input (used for violation keys / coverage).
func c10ClassOf(name string) []string {
	var cl []string
	add := func(c string) { cl = append(cl, c) }
	if name == "" {
		return []string{"empty"}
	}
	if strings.Contains(name, "\n") {
		add("newline")
	}
	if strings.Contains(name, "\r") {
		add("cr")
	}
	if strings.TrimSpace(name) == "" {
		add("only-spaces")
	} else {
		if strings.HasPrefix(name, " ") {
			add("leading-space")
		}
		if strings.HasSuffix(name, " ") {
			add("trailing-space")
		}
		if strings.Contains(strings.TrimSpace(name), " ") {
			add("space-inside")
		}
	}
	for _, p := range []string{"alive: ", "not-alive: ", "clock: ", "event-clock: ", "query-clock: ", "coordinate: ", "leave", "#"} {
		if strings.HasPrefix(strings.TrimLeft(name, " "), p) || strings.Contains(name, "\n"+p) {
			add("lookalike")
			break
		}
	}
	if len(name) > 300 {
		add("long")
	}
	if strings.Contains(name, "/") {
		add("slash")
	}
	if strings.ToValidUTF8(name, "") != name {
		add("invalid-utf8")
	} else {
		for _, r := range name {
			if r > 127 {
				add("unicode")
				break
			}
		}
	}
	for _, r := range name {
		if r < 32 && r != '\n' && r != '\r' || r == 127 {
			add("control")
			break
		}
	}
	if len(cl) == 0 {
		add("plain")
	}
	return cl
}

// c10GenName produces a name of the given class (see DESIGN C10 W).
func c10GenName(rng *rand.Rand, class string, i int) string {
	base := fmt.Sprintf("node%d", i)
	addrLike := []string{"10.1.2.3:7946", "[fe80::1]:7946", ":0", "1.2.3.4"}[rng.Intn(4)]
	switch class {
	case "plain":
		return []string{base, "web-" + base + ".dc1.example.com", "N" + base, "a", "0"}[rng.Intn(5)]
	case "space-inside":
		return []string{"rack 4 " + base, base + " " + addrLike, base + "  two  spaces", "a b c d e f"}[rng.Intn(4)]
	case "leading-space":
		return []string{" " + base, "  " + base, " " + base + " x"}[rng.Intn(3)]
	case "trailing-space":
		return []string{base + " ", base + "   ", base + " " + addrLike + " "}[rng.Intn(3)]
	case "only-spaces":
		return strings.Repeat(" ", 1+rng.Intn(3))
	case "unicode":
		return []string{"nœud-" + base, "узел " + base, "节点" + base, "🦀" + base, base + " nbsp", base + " ls", base + "\u0085nel"}[rng.Intn(7)]
	case "lookalike":
		return []string{"alive: " + base, "alive: " + base + " " + addrLike, "not-alive: " + base, "clock: 99999",
			"event-clock: 77777", "query-clock: 88888", "leave", "leave ", " leave", "# " + base, "#", "coordinate: x",
			"alive:", "not-alive:", "alive: ", "not-alive: ", base + " not-alive: " + base}[rng.Intn(17)]
	case "long":
		n := []int{301, 1000, 4095, 4096, 4097, 9000, 70000}[rng.Intn(7)]
		s := strings.Repeat("L", n-len(base)) + base
		if rng.Intn(3) == 0 { // long with spaces sprinkled in
			b := []byte(s)
			for k := 0; k < 20; k++ {
				b[rng.Intn(len(b))] = ' '
			}
			s = string(b)
		}
		return s
	case "empty":
		return ""
	case "newline":
		return []string{base + "\n", "\n" + base, base + "\nx", base + "\nalive: ghost 6.6.6.6:666", base + "\nnot-alive: node0",
			base + "\nleave", base + "\nclock: 424242", "\n", base + "\r\nx", base + "\nevent-clock: 31337"}[rng.Intn(10)]
	case "cr":
		return []string{base + "\r", "\r" + base, base + "\rx y"}[rng.Intn(3)]
	case "slash":
		return []string{"dc1/" + base, "/" + base, base + "/", "a/b/" + base}[rng.Intn(4)]
	case "control":
		return []string{base + "\t" + "tab", base + "\x00nul", "\x1b[31m" + base, base + "\x7f", base + "\v\f"}[rng.Intn(5)]
	case "invalid-utf8":
		return []string{base + "\xff\xfe", "\xc3" + base, base + "\xed\xa0\x80"}[rng.Intn(3)]
	}
	return base
}

func c10GenAddr(rng *rand.Rand) ([]byte, uint16) {
	port := []uint16{7946, 0, 1, 80, 65535, uint16(rng.Intn(65536))}[rng.Intn(6)]
	switch rng.Intn(12) {
	case 0, 1, 2, 3: // IPv4, 4-byte form
		return []byte{byte(1 + rng.Intn(223)), byte(rng.Intn(256)), byte(rng.Intn(256)), byte(rng.Intn(256))}, port
	case 4: // IPv4 in 16-byte form (what net.ParseIP returns)
		return []byte(net.IPv4(10, byte(rng.Intn(256)), byte(rng.Intn(256)), byte(rng.Intn(256)))), port
	case 5, 6, 7: // IPv6
		ip := make([]byte, 16)
		rng.Read(ip)
		ip[0] = 0xfd
		if rng.Intn(2) == 0 { // with a zero run so that "::" compression appears
			for k := 4; k < 14; k++ {
				ip[k] = 0
			}
		}
		return ip, port
	case 8:
		return []byte(net.IPv6loopback), port
	case 9:
		return []byte(net.IPv6zero), port
	case 10: // odd length (net.IP.String prints "?hex")
		ip := make([]byte, []int{1, 3, 5, 15, 17}[rng.Intn(5)])
		rng.Read(ip)
		return ip, port
	default: // nil address
		return nil, port
	}
}

// c10GenOpts shapes a history.
type c10GenOpts struct {
	MinOps, MaxOps int
	Newline        bool // allow the newline class
	Restarts       bool
	LeaveAt        bool // insert exactly one graceful LEAVE (C13)
}

// c10GenHistory generates a history and reports the name classes used.
func c10GenHistory(rng *rand.Rand, o c10GenOpts) ([]c10Op, []string) {
	nNames := 1 + rng.Intn(12)
	// choose classes for this history: mostly a mix, sometimes a single hostile class
	pool := []string{"plain", "plain", "space-inside", "leading-space", "trailing-space", "unicode", "lookalike", "long",
		"empty", "cr", "slash", "control", "invalid-utf8", "only-spaces"}
	if o.Newline {
		pool = append(pool, "newline", "newline", "newline")
	}
	if rng.Intn(4) == 0 {
		pool = []string{pool[rng.Intn(len(pool))], "plain"}
		if o.Newline && rng.Intn(2) == 0 {
			pool = []string{"newline", "plain"}
		}
	}
	longBudget := 2 // keep the file small enough for the tiers: at most 2 long names
	names := make([]string, 0, nNames)
	seen := map[string]bool{}
	for i := 0; len(names) < nNames && i < 4*nNames; i++ {
		cl := pool[rng.Intn(len(pool))]
		if cl == "long" {
			if longBudget == 0 {
				cl = "plain"
			}
			longBudget--
		}
		n := c10GenName(rng, cl, i)
		if seen[n] {
			continue
		}
		seen[n] = true
		names = append(names, n)
	}
	// a stable "home" address per name; joins sometimes use a new address
	type home struct {
		ip   []byte
		port uint16
	}
	homes := make([]home, len(names))
	for i := range homes {
		homes[i].ip, homes[i].port = c10GenAddr(rng)
	}
	pickMembers := func(kind string) []c10Mem {
		k := 1
		if rng.Intn(4) == 0 {
			k = 2 + rng.Intn(3)
		}
		ms := make([]c10Mem, 0, k)
		for j := 0; j < k; j++ {
			i := rng.Intn(len(names))
			m := c10Mem{Name: names[i], IP: homes[i].ip, Port: homes[i].port}
			if kind == "join" && rng.Intn(5) == 0 { // came back with another address
				m.IP, m.Port = c10GenAddr(rng)
				if rng.Intn(2) == 0 {
					homes[i].ip, homes[i].port = m.IP, m.Port
				}
			}
			ms = append(ms, m)
		}
		return ms
	}
	// LTime regimes
	evBase := []uint64{0, 1, 500, 1 << 32, 1 << 63, math.MaxUint64 - 40}[rng.Intn(6)]
	qBase := []uint64{0, 3, 1 << 20, 1 << 62, math.MaxUint64 - 40}[rng.Intn(5)]
	clkBase := []uint64{0, 0, 10, 1 << 31, 1 << 62, math.MaxUint64 - 200}[rng.Intn(6)]
	clk := clkBase
	L := o.MinOps + rng.Intn(o.MaxOps-o.MinOps+1)
	ops := make([]c10Op, 0, L+4)
	leavePos := -1
	if o.LeaveAt {
		leavePos = rng.Intn(L + 1)
		if rng.Intn(6) == 0 {
			leavePos = []int{0, L}[rng.Intn(2)]
		}
	}
	for i := 0; i < L; i++ {
		if i == leavePos {
			ops = append(ops, c10Op{Kind: "LEAVE"})
		}
		switch x := rng.Intn(100); {
		case x < 30:
			ops = append(ops, c10Op{Kind: "join", Members: pickMembers("join")})
		case x < 42:
			ops = append(ops, c10Op{Kind: "leave", Members: pickMembers("leave")})
		case x < 54:
			ops = append(ops, c10Op{Kind: "failed", Members: pickMembers("failed")})
		case x < 58:
			ops = append(ops, c10Op{Kind: "update", Members: pickMembers("update")})
		case x < 62:
			ops = append(ops, c10Op{Kind: "reap", Members: pickMembers("reap")})
		case x < 70:
			ops = append(ops, c10Op{Kind: "user", LTime: evBase + uint64(rng.Intn(40))})
		case x < 78:
			ops = append(ops, c10Op{Kind: "query", LTime: qBase + uint64(rng.Intn(40))})
		case x < 86:
			inc := uint64(rng.Intn(5))
			if rng.Intn(10) == 0 {
				inc += uint64(rng.Intn(100))
			}
			if clk < math.MaxUint64-3-inc { // never witness 2^64-1 (DESIGN 9: the clock would wrap)
				clk += inc
			}
			ops = append(ops, c10Op{Kind: "clock", LTime: clk})
		case x < 94:
			g := []time.Duration{time.Millisecond, 100 * time.Millisecond, 499 * time.Millisecond, 500 * time.Millisecond,
				501 * time.Millisecond, time.Second, 3 * time.Second, 31 * time.Second}[rng.Intn(8)]
			ops = append(ops, c10Op{Kind: "sleep", Gap: g})
		case x < 98 || !o.Restarts:
			ops = append(ops, c10Op{Kind: "wait"})
		default:
			ops = append(ops, c10Op{Kind: "restart"})
		}
	}
	if leavePos == L {
		ops = append(ops, c10Op{Kind: "LEAVE"})
	}
	cls := map[string]bool{}
	for _, op := range ops {
		for _, m := range op.Members {
			for _, c := range c10ClassOf(m.Name) {
				cls[c] = true
			}
		}
	}
	var classes []string
	for c := range cls {
		classes = append(classes, c)
	}
	sort.Strings(classes)
	return ops, classes
}

// c10HasNewline reports whether any member name of the history contains '\n'
// (the failing-input class of the known line-format defect).
func c10HasNewline(ops []c10Op) bool {
	for _, op := range ops {
		for _, m := range op.Members {
			if strings.Contains(m.Name, "\n") {
				return true
			}
		}
	}
	return false
}

// ---------------------------------------------------------------- driver

func c10Event(o c10Op) serf.Event {
	ms := make([]serf.Member, len(o.Members))
	for i, m := range o.Members {
		ms[i] = serf.Member{Name: m.Name, Addr: net.IP(m.IP), Port: m.Port, Status: serf.StatusAlive}
	}
	switch o.Kind {
	case "join":
		return serf.MemberEvent{Type: serf.EventMemberJoin, Members: ms}
	case "leave":
		return serf.MemberEvent{Type: serf.EventMemberLeave, Members: ms}
	case "failed":
		return serf.MemberEvent{Type: serf.EventMemberFailed, Members: ms}
	case "update":
		return serf.MemberEvent{Type: serf.EventMemberUpdate, Members: ms}
	case "reap":
		return serf.MemberEvent{Type: serf.EventMemberReap, Members: ms}
	case "user":
		return serf.UserEvent{LTime: serf.LamportTime(o.LTime), Name: "deploy", Payload: []byte("p")}
	case "query":
		return &serf.Query{LTime: serf.LamportTime(o.LTime), Name: "load"}
	}
	return nil
}

// c10ReadSnapshot opens the snapshot file with the real NewSnapshotter, reads the
// recovered state and shuts the reader down again without changing the file
// (its clock is seeded like Serf.Create does, so shutdown samples nothing new).
// Must run inside a bubble.
func c10ReadSnapshot(path string, rejoin bool) (c10State, error) {
	var clock serf.LamportClock
	clock.Increment()
	shut := make(chan struct{})
	_, snap, err := serf.NewSnapshotter(path, 1<<30, rejoin, log.New(io.Discard, "", 0), &clock, nil, shut)
	if err != nil {
		return c10State{}, err
	}
	st := c10SnapState(snap)
	clock.Witness(snap.LastClock())
	close(shut)
	snap.Wait()
	synctest.Wait() // teeStream goroutine gone too
	return st, nil
}

func c10SnapState(snap *serf.Snapshotter) c10State {
	st := c10State{Alive: map[string]string{}, Clock: uint64(snap.LastClock()),
		EventClock: uint64(snap.LastEventClock()), QueryClock: uint64(snap.LastQueryClock())}
	for _, p := range snap.AliveNodes() {
		st.Alive[p.Name] = p.Addr
	}
	return st
}

// c10RunStats is what the driver observed.
type c10RunStats struct {
	Sent        map[string]int
	Forwarded   int // events seen on the pass-through channel
	Compactions int // inode changes of the snapshot file between quiescence points
	Reopens     int // reopen comparisons made
	MaxSize     int64
	FinalSize   int64
	Sessions    int
	// C13: what happened between the graceful leave and the end of that session
	PostLeaveOps, PostLeaveTicks, PostLeaveCompactions int
}

func c10Inode(path string) (uint64, int64) {
	fi, err := os.Stat(path)
	if err != nil {
		return 0, -1
	}
	if st, ok := fi.Sys().(*syscall.Stat_t); ok {
		return st.Ino, fi.Size()
	}
	return 0, fi.Size()
}

// c10Mismatch is one failed reopen comparison.
type c10Mismatch struct {
	At        int // op index after which the reopen happened (len(ops) = final)
	Got, Want string
	AliveOnly bool // clocks equal, rejoin set differs
}

// c10Drive runs one history against the real snapshotter in the CURRENT bubble.
// It returns the state recovered at the end (after shutdown + reopen), the
// reference state, every mismatch seen at an intermediate restart or at the end.
// compareClocks=false restricts comparisons to the rejoin set (C13).
func c10Drive(path string, ops []c10Op, minCompact int, rejoin bool, compareClocks bool) (got c10State, model *c10Model, mism []c10Mismatch, stats c10RunStats, err error) {
	stats.Sent = map[string]int{}
	model = newC10Model(rejoin)
	logger := log.New(io.Discard, "", 0)

	var (
		clock *serf.LamportClock
		shut  chan struct{}
		snap  *serf.Snapshotter
		in    chan<- serf.Event
		out   chan serf.Event
	)
	lastIno, _ := c10Inode(path)
	observe := func() {
		ino, sz := c10Inode(path)
		if ino != lastIno && lastIno != 0 {
			stats.Compactions++
			if model.left {
				stats.PostLeaveCompactions++
			}
		}
		lastIno = ino
		if sz > stats.MaxSize {
			stats.MaxSize = sz
		}
	}
	drainOut := func() {
		for len(out) > 0 {
			<-out
			stats.Forwarded++
		}
	}
	open := func() error {
		// as Serf.Create does: clock at least 1, then witness the recovered value
		clock = new(serf.LamportClock)
		clock.Increment()
		shut = make(chan struct{})
		out = make(chan serf.Event, 4096)
		var e error
		in, snap, e = serf.NewSnapshotter(path, minCompact, rejoin, logger, clock, out, shut)
		if e != nil {
			return e
		}
		stats.Sessions++
		clock.Witness(snap.LastClock())
		return nil
	}
	closeSession := func() {
		synctest.Wait() // the snapshot has kept up with everything sent
		drainOut()
		model.sampleClock(uint64(clock.Time())) // shutdown always samples the clock (also after a leave)
		close(shut)
		snap.Wait()
		synctest.Wait()
		observe()
	}
	compare := func(at int, st c10State) {
		stats.Reopens++
		want := model.st
		ok := st.aliveEqual(want)
		clocksOK := st.Clock == want.Clock && st.EventClock == want.EventClock && st.QueryClock == want.QueryClock
		if ok && (clocksOK || !compareClocks) {
			return
		}
		mism = append(mism, c10Mismatch{At: at, Got: st.String(), Want: want.String(), AliveOnly: clocksOK})
	}

	if err = open(); err != nil {
		return
	}
	pending := 0
	for i, o := range ops {
		switch o.Kind {
		case "sleep":
			// ticks fire every 500 ms of virtual time and sample the clock
			time.Sleep(o.Gap)
			if model.left {
				stats.PostLeaveTicks += int(o.Gap / (500 * time.Millisecond))
				synctest.Wait()
				observe()
			}
		case "wait":
			synctest.Wait()
			pending = 0
			drainOut()
			observe()
		case "clock":
			clock.Witness(serf.LamportTime(o.LTime))
		case "restart":
			closeSession()
			left := model.left
			if err = open(); err != nil {
				return
			}
			pending = 0
			// a new session: compare what the reopen recovered
			if left && !rejoin {
				// replaying a recorded leave also resets the clocks (not part of C13's statement);
				// adopt the recovered clocks so that later comparisons stay exact
				st := c10SnapState(snap)
				model.st.Clock, model.st.EventClock, model.st.QueryClock = st.Clock, st.EventClock, st.QueryClock
			}
			compare(i, c10SnapState(snap))
			model.left = false // the new process has not left
		case "LEAVE":
			synctest.Wait() // moment of the leave: everything sent so far is processed
			pending = 0
			drainOut()
			snap.Leave()
			synctest.Wait()
			observe()
			model.apply(o)
			stats.Sent["LEAVE"]++
		default:
			if model.left {
				stats.PostLeaveOps++
			}
			in <- c10Event(o)
			model.apply(o)
			stats.Sent[o.Kind]++
			pending++
			if pending >= 1500 { // stay below the 2048-slot tee buffers ("snapshot keeps up")
				synctest.Wait()
				pending = 0
				drainOut()
			}
		}
	}
	closeSession()
	_, stats.FinalSize = c10Inode(path)
	got, err = c10ReadSnapshot(path, rejoin)
	if err != nil {
		return
	}
	if model.left && !rejoin {
		model.st.Clock, model.st.EventClock, model.st.QueryClock = got.Clock, got.EventClock, got.QueryClock
	}
	compare(len(ops), got)
	return
}

// c10Thresholds are the compaction thresholds (minCompactSize) of the differential oracle.
var c10Thresholds = []int{1, 64, 1024, 128 * 1024}

func c10Trunc(s string, n int) string {
	if len(s) <= n {
		return s
	}
	return s[:n] + fmt.Sprintf("…(+%d bytes)", len(s)-n)
}

// c10WitnessOps shortens very long names so that replay files stay readable
// (the replay is by seed/case anyway).
func c10WitnessOps(ops []c10Op) []string {
	out := make([]string, 0, len(ops))
	for _, o := range ops {
		out = append(out, c10Trunc(o.String(), 300))
	}
	if len(out) > 450 {
		out = out[:450]
	}
	return out
}

// c10Settled wraps a scenario (which shuts its nodes down with defers) into a bubble
// root function that afterwards lets virtual time run: the fake clock stops when
// the root function returns, so goroutines that are still inside a timed wait at
// that point (a reconnect dial sleeping out its TCP timeout, a push/pull with a
// deadline) would be reported as a deadlock of the checker.
func c10Settled(scenario func()) func(t *testing.T) {
	return func(t *testing.T) {
		scenario()
		time.Sleep(3 * time.Minute)
		synctest.Wait()
	}
}
