package props

import (
	"bytes"
	"fmt"
	"math/rand"
	"net"
	"strings"
	"sync"
	"sync/atomic"
	"testing"
	"testing/synctest"
	"time"

	"github.com/hashicorp/serf/serf"

	"verif/harness/cluster"
	"verif/harness/evid"
	"verif/harness/simnet"
	"verif/harness/wire"
)

// C33: nothing larger than the configured limits is ever sent.
//
// Boundary search (limit-2 .. limit+2) around the configured user event limit
// (and the hard 9 KiB limit), the query size limit and the query response size
// limit. Sizes are recomputed from the bytes the node actually queued for
// gossip (GetBroadcasts) or that actually arrived at a puppet.

const c33Hard = 9 * 1024

type c33Viol struct {
	key, msg string
	w        any
}

func c33BinHdr(n int) int { return len(wire.EncodeBody(make([]byte, n))) - n }
func c33UintLen(v uint64) int {
	return len(wire.EncodeBody(v))
}

func c33Name(n int, tag int) string {
	s := fmt.Sprintf("e%d-", tag)
	if n < len(s) {
		return s[:n]
	}
	return s + strings.Repeat("n", n-len(s))
}

func c33Off(size, limit int) string {
	d := size - limit
	if d < -2 || d > 2 {
		if d < 0 {
			return "below"
		}
		return "above"
	}
	return fmt.Sprintf("%+d", d)
}

// ---- user events

func c33UserEvents(r *evid.Run, t *testing.T, ci int, rng *rand.Rand) {
	limits := []int{64, 128, 512, 1000, 1024, 4096, 9215, 9216, 9216, 9217, 12000}
	L := limits[rng.Intn(len(limits))]
	eff := L
	if eff > c33Hard {
		eff = c33Hard
	}
	startLT := []uint64{0, 0, 120, 300, 70000, 1 << 33}[rng.Intn(6)]
	var viols []c33Viol
	counts := map[string]int{}
	var sigs []string
	var sample any
	var setupErr string
	synctest.Test(t, func(t *testing.T) {
		nw := simnet.New(int64(ci))
		nd, err := cluster.Start(nw, cluster.Opts{Name: "n1", IP: "10.33.0.1", Profile: "passive", Mutate: func(c *serf.Config) { c.UserEventSizeLimit = L }})
		if err != nil {
			if L > c33Hard {
				counts["create_refused_limit_above_9KiB"]++
				// the operator raises the limit on the running node instead (the configuration object
				// stays with the caller): the 9 KiB cap still applies to what is sent
				nd, err = cluster.Start(nw, cluster.Opts{Name: "n1", IP: "10.33.0.1", Profile: "passive", Mutate: func(c *serf.Config) { c.UserEventSizeLimit = 512 }})
				if err == nil {
					nd.Conf.UserEventSizeLimit = L
					counts["limit_raised_above_9KiB_on_the_running_node"]++
				}
			}
			if err != nil {
				setupErr = err.Error()
				return
			}
		}
		defer nd.Close()
		if startLT > 0 { // move the event clock so that the Lamport time encodes wider
			nd.NotifyMsg(wire.Encode(wire.UserEvent, &wire.MsgUserEvent{LTime: startLT, Name: "warm", Payload: []byte("x")}))
		}
		synctest.Wait()
		nd.DrainBroadcasts()
		lt := uint64(0)
		if startLT > 0 {
			lt = startLT + 1
		}
		evSeen := len(nd.Events())
		nameLens := []int{0, 1, 5, 31, 32, 33, 255, 256, 257}
		serial := 0
		attempt := func(nl, pl int, cc bool, why string) {
			if pl < 0 || nl < 0 {
				return
			}
			serial++
			name := c33Name(nl, serial)
			payload := bytes.Repeat([]byte{byte('a' + serial%26)}, pl)
			predicted := len(wire.Encode(wire.UserEvent, &wire.MsgUserEvent{LTime: lt, Name: name, Payload: payload, CC: cc}))
			err := nd.S.UserEvent(name, payload, cc)
			synctest.Wait()
			stat := nd.S.Stats()["event_queue"]
			var queued [][]byte
			for _, b := range nd.DrainBroadcasts() {
				if len(b) > 0 && b[0] == wire.UserEvent {
					dup := false
					for _, q := range queued {
						if bytes.Equal(q, b) {
							dup = true
						}
					}
					if !dup {
						queued = append(queued, b)
					}
				}
			}
			local := 0
			evs := nd.Events()
			for _, le := range evs[evSeen:] {
				if ue, ok := le.E.(serf.UserEvent); ok && ue.Name == name && bytes.Equal(ue.Payload, payload) {
					local++
				}
			}
			evSeen = len(evs)
			wit := map[string]any{"limit": L, "name_len": nl, "payload_len": pl, "coalesce": cc, "predicted_encoded": predicted, "error": fmt.Sprint(err), "queued_sizes": func() []int {
				var s []int
				for _, q := range queued {
					s = append(s, len(q))
				}
				return s
			}(), "delivered_locally": local, "event_queue": stat}
			class := fmt.Sprintf("L=%d", L)
			counts["user_event_attempts"]++
			if err == nil {
				counts["user_events_accepted"]++
				lt++
				if nl+pl > eff {
					viols = append(viols, c33Viol{"uev-accepted-raw-over/" + class, fmt.Sprintf("UserEvent accepted with name+payload %d > limit %d", nl+pl, eff), wit})
				}
				for _, q := range queued {
					var m wire.MsgUserEvent
					if wire.Decode(q[1:], &m) != nil || m.Name != name || !bytes.Equal(m.Payload, payload) {
						viols = append(viols, c33Viol{"uev-queued-other/" + class, "a different user event was queued for gossip", wit})
						continue
					}
					counts["user_events_queued"]++
					lt = m.LTime + 1 // keep the size prediction in step with the node's event clock
					if len(q) > eff {
						viols = append(viols, c33Viol{"uev-queued-encoded-over/" + class, fmt.Sprintf("UserEvent accepted and queued %d encoded bytes > limit %d (name %d + payload %d)", len(q), eff, nl, pl), wit})
					}
					if len(m.Name)+len(m.Payload) > eff {
						viols = append(viols, c33Viol{"uev-queued-raw-over/" + class, fmt.Sprintf("queued user event carries name+payload %d > limit %d", len(m.Name)+len(m.Payload), eff), wit})
					}
					if len(q) == eff {
						counts["user_events_accepted_exactly_at_limit"]++
					}
					if len(q) == eff-1 {
						counts["user_events_accepted_at_limit_minus_1"]++
					}
					sigs = append(sigs, fmt.Sprintf("uev|%d|%d|%s|%d|%v|acc", L, nl, c33Off(len(q), eff), c33UintLen(m.LTime), cc))
				}
				if len(queued) == 0 {
					counts["user_events_accepted_but_not_queued"]++
					if predicted > eff { // nothing to measure: fall back to the independent encoding
						viols = append(viols, c33Viol{"uev-accepted-encoded-over/" + class, fmt.Sprintf("UserEvent accepted although its encoded form is %d bytes > limit %d", predicted, eff), wit})
					}
				}
				if local != 1 {
					counts["user_events_accepted_local_delivery_not_1"]++
				} else {
					counts["user_events_delivered_locally"]++
				}
			} else {
				counts["user_events_rejected"]++
				if predicted <= eff && nl+pl <= eff {
					counts["user_events_rejected_within_limits"]++
				}
				if predicted == eff+1 {
					counts["user_events_rejected_at_limit_plus_1"]++
				}
				if local != 0 {
					viols = append(viols, c33Viol{"uev-rejected-delivered/" + class, fmt.Sprintf("UserEvent rejected (%v) but delivered locally %d times", err, local), wit})
				}
				if len(queued) != 0 || stat != "0" {
					viols = append(viols, c33Viol{"uev-rejected-queued/" + class, fmt.Sprintf("UserEvent rejected (%v) but %d message(s) queued for gossip (event_queue=%s)", err, len(queued), stat), wit})
				}
				sigs = append(sigs, fmt.Sprintf("uev|%d|%d|%s|%s|%v|rej", L, nl, c33Off(predicted, eff), c33Off(nl+pl, eff), cc))
			}
			if sample == nil && why == "enc" && err == nil {
				sample = map[string]any{"kind": "user_event", "limit": L, "name_len": nl, "payload_len": pl, "queued_bytes": wit["queued_sizes"], "accepted": true}
			}
		}
		for _, nl := range nameLens {
			if nl > eff+2 {
				continue
			}
			cc := rng.Intn(2) == 0
			// raw boundary: name+payload = eff-2 .. eff+2
			for d := -2; d <= 2; d++ {
				attempt(nl, eff-nl+d, cc, "raw")
			}
			// encoded boundary: encoded = eff-2 .. eff+2
			for d := -2; d <= 2; d++ {
				// encoded(p) = base + hdr(p) + p is monotonic in p: scan down from the raw boundary
				base := len(wire.Encode(wire.UserEvent, &wire.MsgUserEvent{LTime: lt, Name: c33Name(nl, serial+1), Payload: nil, CC: cc})) - c33BinHdr(0)
				for p := eff - nl + 3; p >= 0 && p >= eff-nl-60; p-- {
					if base+c33BinHdr(p)+p == eff+d {
						attempt(nl, p, cc, "enc")
						break
					}
				}
			}
			attempt(nl, rng.Intn(eff+1), cc, "random")
		}
	})
	if setupErr != "" {
		r.Inconclusive("user event bubble setup failed: " + setupErr)
		return
	}
	c33Report(r, ci, counts, sigs, sample, viols, "user_event_attempts")
}

func c33Report(r *evid.Run, ci int, counts map[string]int, sigs []string, sample any, viols []c33Viol, evalKey string) {
	r.Eval(counts[evalKey])
	for k, v := range counts {
		r.Count(k, v)
	}
	for _, s := range sigs {
		r.Distinct(s)
	}
	if sample != nil {
		r.Sample(sample)
	}
	for _, v := range viols {
		r.Violation(v.key, ci, v.msg, v.w)
	}
}

// ---- user events racing with the event clock (seeded C33-h)
//
// The size of an encoded user event depends on the width of its Lamport time. Several goroutines call
// UserEvent with events that are exactly at (or 1..8 bytes below) the limit for the clock's current width
// while another goroutine delivers a remote event whose Lamport time needs a wider encoding (and the callers
// themselves push the clock over 127 -> 128). Whatever time an accepted event ends up with, what is queued
// for gossip must be within the limit, and a refused event must not be queued.
func c33UserEventsRacing(r *evid.Run, t *testing.T, ci int, rng *rand.Rand) {
	limits := []int{64, 128, 512, 1024, 4096, 9216}
	L := limits[rng.Intn(len(limits))]
	eff := L
	counts := map[string]int{}
	var viols []c33Viol
	var sigs []string
	var setupErr string
	type att struct {
		name      string
		payload   []byte
		predicted int
		err       error
	}
	synctest.Test(t, func(t *testing.T) {
		nw := simnet.New(int64(ci))
		nd, err := cluster.Start(nw, cluster.Opts{Name: "n1", IP: "10.33.0.9", Profile: "passive", Mutate: func(c *serf.Config) { c.UserEventSizeLimit = L }})
		if err != nil {
			setupErr = err.Error()
			return
		}
		defer nd.Close()
		cur := uint64(0) // a Lamport time of the clock's current width
		if rng.Intn(2) == 0 {
			cur = uint64(118 + rng.Intn(9)) // the callers themselves cross 127 -> 128
			nd.NotifyMsg(wire.Encode(wire.UserEvent, &wire.MsgUserEvent{LTime: cur - 1, Name: "warm", Payload: []byte("x")}))
		}
		synctest.Wait()
		nd.DrainBroadcasts()
		jumps := []uint64{200, 60000, 70000, 1 << 33, 1 << 40}
		ji := 0
		serial := 0
		for round := 0; round < 4 && ji < len(jumps); round++ {
			ji += rng.Intn(2)
			if ji >= len(jumps) {
				break
			}
			jump := jumps[ji]
			ji++
			var mu sync.Mutex
			var atts []*att
			var start atomic.Bool
			g := newBGroup()
			nG := 2 + rng.Intn(3)
			for gi := 0; gi < nG; gi++ {
				below := 0
				if gi > 0 {
					below = rng.Intn(9) // 0..8 bytes below the limit: an 8-byte wider time still breaks it
				}
				nl := []int{8, 31, 33, 255}[rng.Intn(4)] // long enough to carry the serial number: names identify attempts
				var mine []*att
				for k := 0; k < 3; k++ {
					serial++
					name := c33Name(nl, serial)
					base := len(wire.Encode(wire.UserEvent, &wire.MsgUserEvent{LTime: cur, Name: name, Payload: nil})) - c33BinHdr(0)
					for p := eff - nl + 3; p >= 0 && p >= eff-nl-80; p-- {
						if base+c33BinHdr(p)+p == eff-below {
							mine = append(mine, &att{name: name, payload: bytes.Repeat([]byte{byte('a' + serial%26)}, p), predicted: eff - below})
							break
						}
					}
				}
				atts = append(atts, mine...)
				spin := rng.Intn(300)
				g.Go(func() {
					for !start.Load() {
					}
					for k := 0; k < spin; k++ {
						_ = start.Load()
					}
					for _, a := range mine {
						e := nd.S.UserEvent(a.name, a.payload, false)
						mu.Lock()
						a.err = e
						mu.Unlock()
					}
				})
			}
			spin := rng.Intn(3000)
			g.Go(func() {
				for !start.Load() {
				}
				for k := 0; k < spin; k++ {
					_ = start.Load()
				}
				nd.NotifyMsg(wire.Encode(wire.UserEvent, &wire.MsgUserEvent{LTime: jump, Name: "remote", Payload: []byte("y")}))
			})
			start.Store(true)
			g.Wait()
			synctest.Wait()
			byName := map[string]*att{}
			for _, a := range atts {
				byName[a.name] = a
			}
			queuedFor := map[string]bool{}
			for _, q := range nd.DrainBroadcasts() {
				if len(q) == 0 || q[0] != wire.UserEvent {
					continue
				}
				var m wire.MsgUserEvent
				if wire.Decode(q[1:], &m) != nil {
					continue
				}
				a := byName[m.Name]
				if a == nil || queuedFor[m.Name] {
					continue
				}
				queuedFor[m.Name] = true
				counts["racing_user_events_queued"]++
				wit := map[string]any{"limit": L, "name_len": len(a.name), "payload_len": len(a.payload), "sized_for_clock": cur, "encoded_for_that_clock": a.predicted, "queued_bytes": len(q), "queued_ltime": m.LTime, "remote_event_ltime": jump, "error": fmt.Sprint(a.err), "callers": nG}
				wide := c33UintLen(m.LTime) > c33UintLen(cur)
				if wide {
					counts["racing_user_events_queued_with_a_wider_time"]++
				}
				if len(q) > eff {
					viols = append(viols, c33Viol{fmt.Sprintf("uev-racing-queued-encoded-over/L=%d", L), fmt.Sprintf("UserEvent racing with the event clock: %d encoded bytes queued > limit %d (sized %d bytes for Lamport time %d, sent with %d)", len(q), eff, a.predicted, cur, m.LTime), wit})
				}
				if a.err != nil {
					viols = append(viols, c33Viol{fmt.Sprintf("uev-racing-rejected-queued/L=%d", L), fmt.Sprintf("UserEvent refused (%v) but queued for gossip", a.err), wit})
				}
				sigs = append(sigs, fmt.Sprintf("uevrace|%d|%s|w%d->w%d", L, c33Off(len(q), eff), c33UintLen(cur), c33UintLen(m.LTime)))
			}
			for _, a := range atts {
				counts["racing_user_event_attempts"]++
				if a.err == nil {
					counts["racing_user_events_accepted"]++
				} else {
					counts["racing_user_events_refused"]++
					sigs = append(sigs, fmt.Sprintf("uevrace|%d|refused|w%d|below%d", L, c33UintLen(cur), eff-a.predicted))
				}
			}
			cur = jump + 1
		}
	})
	if setupErr != "" {
		r.Inconclusive("racing user event bubble setup failed: " + setupErr)
		return
	}
	c33Report(r, ci, counts, sigs, nil, viols, "racing_user_event_attempts")
}

// ---- queries

func c33Queries(r *evid.Run, t *testing.T, ci int, rng *rand.Rand) {
	// (limits below any query's size, zero and negative included: nothing fits, nothing may be sent)
	limits := []int{100, 128, 200, 256, 512, 1024, 2000, 100, 128, 200, 256, 512, 1024, 2000, 0, -1, 10, 30}
	L := limits[rng.Intn(len(limits))]
	nodeName := []string{"n1", "a-much-longer-node-name-0001", "x"}[rng.Intn(3)]
	var viols []c33Viol
	counts := map[string]int{}
	var sigs []string
	var sample any
	var setupErr string
	synctest.Test(t, func(t *testing.T) {
		nw := simnet.New(int64(ci))
		nd, err := cluster.Start(nw, cluster.Opts{Name: nodeName, IP: "10.33.1.1", Profile: "passive", Mutate: func(c *serf.Config) { c.QuerySizeLimit = L }})
		if err != nil {
			setupErr = err.Error()
			return
		}
		defer nd.Close()
		synctest.Wait()
		nd.DrainBroadcasts()
		evSeen := len(nd.Events())
		serial := 0
		type res struct {
			accepted bool
			size     int
			ltime    uint64
		}
		attempt := func(name string, pl int, params *serf.QueryParam, predicted int) res {
			serial++
			payload := bytes.Repeat([]byte{byte('A' + serial%26)}, pl)
			var pcopy *serf.QueryParam
			if params != nil {
				c := *params
				pcopy = &c
			}
			qr, err := nd.S.Query(name, payload, pcopy)
			synctest.Wait()
			stat := nd.S.Stats()["query_queue"]
			var queued [][]byte
			for _, b := range nd.DrainBroadcasts() {
				if len(b) > 0 && b[0] == wire.Query {
					dup := false
					for _, q := range queued {
						if bytes.Equal(q, b) {
							dup = true
						}
					}
					if !dup {
						queued = append(queued, b)
					}
				}
			}
			local := 0
			evs := nd.Events()
			for _, le := range evs[evSeen:] {
				if q, ok := le.E.(*serf.Query); ok && q.Name == name && bytes.Equal(q.Payload, payload) {
					local++
				}
			}
			evSeen = len(evs)
			var sizes []int
			for _, q := range queued {
				sizes = append(sizes, len(q))
			}
			wit := map[string]any{"limit": L, "name": name, "payload_len": pl, "predicted_encoded": predicted, "error": fmt.Sprint(err), "queued_sizes": sizes, "delivered_locally": local, "query_queue": stat}
			class := fmt.Sprintf("L=%d", L)
			counts["query_attempts"]++
			out := res{}
			if err == nil {
				counts["queries_accepted"]++
				out.accepted = true
				for _, q := range queued {
					var m wire.MsgQuery
					if wire.Decode(q[1:], &m) != nil || m.Name != name || !bytes.Equal(m.Payload, payload) {
						viols = append(viols, c33Viol{"query-queued-other/" + class, "a different query was queued for gossip", wit})
						continue
					}
					counts["queries_queued"]++
					out.size, out.ltime = len(q), m.LTime
					if len(q) > L {
						viols = append(viols, c33Viol{"query-queued-over/" + class, fmt.Sprintf("query accepted and queued %d encoded bytes > QuerySizeLimit %d", len(q), L), wit})
					}
					if len(q) == L {
						counts["queries_accepted_exactly_at_limit"]++
					}
					if len(q) == L-1 {
						counts["queries_accepted_at_limit_minus_1"]++
					}
					sigs = append(sigs, fmt.Sprintf("q|%d|%s|%s|%d|acc", L, nodeName, c33Off(len(q), L), len(m.Filters)))
				}
				if len(queued) == 0 {
					counts["queries_accepted_but_not_queued"]++
				}
				if qr != nil {
					qr.Close()
				}
			} else {
				counts["queries_rejected"]++
				if predicted == L+1 {
					counts["queries_rejected_at_predicted_limit_plus_1"]++
				}
				if qr != nil {
					viols = append(viols, c33Viol{"query-rejected-handle/" + class, "Query returned an error and a live QueryResponse", wit})
				}
				if len(queued) != 0 || stat != "0" {
					viols = append(viols, c33Viol{"query-rejected-queued/" + class, fmt.Sprintf("query rejected (%v) but %d message(s) queued for gossip (query_queue=%s)", err, len(queued), stat), wit})
				}
				if local != 0 {
					viols = append(viols, c33Viol{"query-rejected-delivered/" + class, fmt.Sprintf("query rejected (%v) but delivered locally %d times", err, local), wit})
				}
				if predicted > 0 {
					sigs = append(sigs, fmt.Sprintf("q|%d|%s|%s|rej", L, nodeName, c33Off(predicted, L)))
				}
			}
			if sample == nil && err == nil && out.size >= L-2 {
				sample = map[string]any{"kind": "query", "limit": L, "payload_len": pl, "queued_bytes": out.size, "accepted": true}
			}
			return out
		}
		shapes := []struct {
			name   string
			params *serf.QueryParam
		}{
			{"q", nil},
			{"deploy-status", &serf.QueryParam{RequestAck: true, Timeout: time.Second}},
			{"f", &serf.QueryParam{FilterNodes: []string{nodeName, "other"}, Timeout: 2 * time.Second, RelayFactor: 2}},
			{"t", &serf.QueryParam{FilterTags: map[string]string{"role": "^web$"}, RequestAck: true, Timeout: time.Second}},
		}
		for _, sh := range shapes {
			// calibrate the per-shape overhead on the real encoding with an empty payload
			cal := attempt(sh.name, 0, sh.params, 0)
			if !cal.accepted || cal.size == 0 {
				counts["query_shapes_larger_than_limit"]++
				// everything of this shape must be rejected; probe a few sizes anyway
				for _, p := range []int{1, 10, max(L, 0)} {
					attempt(sh.name, p, sh.params, 0)
				}
				continue
			}
			lt := cal.ltime
			pred := func(p int, ltNow uint64) int {
				return cal.size - c33BinHdr(0) - c33UintLen(cal.ltime) + c33BinHdr(p) + p + c33UintLen(ltNow)
			}
			for d := -3; d <= 3; d++ {
				for p := L; p >= 0; p-- {
					if pred(p, lt+1) == L+d {
						if a := attempt(sh.name, p, sh.params, L+d); a.accepted {
							lt = a.ltime
						}
						break
					}
				}
			}
			attempt(sh.name, rng.Intn(L+50), sh.params, 0)
		}
		time.Sleep(5 * time.Second)
	})
	if setupErr != "" {
		r.Inconclusive("query bubble setup failed: " + setupErr)
		return
	}
	c33Report(r, ci, counts, sigs, sample, viols, "query_attempts")
}

// ---- query responses

func c33Responses(r *evid.Run, t *testing.T, ci int, rng *rand.Rand) {
	limits := []int{64, 128, 256, 512, 1024, 4096}
	L := limits[rng.Intn(len(limits))]
	nodeName := []string{"n1", "a-much-longer-node-name-0001", "x"}[rng.Intn(3)]
	np := 1 + rng.Intn(4)
	var viols []c33Viol
	counts := map[string]int{}
	var sigs []string
	var sample any
	var setupErr string
	synctest.Test(t, func(t *testing.T) {
		nw := simnet.New(int64(ci))
		nd, err := cluster.Start(nw, cluster.Opts{Name: nodeName, IP: "10.33.2.1", Profile: "passive", Mutate: func(c *serf.Config) { c.QueryResponseSizeLimit = L }})
		if err != nil {
			setupErr = err.Error()
			return
		}
		defer nd.Close()
		var pups []*cluster.Puppet
		for i := 0; i < np; i++ {
			p, err := cluster.StartPuppet(nw, cluster.PuppetOpts{Name: fmt.Sprintf("p%d", i), IP: fmt.Sprintf("10.33.2.%d", 10+i), Profile: "passive"})
			if err != nil {
				setupErr = err.Error()
				return
			}
			defer p.Close()
			if _, err := p.ML.Join([]string{nd.Addr}); err != nil {
				setupErr = err.Error()
				return
			}
			pups = append(pups, p)
		}
		synctest.Wait()
		origin := pups[0]
		seen := make([]int, np)
		evSeen := len(nd.Events())
		lt := uint64(1 + rng.Intn(200))
		// observe collects what arrived at the puppets since the last call
		type got struct {
			direct  []int // raw sizes of direct responses at the origin
			relayed []int // raw sizes of relay envelopes anywhere
			inner   []int
		}
		observe := func(ltime uint64, id uint32) got {
			var g got
			for i, p := range pups {
				msgs := p.Received()
				for _, b := range msgs[seen[i]:] {
					if len(b) == 0 {
						continue
					}
					switch b[0] {
					case wire.QueryResponse:
						var m wire.MsgQueryResponse
						if wire.Decode(b[1:], &m) == nil && m.LTime == ltime && m.ID == id && m.Flags&wire.FlagAck == 0 {
							g.direct = append(g.direct, len(b))
						}
					case wire.Relay:
						if _, inner, err := wire.DecodeRelay(b); err == nil && len(inner) > 0 && inner[0] == wire.QueryResponse {
							var m wire.MsgQueryResponse
							if wire.Decode(inner[1:], &m) == nil && m.LTime == ltime && m.ID == id && m.Flags&wire.FlagAck == 0 {
								g.relayed = append(g.relayed, len(b))
								g.inner = append(g.inner, len(inner))
							}
						}
					}
				}
				seen[i] = len(msgs)
			}
			return g
		}
		ids := []uint32{5, 200, 70000, 1 << 31}
		for round := 0; round < 6; round++ {
			for d := -2; d <= 2; d++ {
				lt += uint64(1 + rng.Intn(2))
				id := ids[rng.Intn(len(ids))]
				k := uint8(0)
				if rng.Intn(3) == 0 {
					k = uint8(1 + rng.Intn(np+1))
				}
				qm := &wire.MsgQuery{LTime: lt, ID: id, Addr: []byte(origin.Tr.IP().To4()), Port: uint16(origin.Tr.Port()), SourceNode: origin.Name,
					RelayFactor: k, Timeout: 10 * time.Second, Name: "ask", Payload: []byte{byte(round)}}
				_ = origin.Send(nd.Addr, nd.Name, wire.Encode(wire.Query, qm))
				synctest.Wait()
				var q *serf.Query
				evs := nd.Events()
				for _, le := range evs[evSeen:] {
					if sq, ok := le.E.(*serf.Query); ok && uint64(sq.LTime) == lt {
						q = sq
					}
				}
				evSeen = len(evs)
				if q == nil {
					counts["queries_not_delivered_to_node"]++
					continue
				}
				// payload length so that the encoded response is L+d bytes (own encoding; verified on the wire)
				base := len(wire.Encode(wire.QueryResponse, &wire.MsgQueryResponse{LTime: lt, ID: id, From: nodeName})) - c33BinHdr(0)
				// with a relay factor, half of the attempts aim the relay envelope at the limit instead
				target := "direct"
				envExtra := 0
				if k > 0 && rng.Intn(2) == 0 {
					target = "envelope"
					dest := net.UDPAddr{IP: origin.Tr.IP().To4(), Port: origin.Tr.Port()}
					envExtra = len(wire.EncodeRelay(dest, origin.Name, []byte{wire.QueryResponse})) - 1
				}
				pl := -1
				for p := L + 3; p >= 0; p-- {
					if base+c33BinHdr(p)+p+envExtra == L+d {
						pl = p
						break
					}
				}
				counts["targets_"+target]++
				if pl < 0 {
					counts["response_size_not_reachable"]++
					continue
				}
				tries := []int{pl}
				if d > 0 && pl-d >= 0 && rng.Intn(2) == 0 { // a rejected attempt may be retried with a smaller payload
					tries = []int{pl, pl - d}
				}
				for ti, p := range tries {
					payload := bytes.Repeat([]byte{'r'}, p)
					err := q.Respond(payload)
					synctest.Wait()
					g := observe(lt, id)
					predicted := base + c33BinHdr(p) + p
					wit := map[string]any{"limit": L, "node": nodeName, "relay_factor": k, "members": np + 1, "payload_len": p, "predicted_encoded": predicted, "error": fmt.Sprint(err), "direct_sizes": g.direct, "relay_envelope_sizes": g.relayed, "relayed_inner_sizes": g.inner}
					class := fmt.Sprintf("L=%d", L)
					counts["respond_attempts"]++
					for _, s := range g.direct {
						counts["responses_observed_at_origin"]++
						if s > L {
							viols = append(viols, c33Viol{"resp-over/" + class, fmt.Sprintf("query response of %d bytes > QueryResponseSizeLimit %d arrived at the origin (Respond error: %v)", s, L, err), wit})
						}
						if s == L {
							counts["responses_sent_exactly_at_limit"]++
						}
						if s == L-1 {
							counts["responses_sent_at_limit_minus_1"]++
						}
					}
					for i, s := range g.relayed {
						counts["relay_envelopes_observed"]++
						if g.inner[i] > L {
							viols = append(viols, c33Viol{"resp-relayed-inner-over/" + class, fmt.Sprintf("relayed query response of %d bytes > limit %d", g.inner[i], L), wit})
						}
						if s > L {
							viols = append(viols, c33Viol{"resp-relay-envelope-over/" + class, fmt.Sprintf("relay message of %d bytes > QueryResponseSizeLimit %d was sent", s, L), wit})
						}
						if s == L {
							counts["relay_envelopes_exactly_at_limit"]++
						}
					}
					if err != nil {
						counts["responds_rejected"]++
						if predicted == L+1 {
							counts["responds_rejected_at_limit_plus_1"]++
						}
						if strings.Contains(err.Error(), "response exceeds limit") && !strings.Contains(err.Error(), "relayed") && len(g.direct)+len(g.relayed) != 0 {
							viols = append(viols, c33Viol{"resp-rejected-sent/" + class, fmt.Sprintf("Respond rejected the payload (%v) but %d message(s) were sent", err, len(g.direct)+len(g.relayed)), wit})
						}
					} else {
						counts["responds_accepted"]++
						if len(g.direct) == 0 {
							counts["responds_accepted_but_nothing_at_origin"]++
						}
					}
					sigs = append(sigs, fmt.Sprintf("r|%d|%s|%s|%s|%d|%d|%v|%d", L, nodeName, target, c33Off(predicted+envExtra, L), k, np, err == nil, ti))
					if sample == nil && err == nil && len(g.direct) > 0 && d == 0 {
						sample = map[string]any{"kind": "response", "limit": L, "payload_len": p, "bytes_at_origin": g.direct, "relay_envelopes": g.relayed}
					}
				}
			}
		}
		time.Sleep(15 * time.Second)
	})
	if setupErr != "" {
		r.Inconclusive("response bubble setup failed: " + setupErr)
		return
	}
	c33Report(r, ci, counts, sigs, sample, viols, "respond_attempts")
}

func TestC33(t *testing.T) {
	r := evid.Start(t, "C33", "exploration")
	r.Cases("uev", r.N(240, 5000), 0, func(ci int, rng *rand.Rand) { c33UserEvents(r, t, ci, rng) })
	r.Cases("uevrace", r.N(200, 5000), 0, func(ci int, rng *rand.Rand) { c33UserEventsRacing(r, t, ci, rng) })
	r.Cases("query", r.N(300, 6000), 0, func(ci int, rng *rand.Rand) { c33Queries(r, t, ci, rng) })
	r.Cases("resp", r.N(300, 6000), 0, func(ci int, rng *rand.Rand) { c33Responses(r, t, ci, rng) })
	for _, k := range []string{"user_events_accepted_exactly_at_limit", "user_events_rejected_at_limit_plus_1", "queries_accepted_exactly_at_limit", "queries_rejected_at_predicted_limit_plus_1", "responses_sent_exactly_at_limit", "responds_rejected_at_limit_plus_1", "relay_envelopes_exactly_at_limit"} {
		if r.Counter(k) < int64(r.N(60, 500)) {
			r.Inconclusive(fmt.Sprintf("boundary class %s observed only %d times", k, r.Counter(k)))
		}
	}
	r.Finish("boundary search around every limit: UserEvent with configured limits 64..9216 (and 9217/12000, which Create refuses) x 9 name lengths x {name+payload, encoded size} at limit-2..limit+2 x Lamport time widths; Query with QuerySizeLimit 100..2000 (and -1, 0, 10, 30, below any query's size) x 4 parameter shapes x encoded size limit-3..limit+3 (overhead calibrated on the node's own encoding); Query.Respond with QueryResponseSizeLimit 64..4096 x ids/Lamport widths x encoded size limit-2..limit+2, relay factor 0..members. Sizes are taken from the bytes drained from the node's broadcast queues and received by puppets. Non-trivial = every attempt; distinct by (limit, shape, offset from the limit, outcome)",
		r.N(1500, 4000),
		"'sent' for user events and queries is observed as 'queued for gossip' (passive memberlist; the harness drains the queues), for responses as packets received by puppets",
		"acks are not query responses in the sense of the statement and are not checked against QueryResponseSizeLimit; relay envelopes are")
}
