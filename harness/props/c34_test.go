package props

import (
	"fmt"
	"math/rand"
	"os"
	"sort"
	"strings"
	"sync"
	"sync/atomic"
	"testing"
	"testing/synctest"
	"time"

	"github.com/hashicorp/serf/serf"

	"verif/harness/cluster"
	"verif/harness/evid"
	"verif/harness/simnet"
	"verif/harness/wire"
)

// C34: the lifecycle state of a node only moves forward.
//
// One real node (plus one real peer that Join can reach and one injected alive
// member, so that Leave really broadcasts and takes virtual time) receives 2-7
// lifecycle calls (Join, Leave, Shutdown) from separate goroutines at chosen
// virtual instants - several at the same instant run truly concurrently - while
// pollers read State(). Every call, return and poll is stamped from one atomic
// counter; the history is judged offline.

type c34Op struct {
	Kind        string        // join | leave | shutdown
	At          time.Duration // virtual offset of the call
	call, ret   int64         // stamps
	Err         string
	OK          bool
	Panic       string
	N           int
	Empty       int // join only: 0 = the peer's address, 1 = nil address list, 2 = empty address list
	returned    bool
	retVirtual  time.Duration
	callVirtual time.Duration
}

type c34Poll struct {
	call, ret int64
	state     serf.SerfState
	at        time.Duration
}

func c34Rank(s serf.SerfState) int {
	switch s {
	case serf.SerfAlive:
		return 0
	case serf.SerfLeaving:
		return 1
	case serf.SerfLeft:
		return 2
	case serf.SerfShutdown:
		return 3
	}
	return -1
}

// c34Tight: lifecycle calls released at the same instant by a spin barrier with sub-microsecond
// skew, on a fresh node per trial, in real time and in a build without the race detector (whose
// scheduling hides these windows): several Shutdown calls at once, or Leave against Shutdown,
// with pollers reading State() all the time.
func c34Tight(rng *rand.Rand, seq int) (viols [][2]string, stats map[string]int) {
	stats = map[string]int{}
	nw := simnet.New(int64(seq))
	for trial := 0; trial < 400; trial++ {
		nd, err := cluster.Start(nw, cluster.Opts{Name: fmt.Sprintf("t%d-%d", seq, trial), IP: fmt.Sprintf("10.34.%d.%d", seq%200, trial%250+1), Profile: "passive",
			Mutate: func(c *serf.Config) { c.BroadcastTimeout, c.LeavePropagateDelay = 2*time.Millisecond, time.Millisecond }})
		if err != nil {
			return append(viols, [2]string{"setup", err.Error()}), stats
		}
		kind := []string{"shutdown-x4", "leave-vs-shutdown", "leave-vs-shutdown"}[rng.Intn(3)]
		var calls []string
		switch kind {
		case "shutdown-x4":
			calls = []string{"shutdown", "shutdown", "shutdown", "shutdown"}
		default:
			calls = []string{"leave", "shutdown"}
		}
		var start, stop atomic.Bool
		var backwards atomic.Value
		pg := newBGroup()
		for w := 0; w < 2; w++ {
			pg.Go(func() {
				best := -1
				for !stop.Load() {
					st := nd.S.State()
					if rk := c34Rank(st); rk < best {
						backwards.CompareAndSwap(nil, fmt.Sprintf("State() returned %v after a poller had seen rank %d", st, best))
					} else {
						best = rk
					}
				}
			})
		}
		type outcome struct {
			kind, err, panicked string
		}
		outs := make([]outcome, len(calls))
		g := newBGroup()
		for i, c := range calls {
			i, c := i, c
			spin := rng.Intn(400)
			g.Go(func() {
				defer func() {
					if p := recover(); p != nil {
						outs[i].panicked = fmt.Sprint(p)
					}
				}()
				outs[i].kind = c
				for !start.Load() {
				}
				for k := 0; k < spin; k++ {
					_ = start.Load()
				}
				var err error
				if c == "leave" {
					err = nd.S.Leave()
				} else {
					err = nd.S.Shutdown()
				}
				if err != nil {
					outs[i].err = err.Error()
				}
			})
		}
		start.Store(true)
		g.Wait()
		final := nd.S.State()
		stop.Store(true)
		pg.Wait()
		stats["tight_trials_"+kind]++
		for _, o := range outs {
			switch {
			case o.panicked != "" && o.kind == "leave" && strings.Contains(o.panicked, "leave after shutdown"):
				viols = append(viols, [2]string{"panic-leave-after-shutdown/shutdown-during-leave", fmt.Sprintf("%s: Leave panicked: %s", kind, o.panicked)})
			case o.panicked != "":
				viols = append(viols, [2]string{"panic/" + o.kind + "/simultaneous", fmt.Sprintf("%s released at the same instant: %s panicked: %s", kind, o.kind, o.panicked)})
			case o.kind == "shutdown" && o.err != "":
				viols = append(viols, [2]string{"shutdown-failed/simultaneous", fmt.Sprintf("%s released at the same instant: Shutdown returned %q", kind, o.err)})
			}
		}
		if final != serf.SerfShutdown {
			viols = append(viols, [2]string{"not-shutdown-after-shutdown/simultaneous", fmt.Sprintf("%s released at the same instant: every call has returned (Shutdown among them) and State() is %v", kind, final)})
		}
		if b := backwards.Load(); b != nil {
			viols = append(viols, [2]string{"state-went-backwards/simultaneous", fmt.Sprintf("%s released at the same instant: %s", kind, b)})
		}
		func() {
			// (Close = one more Shutdown: it must be a no-op by now)
			defer func() {
				if p := recover(); p != nil {
					viols = append(viols, [2]string{"panic/shutdown/repeated", fmt.Sprintf("%s released at the same instant, all calls returned with State() %v: a further Shutdown panicked: %v", kind, final, p)})
				}
			}()
			nd.Close()
		}()
		if len(viols) > 0 {
			// a listed known finding does not end the campaign, anything else does
			only := true
			for _, v := range viols {
				if v[0] != "panic-leave-after-shutdown/shutdown-during-leave" {
					only = false
				}
			}
			if !only {
				return
			}
		}
	}
	return
}

func TestC34(t *testing.T) {
	r := evid.Start(t, "C34", "exploration")
	if os.Getenv("VERIF_PHASE") == "plain" {
		r.Cases("tight", r.N(32, 800), 4, func(ci int, rng *rand.Rand) {
			viols, stats := c34Tight(rng, ci)
			r.Eval(1)
			for k, v := range stats {
				r.Count(k, v)
			}
			for _, v := range viols {
				r.Violation(v[0], ci, v[1], v[1])
			}
		})
		r.Finish("tight phase (plain build, real time): fresh node per trial, four Shutdown calls or Leave against Shutdown released by a spin barrier with sub-microsecond skew, two pollers reading State()", 0)
		return
	}
	n := r.N(500, 15000)
	instants := []time.Duration{0, 0, 0, time.Millisecond, 500 * time.Millisecond, 2 * time.Second, 4999 * time.Millisecond, 5 * time.Second, 5001 * time.Millisecond, 5900 * time.Millisecond, 6 * time.Second, 6001 * time.Millisecond, 9 * time.Second}

	r.Cases("round", n, 0, func(ci int, rng *rand.Rand) {
		// ---- schedule
		nops := 2 + rng.Intn(6)
		ops := make([]*c34Op, nops)
		kinds := []string{"join", "leave", "leave", "shutdown", "shutdown"}
		for i := range ops {
			o := &c34Op{Kind: kinds[rng.Intn(len(kinds))]}
			if o.Kind == "join" && rng.Intn(3) == 0 {
				o.Empty = 1 + rng.Intn(2) // nothing to contact: still a join, refused once a leave or shutdown has begun
			}
			switch rng.Intn(3) {
			case 0:
				o.At = instants[rng.Intn(len(instants))]
			case 1:
				o.At = time.Duration(rng.Intn(9000)) * time.Millisecond
			default:
				if i > 0 {
					o.At = ops[rng.Intn(i)].At // same instant as an earlier call: real concurrency
				}
			}
			ops[i] = o
		}
		profile := []string{"passive", "passive", "lan"}[rng.Intn(3)]
		withMember := rng.Intn(4) != 0
		var polls []c34Poll
		var pmu sync.Mutex
		var stamp atomic.Int64
		var setupErr string
		var finalState serf.SerfState

		synctest.Test(t, func(t *testing.T) {
			nw := simnet.New(int64(ci))
			ip := fmt.Sprintf("10.34.%d.", ci%250)
			mut := func(c *serf.Config) { c.ReapInterval = time.Hour }
			nd, err := cluster.Start(nw, cluster.Opts{Name: fmt.Sprintf("n-%d", ci), IP: ip + "1", Profile: profile, Mutate: mut})
			if err != nil {
				setupErr = err.Error()
				return
			}
			peer, err := cluster.Start(nw, cluster.Opts{Name: fmt.Sprintf("peer-%d", ci), IP: ip + "2", Profile: profile, Mutate: mut})
			if err != nil {
				nd.Close()
				setupErr = err.Error()
				return
			}
			defer func() {
				nd.Close()
				peer.Close()
				time.Sleep(3 * time.Minute) // let timed waits of stopped instances run out (virtual)
			}()
			if withMember {
				nd.NotifyJoin(cluster.FakeNode("ghost", ip+"9", 7946, wire.EncodeTags(map[string]string{"role": "g"})))
			}
			synctest.Wait()
			t0 := time.Now()
			poll := func() {
				c := stamp.Add(1)
				s := nd.S.State()
				rt := stamp.Add(1)
				pmu.Lock()
				polls = append(polls, c34Poll{c, rt, s, time.Since(t0)})
				pmu.Unlock()
			}
			g := newBGroup()
			stop := make(chan struct{})
			for p := 0; p < 2; p++ {
				period := time.Duration(1+rng.Intn(400)) * time.Millisecond
				g.Go(func() {
					for {
						poll()
						select {
						case <-stop:
							return
						case <-time.After(period):
						}
					}
				})
			}
			calls := newBGroup()
			for _, o := range ops {
				o := o
				calls.Go(func() {
					time.Sleep(o.At)
					poll()
					defer func() {
						if p := recover(); p != nil {
							o.Panic = fmt.Sprint(p)
							o.ret = stamp.Add(1)
							o.retVirtual = time.Since(t0)
						}
						poll()
					}()
					o.callVirtual = time.Since(t0)
					o.call = stamp.Add(1)
					var err error
					switch o.Kind {
					case "join":
						switch o.Empty {
						case 1:
							o.N, err = nd.S.Join(nil, false)
						case 2:
							o.N, err = nd.S.Join([]string{}, false)
						default:
							o.N, err = nd.S.Join([]string{peer.Addr}, false)
						}
					case "leave":
						err = nd.S.Leave()
					case "shutdown":
						err = nd.S.Shutdown()
					}
					o.ret = stamp.Add(1)
					o.retVirtual = time.Since(t0)
					o.returned = true
					o.OK = err == nil
					if err != nil {
						o.Err = err.Error()
					}
				})
			}
			calls.Wait()
			time.Sleep(8 * time.Second)
			close(stop)
			g.Wait()
			poll()
			finalState = nd.S.State()
		})

		r.Eval(1)
		if setupErr != "" {
			r.Count("setup_errors", 1)
			return
		}
		// ---- offline judgement
		sort.Slice(polls, func(i, j int) bool { return polls[i].call < polls[j].call })
		var hist []string
		for _, o := range ops {
			res := "ok"
			if o.Panic != "" {
				res = "PANIC " + o.Panic
			} else if !o.OK {
				res = "err " + o.Err
			}
			kind := o.Kind
			if o.Empty != 0 {
				kind += []string{"", "(nil)", "([])"}[o.Empty]
			}
			hist = append(hist, fmt.Sprintf("%s@%v[%d..%d, returned at %v]=%s", kind, o.At, o.call, o.ret, o.retVirtual, res))
		}
		witness := map[string]any{"profile": profile, "alive_member": withMember, "calls": hist}
		viol := func(key, msg string) { r.Violation(key, ci, msg+" | calls: "+strings.Join(hist, "; "), witness) }
		overlaps := func(a, b *c34Op) bool { return a.call < b.ret && b.call < a.ret }

		// 1. reported state only moves forward
		seenStates := map[serf.SerfState]bool{}
		type hi struct {
			ret  int64
			rank int
			p    c34Poll
		}
		var done []hi // polls by return stamp
		for _, p := range polls {
			seenStates[p.state] = true
			done = append(done, hi{p.ret, c34Rank(p.state), p})
		}
		sort.Slice(done, func(i, j int) bool { return done[i].ret < done[j].ret })
		k, best := 0, hi{rank: -1}
		for _, p := range polls {
			for k < len(done) && done[k].ret < p.call {
				if done[k].rank > best.rank {
					best = done[k]
				}
				k++
			}
			if c34Rank(p.state) < best.rank {
				viol("state-moved-backwards/"+best.p.state.String()+"-to-"+p.state.String(), fmt.Sprintf("State() returned %v at %v (stamps %d..%d) after a call that had returned %v at %v (stamps %d..%d)",
					p.state, p.at, p.call, p.ret, best.p.state, best.p.at, best.p.call, best.p.ret))
				break
			}
		}
		r.Count("state_polls", len(polls))
		// rank of the highest state some poll had returned before stamp s
		observedBefore := func(s int64) (int, c34Poll) {
			b, bp := -1, c34Poll{}
			for _, d := range done {
				if d.ret < s && d.rank > b {
					b, bp = d.rank, d.p
				}
			}
			return b, bp
		}
		anyShutdown, anyLeaveOK := false, false
		for _, o := range ops {
			r.Count("calls_"+o.Kind, 1)
			if o.Panic != "" {
				key := "panic/" + o.Kind
				if o.Kind == "leave" && strings.Contains(o.Panic, "leave after shutdown") {
					for _, s := range ops {
						if s.Kind == "shutdown" && overlaps(s, o) {
							key = "panic-leave-after-shutdown/shutdown-during-leave"
						}
					}
				}
				viol(key, fmt.Sprintf("%s called at %v panicked: %s", o.Kind, o.callVirtual, o.Panic))
				continue
			}
			switch o.Kind {
			case "shutdown":
				anyShutdown = true
				if !o.OK {
					viol("shutdown-failed", fmt.Sprintf("Shutdown called at %v returned %q", o.callVirtual, o.Err))
				}
				for _, p := range polls {
					if p.call > o.ret && p.state != serf.SerfShutdown {
						viol("not-shutdown-after-shutdown", fmt.Sprintf("State() returned %v at %v after Shutdown had returned at %v", p.state, p.at, o.retVirtual))
						break
					}
				}
			case "leave":
				if o.OK {
					anyLeaveOK = true
				}
				// a leave after a completed leave succeeds (unless a shutdown may have got in between)
				for _, prev := range ops {
					if prev.Kind != "leave" || !prev.OK || prev.ret > o.call || prev == o {
						continue
					}
					shut := false
					for _, s := range ops {
						if s.Kind == "shutdown" && s.call < o.ret {
							shut = true
						}
					}
					if shut {
						r.Count("repeated_leave_with_shutdown_in_between_skipped", 1)
						continue
					}
					r.Count("repeated_leave_checked", 1)
					if !o.OK {
						viol("leave-after-completed-leave-failed", fmt.Sprintf("Leave called at %v after a Leave had completed at %v returned %q", o.callVirtual, prev.retVirtual, o.Err))
					}
					break
				}
			case "join":
				if rank, p := observedBefore(o.call); rank >= 1 {
					r.Count("joins_after_observed_departure", 1)
					if o.Empty != 0 {
						r.Count("joins_with_empty_address_list_after_observed_departure", 1)
					}
					if o.OK || o.N > 0 {
						viol("join-accepted-after-"+p.state.String(), fmt.Sprintf("Join called at %v returned (n=%d, err=%q) although State() had returned %v at %v before the call", o.callVirtual, o.N, o.Err, p.state, p.at))
					}
				} else if o.OK {
					r.Count("joins_accepted_while_alive", 1)
				}
				for _, prev := range ops {
					if prev != o && prev.ret < o.call && prev.OK && (prev.Kind == "leave" || prev.Kind == "shutdown") && (o.OK || o.N > 0) {
						viol("join-accepted-after-completed-"+prev.Kind, fmt.Sprintf("Join called at %v succeeded although %s had completed at %v", o.callVirtual, prev.Kind, prev.retVirtual))
						break
					}
				}
			}
		}
		// 3. where it ends
		if anyShutdown && finalState != serf.SerfShutdown {
			viol("final-state", fmt.Sprintf("final state %v although Shutdown was called", finalState))
		}
		if !anyShutdown && anyLeaveOK && finalState != serf.SerfLeft {
			viol("final-state", fmt.Sprintf("final state %v although a Leave completed and nobody shut down", finalState))
		}
		r.Count("final_"+finalState.String(), 1)
		for s := range seenStates {
			r.Count("rounds_observing_"+s.String(), 1)
		}
		conc := 0
		for i, a := range ops {
			for _, b := range ops[i+1:] {
				if overlaps(a, b) {
					conc++
					x, y := a.Kind, b.Kind
					if x > y {
						x, y = y, x
					}
					r.Count("overlapping_"+x+"_"+y, 1)
				}
			}
		}
		if conc > 0 && len(seenStates) >= 2 {
			var sg []string
			for _, o := range ops {
				sg = append(sg, fmt.Sprintf("%s@%v", o.Kind, o.At))
			}
			r.Distinct(profile + fmt.Sprint(withMember) + strings.Join(sg, ","))
		}
		if ci < 3 {
			r.Sample(witness)
		}
	})
	if r.Counter("setup_errors") > 0 {
		r.Inconclusive(fmt.Sprintf("%d rounds could not be set up", r.Counter("setup_errors")))
	}
	for _, k := range []string{"rounds_observing_leaving", "rounds_observing_left", "rounds_observing_shutdown", "repeated_leave_checked", "joins_after_observed_departure", "overlapping_leave_shutdown"} {
		if r.Counter(k) == 0 {
			r.Inconclusive("nothing observed for " + k)
		}
	}
	r.Finish("one round = one real node (passive or lan memberlist on simnet, one real peer, usually one more alive member) receiving 2-7 Join/Leave/Shutdown calls from separate goroutines at virtual instants chosen around the leave timeline (same instant = real concurrency; 5 s broadcast timeout, 1 s propagate delay) while two pollers read State(); non-trivial = at least two calls overlapped and at least two different states were observed; distinct = different profile and call schedule",
		r.N(150, 4000),
		"stamps come from one atomic counter; 'before' means returned-before-called",
		"Join refusal is only demanded when a State() poll (or a completed Leave/Shutdown) had shown the departure before the Join call began",
		"a repeated Leave is only judged when no Shutdown call had begun before it returned (Leave after Shutdown is documented to fail)",
	)
}
