package props

import (
	"fmt"
	"math/rand"
	"os"
	"path/filepath"
	"runtime"
	"strings"
	"sync/atomic"
	"testing"
	"testing/synctest"
	"time"

	"github.com/hashicorp/memberlist"
	"github.com/hashicorp/serf/serf"

	"verif/harness/cluster"
	"verif/harness/evid"
	"verif/harness/simnet"
	"verif/harness/wire"
)

// C16: applications see each member's events in the order they happened.
//
// One real node with every combination of snapshot / member coalescing / user
// coalescing. Everything that changes one member (memberlist notifications and
// intents about it) is issued by one goroutine per member, so the order of that
// member's status changes at the node is known; notifications are serialised
// across members as memberlist does (cluster.Node), everything else runs
// concurrently together with user events and internal queries. Every join and
// update carries a unique tag version, so each (kind, version) occurs at most
// once per member and the received sequence can be matched unambiguously.

type c16Ev struct {
	Kind string // join | update | failed | leave
	V    string
}

func (e c16Ev) String() string { return e.Kind + "(" + e.V + ")" }

func c16Kind(t serf.EventType) string {
	switch t {
	case serf.EventMemberJoin:
		return "join"
	case serf.EventMemberUpdate:
		return "update"
	case serf.EventMemberFailed:
		return "failed"
	case serf.EventMemberLeave:
		return "leave"
	case serf.EventMemberReap:
		return "reap"
	}
	return "?"
}

// c16Racing: memberlist reports a member dead on its notification goroutine while the
// member's own leave intent (or an operator's force-leave) about it is handled on the packet
// goroutine - two goroutines changing the same member, which the real program does have.
// Whichever of the two is applied first, the member ends up left and the application must
// see either [failed, leave] or just [leave]: the last event has to agree with the final status.
// Real time, no bubble (the point is the scheduler's interleaving of two tiny critical sections).
func c16Racing(rng *rand.Rand, seq int) (viols []string, stats map[string]int) {
	stats = map[string]int{}
	nw := simnet.New(int64(seq))
	nd, err := cluster.Start(nw, cluster.Opts{Name: fmt.Sprintf("racer-%d", seq), IP: "10.16.0.1", Profile: "passive", Mutate: func(c *serf.Config) {
		c.ReapInterval = 100 * time.Hour
	}})
	if err != nil {
		return []string{"setup: " + err.Error()}, stats
	}
	defer nd.Close()
	const members = 8
	for round := 0; round < 40 && len(viols) == 0; round++ {
		names := make([]string, members)
		for i := range names {
			names[i] = fmt.Sprintf("r%d-m%d", round, i)
			nd.NotifyJoin(cluster.FakeNode(names[i], fmt.Sprintf("10.17.%d.%d", round%250, i+1), 7946, nil))
		}
		var start atomic.Bool
		g := newBGroup()
		for i := range names {
			i := i
			intent := wire.Encode(wire.Leave, &wire.MsgLeave{LTime: uint64(1000 + round), Node: names[i]})
			fn := cluster.FakeNode(names[i], fmt.Sprintf("10.17.%d.%d", round%250, i+1), 7946, nil)
			spin := rng.Intn(200)
			first := rng.Intn(2)
			g.Go(func() {
				for !start.Load() {
				}
				if first == 0 {
					for k := 0; k < spin; k++ {
						_ = start.Load()
					}
				}
				nd.NotifyLeave(fn) // notifications stay serialised among themselves, as memberlist does
			})
			g.Go(func() {
				for !start.Load() {
				}
				if first == 1 {
					for k := 0; k < spin; k++ {
						_ = start.Load()
					}
				}
				nd.NotifyMsg(intent)
			})
		}
		start.Store(true)
		g.Wait()
		// a marker travels through the same event pipeline after everything the handlers sent:
		// once it is logged, every event of this round is logged (FIFO all the way)
		marker := fmt.Sprintf("marker-%d-%d", seq, round)
		if err := nd.S.UserEvent(marker, nil, false); err != nil {
			return []string{"setup: marker event: " + err.Error()}, stats
		}
		deadline := time.Now().Add(60 * time.Second)
		for {
			got := map[string][]string{}
			seen := false
			for _, le := range nd.Events() {
				switch e := le.E.(type) {
				case serf.MemberEvent:
					for _, m := range e.Members {
						if strings.HasPrefix(m.Name, fmt.Sprintf("r%d-", round)) && e.Type != serf.EventMemberJoin {
							got[m.Name] = append(got[m.Name], c16Kind(e.Type))
						}
					}
				case serf.UserEvent:
					if e.Name == marker {
						seen = true
					}
				}
			}
			if !seen {
				if time.Now().After(deadline) {
					stats["racing_watchdog"]++
					return viols, stats
				}
				time.Sleep(200 * time.Microsecond)
				continue
			}
			status := map[string]serf.MemberStatus{}
			for _, m := range nd.S.Members() {
				status[m.Name] = m.Status
			}
			for _, n := range names {
				stats["racing_pairs"]++
				seqs := strings.Join(got[n], ",")
				stats["racing_sequence_"+seqs]++
				if status[n] != serf.StatusLeft {
					viols = append(viols, fmt.Sprintf("member %s: dead notification and leave intent handled concurrently, final status %v (events %v)", n, status[n], got[n]))
				} else if seqs != "leave" && seqs != "failed,leave" {
					viols = append(viols, fmt.Sprintf("member %s: dead notification and leave intent handled concurrently: the application saw %v while the member is %v (the last event must be the leave)", n, got[n], status[n]))
				}
			}
			break
		}
	}
	// erasing a departed member: the force-leave with prune turns a failed member into a left one
	// and then erases it, and the application must see it in that order: failed, leave, reap
	for k := 0; k < 6 && len(viols) == 0; k++ {
		name := fmt.Sprintf("pr-m%d", k)
		fn := cluster.FakeNode(name, fmt.Sprintf("10.18.0.%d", k+1), 7946, nil)
		nd.NotifyJoin(fn)
		want := "failed,leave,reap"
		if k%2 == 0 {
			nd.NotifyLeave(fn) // crashed
		} else {
			nd.NotifyMsg(wire.Encode(wire.Leave, &wire.MsgLeave{LTime: uint64(5000 + 10*k), Node: name}))
			nd.NotifyLeave(fn) // left gracefully
			want = "leave,reap"
		}
		if k >= 4 {
			if err := nd.S.RemoveFailedNodePrune(name); err != nil {
				viols = append(viols, "RemoveFailedNodePrune: "+err.Error())
			}
		} else {
			nd.NotifyMsg(wire.Encode(wire.Leave, &wire.MsgLeave{LTime: uint64(5005 + 10*k), Node: name, Prune: true}))
		}
		marker := fmt.Sprintf("marker-prune-%d-%d", seq, k)
		if err := nd.S.UserEvent(marker, nil, false); err != nil {
			return []string{"setup: marker event: " + err.Error()}, stats
		}
		deadline := time.Now().Add(60 * time.Second)
		for {
			var got []string
			seen := false
			for _, le := range nd.Events() {
				switch e := le.E.(type) {
				case serf.MemberEvent:
					for _, m := range e.Members {
						if m.Name == name && e.Type != serf.EventMemberJoin {
							got = append(got, c16Kind(e.Type))
						}
					}
				case serf.UserEvent:
					if e.Name == marker {
						seen = true
					}
				}
			}
			if !seen {
				if time.Now().After(deadline) {
					stats["racing_watchdog"]++
					return viols, stats
				}
				time.Sleep(200 * time.Microsecond)
				continue
			}
			stats["prune_sequences"]++
			if strings.Join(got, ",") != want {
				viols = append(viols, fmt.Sprintf("member %s departed and was then force-left with prune: the application saw %v, the order of what happened is [%s]", name, got, want))
			}
			break
		}
	}
	return
}

// c16Burst: one member flaps faster than the application reads (event channel of 4 slots,
// consumer slower than the producer), so every channel between serf and the application runs
// full. Nothing may overtake: the application sees join(v1), failed, join(v2), failed, ... in
// exactly that order.
func c16Burst(rng *rand.Rand, seq int) (viol string, stats map[string]int) {
	stats = map[string]int{}
	nw := simnet.New(int64(seq))
	nd, err := cluster.Start(nw, cluster.Opts{Name: fmt.Sprintf("burst-%d", seq), IP: "10.16.1.1", Profile: "passive", NoDrain: true, EventBuf: 4,
		Mutate: func(c *serf.Config) { c.ReapInterval = 100 * time.Hour }})
	if err != nil {
		return "setup: " + err.Error(), stats
	}
	flaps := 1500
	type ev struct {
		kind string
		v    string
	}
	var got []ev
	done := make(chan struct{})
	go func() {
		defer close(done)
		n := 0
		for e := range nd.Ch {
			if me, ok := e.(serf.MemberEvent); ok {
				for _, m := range me.Members {
					if m.Name == "flapper" {
						got = append(got, ev{c16Kind(me.Type), m.Tags["v"]})
					}
				}
			}
			if ue, ok := e.(serf.UserEvent); ok && ue.Name == "burst-end" {
				return
			}
			n++
			if n%3 == 0 {
				for k := 0; k < 2000; k++ { // a slightly slow consumer
					_ = k
				}
				runtime.Gosched()
			}
		}
	}()
	for i := 1; i <= flaps; i++ {
		fn := cluster.FakeNode("flapper", "10.16.1.9", 7946, wire.EncodeTags(map[string]string{"v": fmt.Sprint(i)}))
		nd.NotifyJoin(fn)
		nd.NotifyLeave(fn)
	}
	_ = nd.S.UserEvent("burst-end", nil, false)
	select {
	case <-done:
	case <-time.After(60 * time.Second):
		stats["burst_watchdog"]++
		nd.Close()
		return "", stats
	}
	go func() { // keep draining so that the shutdown cannot block
		for range nd.Ch {
		}
	}()
	nd.Close()
	stats["burst_events_received"] = len(got)
	for i := 0; i < len(got); i++ {
		wantKind, wantV := "join", fmt.Sprint(i/2+1)
		if i%2 == 1 {
			wantKind = "failed"
		}
		if got[i].kind != wantKind || (wantKind == "join" && got[i].v != wantV) {
			lo := i - 2
			if lo < 0 {
				lo = 0
			}
			hi := i + 3
			if hi > len(got) {
				hi = len(got)
			}
			return fmt.Sprintf("one member joined and failed %d times in a burst while the application read slowly from a 4-slot event channel: event %d is %s(v%s), expected %s(v%s); around it: %v", flaps, i, got[i].kind, got[i].v, wantKind, wantV, got[lo:hi]), stats
		}
	}
	if len(got) != 2*flaps {
		return fmt.Sprintf("%d flaps, %d member events received (expected %d)", flaps, len(got), 2*flaps), stats
	}
	return "", stats
}

// c16Reaper: the node's own reaper (every other phase switches it off) erases failed members while the
// application is not reading, so that the reaper's first reap event waits on the full pipeline; meanwhile one
// of the members it is about to erase (or has just erased) comes back. Real time; no verdict depends on how
// fast anything runs. Rules (no coalescing, nothing dropped, so what the application receives IS the member's
// sequence of status changes): a reap directly follows a failed or leave event of that member - only departed
// members are erased, and a join in between makes the member alive -, and the last event received for a member
// matches what the node lists for it at the end (seeded C16-i: reap events sent after the lock is released).
func c16Reaper(rng *rand.Rand, seq int) (viols []string, stats map[string]int) {
	stats = map[string]int{}
	nw := simnet.New(int64(seq))
	reconnect := time.Duration(120+rng.Intn(60)) * time.Millisecond
	nd, err := cluster.Start(nw, cluster.Opts{Name: fmt.Sprintf("reaper-%d", seq), IP: "10.16.2.1", Profile: "passive", NoDrain: true, EventBuf: 1,
		Mutate: func(c *serf.Config) {
			c.ReapInterval = 5 * time.Millisecond
			c.ReconnectTimeout = reconnect
			c.TombstoneTimeout = reconnect
		}})
	if err != nil {
		return []string{"setup: " + err.Error()}, stats
	}
	nm := 2 + rng.Intn(3)
	type ev struct{ kind, v string }
	got := map[string][]ev{}
	var pause atomic.Bool
	done := make(chan struct{})
	go func() {
		defer close(done)
		for e := range nd.Ch {
			for pause.Load() {
				time.Sleep(200 * time.Microsecond)
			}
			if me, ok := e.(serf.MemberEvent); ok {
				for _, m := range me.Members {
					got[m.Name] = append(got[m.Name], ev{c16Kind(me.Type), m.Tags["v"]})
				}
			}
			if ue, ok := e.(serf.UserEvent); ok && ue.Name == "reaper-end" {
				return
			}
		}
	}()
	node := func(i int, v string) *memberlist.Node {
		return cluster.FakeNode(fmt.Sprintf("m%d", i), fmt.Sprintf("10.16.2.%d", 10+i), 7946, wire.EncodeTags(map[string]string{"v": v}))
	}
	for i := 0; i < nm; i++ {
		nd.NotifyJoin(node(i, "1"))
	}
	for i := 0; i < nm; i++ {
		nd.NotifyLeave(node(i, "1"))
	}
	t0 := time.Now()
	// the application stops reading; user events fill the pipeline until a handler blocks
	pause.Store(true)
	var floodAt atomic.Uint32
	var floodDone atomic.Bool
	g := newBGroup()
	g.Go(func() {
		defer floodDone.Store(true)
		for k := uint32(1); k <= 1100; k++ {
			floodAt.Store(k)
			nd.NotifyMsg(wire.Encode(wire.UserEvent, &wire.MsgUserEvent{LTime: uint64(k), Name: "fill", Payload: []byte{byte(k), byte(k >> 8)}}))
		}
	})
	last, since := floodAt.Load(), time.Now()
	for time.Since(t0) < reconnect-20*time.Millisecond && !floodDone.Load() {
		time.Sleep(500 * time.Microsecond)
		if k := floodAt.Load(); k != last {
			last, since = k, time.Now()
		} else if time.Since(since) > 3*time.Millisecond {
			break
		}
	}
	full := !floodDone.Load()
	// the reaper's turn: wait until the members are due and a few reaper ticks have passed
	for time.Since(t0) < reconnect+25*time.Millisecond {
		time.Sleep(time.Millisecond)
	}
	back := rng.Intn(nm)
	var rejoined atomic.Bool
	g.Go(func() {
		nd.NotifyJoin(node(back, "2"))
		rejoined.Store(true)
	})
	time.Sleep(time.Duration(5+rng.Intn(20)) * time.Millisecond)
	if full && !rejoined.Load() {
		stats["reaper_rounds_with_the_rejoin_waiting_behind_the_reaper"]++
	}
	pause.Store(false) // the application reads again
	g.Wait()
	// let the reaper finish with the members that are due before the marker is sent
	for i := 0; i < 400; i++ {
		time.Sleep(time.Millisecond)
		if len(nd.S.Members()) <= 2 {
			break
		}
	}
	_ = nd.S.UserEvent("reaper-end", nil, false)
	select {
	case <-done:
	case <-time.After(60 * time.Second):
		stats["reaper_watchdog"]++
		pause.Store(false)
		go func() {
			for range nd.Ch {
			}
		}()
		nd.Close()
		return nil, stats
	}
	status := map[string]string{}
	for _, m := range nd.S.Members() {
		status[m.Name] = m.Status.String()
	}
	go func() { // keep draining so that the shutdown cannot block
		for range nd.Ch {
		}
	}()
	nd.Close()
	stats["reaper_rounds"]++
	for i := 0; i < nm; i++ {
		name := fmt.Sprintf("m%d", i)
		seqv := got[name]
		stats["reaper_member_events_received"] += len(seqv)
		show := fmt.Sprint(seqv)
		for k, e := range seqv {
			if e.kind == "reap" {
				stats["reaper_reap_events"]++
				if k == 0 || (seqv[k-1].kind != "failed" && seqv[k-1].kind != "leave") {
					viols = append(viols, fmt.Sprintf("member %s (of %d failed members, reconnect timeout %v, member m%d rejoining while the reaper's events wait for the application): reap event follows %v, not a failed or leave event; events received for it: %s; the node lists it as %q", name, nm, reconnect, back, func() any {
						if k == 0 {
							return "nothing"
						}
						return seqv[k-1]
					}(), show, status[name]))
				}
			}
		}
		if len(seqv) == 0 {
			continue
		}
		lastEv := seqv[len(seqv)-1]
		st, listed := status[name]
		ok := true
		switch lastEv.kind {
		case "reap":
			ok = !listed
		case "join", "update":
			ok = listed && st == "alive"
		case "failed":
			ok = listed && st == "failed"
		}
		if !ok {
			viols = append(viols, fmt.Sprintf("member %s: the last event received is %s(v%s) but the node lists it as %q (listed=%v); events received for it: %s", name, lastEv.kind, lastEv.v, st, listed, show))
		}
	}
	return viols, stats
}

func TestC16(t *testing.T) {
	r := evid.Start(t, "C16", "exploration")
	if os.Getenv("VERIF_PHASE") != "race" {
		r.Cases("burst", r.N(12, 300), 4, func(ci int, rng *rand.Rand) {
			viol, stats := c16Burst(rng, ci)
			r.Eval(1)
			for k, v := range stats {
				r.Count(k, v)
			}
			if stats["burst_watchdog"] > 0 {
				r.Inconclusive("burst phase: end marker not seen within 60 s (watchdog)")
			}
			if viol != "" {
				r.Violation("burst-reordered", ci, viol, viol)
			}
		})
		r.Cases("reaper", r.N(40, 800), 4, func(ci int, rng *rand.Rand) {
			viols, stats := c16Reaper(rng, ci)
			r.Eval(1)
			for k, v := range stats {
				r.Count(k, v)
			}
			if stats["reaper_watchdog"] > 0 {
				r.Inconclusive("reaper phase: end marker not seen within 60 s (watchdog)")
			}
			for _, v := range viols {
				r.Violation("reaper-and-rejoin", ci, v, v)
			}
		})
		r.Cases("racing", r.N(24, 600), 3, func(ci int, rng *rand.Rand) {
			viols, stats := c16Racing(rng, ci)
			r.Eval(1)
			for k, v := range stats {
				r.Count(k, v)
			}
			if stats["racing_watchdog"] > 0 {
				r.Inconclusive("racing phase: marker event not seen within 60 s (watchdog)")
			}
			for _, v := range viols {
				r.Violation("racing-notification-and-intent", ci, v, v)
			}
		})
	}
	n := r.N(3000, 60000)
	if os.Getenv("VERIF_PHASE") == "race" {
		n = r.N(200, 3000)
	}
	base := t.TempDir()
	pauses := []time.Duration{0, 0, 0, time.Millisecond, 10 * time.Millisecond, 29 * time.Millisecond, 30 * time.Millisecond, 31 * time.Millisecond, 60 * time.Millisecond, 99 * time.Millisecond, 100 * time.Millisecond, 101 * time.Millisecond, 250 * time.Millisecond, time.Second}

	r.Cases("history", n, 0, func(ci int, rng *rand.Rand) {
		snap, coalesce, userCoalesce := rng.Intn(2) == 0, rng.Intn(2) == 0, rng.Intn(2) == 0
		nm := 2 + rng.Intn(4)
		type plan struct {
			name   string
			ops    []int // random op choices
			pause  []time.Duration
			expect []c16Ev
			trace  []string
			final  string // model status at the end
		}
		plans := make([]*plan, nm)
		for i := range plans {
			p := &plan{name: fmt.Sprintf("m%d", i)}
			for k := 4 + rng.Intn(22); k > 0; k-- {
				p.ops = append(p.ops, rng.Intn(100))
				p.pause = append(p.pause, pauses[rng.Intn(len(pauses))])
			}
			plans[i] = p
		}
		nUser, nQuery := rng.Intn(12), rng.Intn(6)
		var setupErr string
		var events []cluster.LoggedEvent
		finalStatus := map[string]serf.MemberStatus{}

		synctest.Test(t, func(t *testing.T) {
			nw := simnet.New(int64(ci))
			opts := cluster.Opts{Name: fmt.Sprintf("self-%d", ci), IP: fmt.Sprintf("10.16.%d.1", ci%250), Profile: "passive", Mutate: func(c *serf.Config) {
				c.ReapInterval = 100 * time.Hour
				if coalesce {
					c.CoalescePeriod, c.QuiescentPeriod = 100*time.Millisecond, 30*time.Millisecond
				}
				if userCoalesce {
					c.UserCoalescePeriod, c.UserQuiescentPeriod = 100*time.Millisecond, 30*time.Millisecond
				}
			}}
			if snap {
				dir, err := os.MkdirTemp(base, "s")
				if err != nil {
					setupErr = err.Error()
					return
				}
				opts.Snap = filepath.Join(dir, "snap")
			}
			nd, err := cluster.Start(nw, opts)
			if err != nil {
				setupErr = err.Error()
				return
			}
			defer func() {
				nd.Close()
				time.Sleep(3 * time.Minute)
			}()
			var lt atomic.Uint64
			lt.Store(100)
			var ver atomic.Uint64
			g := newBGroup()
			for i, p := range plans {
				i, p := i, p
				g.Go(func() {
					ip := fmt.Sprintf("10.16.%d.%d", ci%250, 10+i)
					status, mlAlive, v := "absent", false, ""
					for k, choice := range p.ops {
						time.Sleep(p.pause[k])
						mk := func() string {
							v = fmt.Sprintf("%s.%d", p.name, ver.Add(1))
							return v
						}
						switch {
						case !mlAlive && choice < 70, status == "absent":
							mk()
							nd.NotifyJoin(cluster.FakeNode(p.name, ip, 7946, wire.EncodeTags(map[string]string{"v": v})))
							status, mlAlive = "alive", true
							p.expect = append(p.expect, c16Ev{"join", v})
							p.trace = append(p.trace, "join "+v)
						case mlAlive && choice < 30:
							mk()
							nd.NotifyUpdate(cluster.FakeNode(p.name, ip, 7946, wire.EncodeTags(map[string]string{"v": v})))
							p.expect = append(p.expect, c16Ev{"update", v})
							p.trace = append(p.trace, "update "+v)
						case mlAlive && choice < 60:
							// memberlist reports how the member went: declared dead by others, or by a dead
							// message of its own (a memberlist-level leave; serf's leave intent may have been
							// lost or not sent at all). What the member is to serf depends on the intent alone.
							gone := cluster.FakeNode(p.name, ip, 7946, wire.EncodeTags(map[string]string{"v": v}))
							gone.State = memberlist.StateDead
							if choice%2 == 0 {
								gone.State = memberlist.StateLeft
							}
							nd.NotifyLeave(gone)
							mlAlive = false
							if status == "leaving" {
								status = "left"
								p.expect = append(p.expect, c16Ev{"leave", v})
							} else {
								status = "failed"
								p.expect = append(p.expect, c16Ev{"failed", v})
							}
							p.trace = append(p.trace, "notify-leave")
						case choice < 90:
							nd.NotifyMsg(wire.Encode(wire.Leave, &wire.MsgLeave{LTime: lt.Add(1), Node: p.name}))
							switch status {
							case "alive":
								status = "leaving"
							case "failed":
								status = "left"
								p.expect = append(p.expect, c16Ev{"leave", v})
							}
							p.trace = append(p.trace, "leave-intent")
						default:
							nd.NotifyMsg(wire.Encode(wire.Join, &wire.MsgJoin{LTime: lt.Add(1), Node: p.name}))
							if status == "leaving" {
								status = "alive"
							}
							p.trace = append(p.trace, "join-intent")
						}
					}
					p.final = status
				})
			}
			g.Go(func() {
				for k := 0; k < nUser; k++ {
					time.Sleep(pauses[(k*7+ci)%len(pauses)])
					_ = nd.S.UserEvent(fmt.Sprintf("u%d", k%3), []byte{byte(k)}, k%2 == 0)
				}
			})
			g.Go(func() {
				for k := 0; k < nQuery; k++ {
					time.Sleep(pauses[(k*5+ci)%len(pauses)])
					nd.NotifyMsg(wire.Encode(wire.Query, &wire.MsgQuery{LTime: uint64(k + 1), ID: uint32(1000 + k), Addr: []byte{10, 16, 250, 9}, Port: 7946,
						SourceNode: "src", Timeout: time.Second, Name: []string{"_serf_ping", "app-query"}[k%2]}))
				}
			})
			g.Wait()
			time.Sleep(5 * time.Second)
			synctest.Wait()
			events = nd.Events()
			for _, m := range nd.S.Members() {
				finalStatus[m.Name] = m.Status
			}
		})

		r.Eval(1)
		if setupErr != "" {
			r.Count("setup_errors", 1)
			return
		}
		cfg := fmt.Sprintf("snapshot=%v member-coalescing=%v user-coalescing=%v", snap, coalesce, userCoalesce)
		got := map[string][]c16Ev{}
		internalSeen, userSeen, querySeen := 0, 0, 0
		for _, le := range events {
			switch e := le.E.(type) {
			case serf.MemberEvent:
				for _, m := range e.Members {
					got[m.Name] = append(got[m.Name], c16Ev{c16Kind(e.Type), m.Tags["v"]})
				}
			case serf.UserEvent:
				userSeen++
			case *serf.Query:
				querySeen++
				if strings.HasPrefix(e.Name, "_serf_") {
					internalSeen++
				}
			}
		}
		r.Count("user_events_seen", userSeen)
		r.Count("queries_seen", querySeen)
		if internalSeen > 0 {
			r.Violation("internal-query-leaked", ci, fmt.Sprintf("%d internal queries reached the application (%s)", internalSeen, cfg), nil)
		}
		nontrivial := false
		var sig []string
		for _, p := range plans {
			rec := got[p.name]
			r.Count("member_events_expected", len(p.expect))
			r.Count("member_events_received", len(rec))
			wit := map[string]any{"config": cfg, "member": p.name, "operations": p.trace, "status_changes": fmt.Sprint(p.expect), "received": fmt.Sprint(rec)}
			desc := fmt.Sprintf("member %s (%s): status changes %v, application received %v", p.name, cfg, p.expect, rec)
			pos := -1
			okSeq := true
			for _, e := range rec {
				at := -1
				for j, x := range p.expect {
					if x == e {
						at = j
					}
				}
				switch {
				case at < 0:
					r.Violation("member-event-unexplained/"+e.Kind, ci, "event "+e.String()+" matches no status change: "+desc, wit)
					okSeq = false
				case at == pos:
					r.Violation("member-event-duplicated/"+e.Kind, ci, "event "+e.String()+" delivered twice: "+desc, wit)
					okSeq = false
				case at < pos:
					r.Violation("member-events-out-of-order", ci, "event "+e.String()+" delivered after a later one: "+desc, wit)
					okSeq = false
				}
				if !okSeq {
					break
				}
				pos = at
			}
			if !okSeq {
				continue
			}
			if !coalesce && len(rec) != len(p.expect) {
				r.Violation("member-event-lost", ci, "without coalescing every status change must arrive: "+desc, wit)
				continue
			}
			r.Count("sequences_matched", 1)
			if len(rec) < len(p.expect) {
				r.Count("sequences_shortened_by_coalescing", 1)
				nontrivial = true
			}
			// the last event matches the current status
			st, listed := finalStatus[p.name]
			if len(p.expect) > 0 {
				r.Count("last_event_checks", 1)
				if !listed || len(rec) == 0 {
					r.Violation("last-event-vs-status", ci, fmt.Sprintf("listed=%v, events received %d: %s", listed, len(rec), desc), wit)
					continue
				}
				last := rec[len(rec)-1].Kind
				okLast := (st == serf.StatusAlive || st == serf.StatusLeaving) && (last == "join" || last == "update") ||
					st == serf.StatusLeft && last == "leave" || st == serf.StatusFailed && last == "failed"
				if !okLast {
					r.Violation("last-event-vs-status/"+last+"-but-"+st.String(), ci, fmt.Sprintf("last event %s, member is %v: %s", last, st, desc), wit)
				}
				if st.String() != p.final {
					r.Violation("status-model-mismatch", ci, fmt.Sprintf("node lists %v, the operations imply %s: %s", st, p.final, desc), wit)
				}
			}
			if len(p.expect) >= 4 {
				nontrivial = true
			}
			sig = append(sig, strings.Join(p.trace, ","))
		}
		if nontrivial {
			r.Distinct(cfg + "|" + strings.Join(sig, "|"))
		}
		r.Count("histories_"+strings.ReplaceAll(cfg, " ", "_"), 1)
		if ci < 2 {
			r.Sample(map[string]any{"config": cfg, "member": plans[0].name, "operations": plans[0].trace, "received": fmt.Sprint(got[plans[0].name])})
		}
	})
	if r.Counter("setup_errors") > 0 {
		r.Inconclusive(fmt.Sprintf("%d histories could not be set up", r.Counter("setup_errors")))
	}
	if os.Getenv("VERIF_PHASE") != "race" {
		for _, k := range []string{"sequences_matched", "sequences_shortened_by_coalescing", "last_event_checks", "user_events_seen", "queries_seen"} {
			if r.Counter(k) == 0 {
				r.Inconclusive("nothing observed for " + k)
			}
		}
	}
	floor := r.N(1200, 20000)
	if os.Getenv("VERIF_PHASE") == "race" {
		floor = r.N(60, 800)
	}
	r.Finish("one history = one real node with a random combination of snapshot / member coalescing (100 ms / 30 ms) / user coalescing; 2-5 members, each driven by its own goroutine through 4-25 operations (memberlist join/update/leave notifications in a legal order with unique tag versions, leave and join intents with increasing Lamport times) separated by pauses around the coalescing periods, with user events and internal/application queries interleaved; non-trivial = some member had at least four status changes or coalescing shortened a sequence; distinct = different configuration and operation sequences",
		floor,
		"per-member ground truth order exists because one goroutine issues everything about a member; memberlist notifications are serialised across members as memberlist's node lock does",
		"workloads stay below every channel capacity (no drops); with coalescing only the subsequence and last-event rules apply",
		"join/update as last event match alive and leaving (a leave intent changes the status without an event)",
	)
}
