//go:build snapfs

package props

// C11: a crash at any file-system step of snapshot maintenance never loses
// snapshot state that was already written.
//
// The real serf.Snapshotter (the CURRENT /repo/serf/snapshot.go, its file
// operations routed through the generated overlay of tools/fsshim) is driven with
// a history in a synctest bubble. Before EVERY open, write, sync, close, remove
// and rename the hook copies the snapshot directory: that copy is exactly what a
// process crash at that point leaves behind (data handed to the OS survives,
// buffered data does not). Every copy is then re-opened with the real
// NewSnapshotter and the recovered state is located among the states the
// snapshot held during the history (reference model, per step, order-insensitive
// inside a step):
//   - validity:      it must be one of those states, not later than the step in progress;
//   - monotonicity:  along the crash points of one history the recovered position never
//                    moves backwards - what an earlier crash would have recovered had
//                    been written, so a later crash must recover that or something newer;
//   - continuation:  a node restarted from the crash state and run on (one more member,
//                    forced compaction, clean shutdown) still has the recovered state plus
//                    that member.

import (
	"fmt"
	"math/rand"
	"os"
	"path/filepath"
	"testing"
	"testing/synctest"
	"time"

	"github.com/hashicorp/serf/serf"

	"verif/harness/evid"
)

func c11WindowKey(caps []sfCapture, ci int) string {
	// the failing class: which operation the crash precedes and which one it follows
	c := caps[ci].Before
	prev := "start"
	if ci > 0 {
		p := caps[ci-1].Before
		prev = p.Kind + "(" + sfFileClass(p.File) + ")"
	}
	return fmt.Sprintf("crash-after-%s-before-%s(%s)", prev, c.Kind, sfFileClass(c.File))
}

func TestC11(t *testing.T) {
	r := evid.Start(t, "C11", "fault_enumeration")
	base, err := os.MkdirTemp("/verif/.run", "c11-")
	if err != nil {
		base = t.TempDir()
	}
	defer os.RemoveAll(base)
	thresholds := []int{1, 1, 64, 300, 1024, 128 * 1024}
	n := r.N(120, 4000)
	r.Cases("history", n, 0, func(ci int, rng *rand.Rand) {
		maxOps := 70
		if rng.Intn(3) == 0 {
			maxOps = 25
		}
		ops, _ := c10GenHistory(rng, c10GenOpts{MinOps: 8, MaxOps: maxOps, Restarts: true, LeaveAt: rng.Intn(3) == 0})
		// more time passes than in C10's histories so that the 500 ms flush and the clock ticker run
		for i := range ops {
			if ops[i].Kind == "wait" && rng.Intn(2) == 0 {
				ops[i] = c10Op{Kind: "sleep", Gap: []time.Duration{300 * time.Millisecond, 600 * time.Millisecond, 2 * time.Second}[rng.Intn(3)]}
			}
		}
		// one change per member and step: with the same member twice in one event
		// (x@a, x@b, x@a) a step passes through the same state more than once and the
		// position of a recovered state inside the step would be ambiguous
		for i := range ops {
			seen := map[string]bool{}
			var ms []c10Mem
			for _, m := range ops[i].Members {
				if !seen[m.Name] {
					seen[m.Name] = true
					ms = append(ms, m)
				}
			}
			ops[i].Members = ms
		}
		th := thresholds[rng.Intn(len(thresholds))]
		rejoin := rng.Intn(4) == 0
		dir, err := os.MkdirTemp(base, "h")
		if err != nil {
			r.Inconclusive("mkdir: " + err.Error())
			return
		}
		defer os.RemoveAll(dir)
		path := filepath.Join(dir, "snap")
		hs := c10HistoryString(ops)

		var run sfRun
		hook := newSFHook(dir)
		hook.capture = true
		type verdict struct {
			key, msg string
			wit      map[string]any
		}
		var viols []verdict
		stats := map[string]int{}
		synctest.Test(t, func(t *testing.T) {
			serf.VerifFSSetHook(dir, hook)
			run = sfDrive(path, ops, th, rejoin, hook)
			serf.VerifFSSetHook(dir, nil)
			if run.Err != nil {
				return
			}
			prevPos, prevCap := 0, -1
			for k := range hook.caps {
				c := &hook.caps[k]
				stats["crash_points"]++
				stats["crash_before_"+c.Before.Kind+"_"+sfFileClass(c.Before.File)]++
				if c.Dup {
					stats["same_directory_as_previous_point"]++
					continue
				}
				_, hasSnap := c.Files["snap"]
				_, hasCompact := c.Files["snap.compact"]
				if hasCompact {
					stats["captures_with_compact_file_present"]++
				}
				if !hasSnap {
					stats["captures_without_snapshot_file"]++
				}
				cdir, err := sfMaterialize(base, c)
				if err != nil {
					r.Inconclusive("materialize: " + err.Error())
					os.RemoveAll(cdir)
					return
				}
				got, err := c10ReadSnapshot(filepath.Join(cdir, "snap"), rejoin)
				if err != nil {
					viols = append(viols, verdict{"reopen-fails/" + c11WindowKey(hook.caps, k),
						fmt.Sprintf("crash before %v: the directory {%s} cannot be reopened: %v", c.Before, sfFileList(c), err), nil})
					os.RemoveAll(cdir)
					continue
				}
				stats["reopened"]++
				pos := sfPositions(run.Steps, got, c.Before.Step)
				if os.Getenv("VERIF_C11_DEBUG") != "" {
					fmt.Printf("DEBUG cap %d before %v files {%s} pos=%v prevPos=%d got=%s\n", k, c.Before, sfFileList(c), pos, prevPos, c10Trunc(got.String(), 400))
				}
				chosen := -1
				for _, p := range pos {
					if p >= prevPos {
						chosen = p
						break
					}
				}
				switch {
				case len(pos) == 0:
					viols = append(viols, verdict{"not-a-held-state/" + c11WindowKey(hook.caps, k),
						fmt.Sprintf("crash before %v during step %d (%s): directory {%s} recovers %s, which is no state the snapshot held up to that step (state before the step: %s ; after: %s)",
							c.Before, c.Before.Step, run.Steps[c.Before.Step].Kind, sfFileList(c), got, run.Steps[c.Before.Step].Pre, run.Steps[c.Before.Step].Post),
						map[string]any{"files": c11FilesWitness(c)}})
				case chosen < 0:
					was := "-"
					if prevCap >= 0 {
						was = hook.caps[prevCap].Before.String()
					}
					viols = append(viols, verdict{"lost-written-state/" + c11WindowKey(hook.caps, k),
						fmt.Sprintf("crash before %v during step %d (%s): directory {%s} recovers %s = the state after step %d, but a crash at the earlier point (before %s) already recovered the state of step %d: written state was lost",
							c.Before, c.Before.Step, run.Steps[c.Before.Step].Kind, sfFileList(c), got, pos[len(pos)-1]/2, was, prevPos/2),
						map[string]any{"files": c11FilesWitness(c)}})
				default:
					if chosen < 2*c.Before.Step-1 {
						stats["recovered_older_than_step_in_progress(buffered tail)"]++
					}
					if chosen%2 == 1 {
						stats["recovered_mid_step_state"]++
					}
					prevPos, prevCap = chosen, k
				}
				// continuation: run the restarted node on
				if len(pos) > 0 && (hasCompact || !hasSnap || rng.Intn(12) == 0) {
					stats["continuations"]++
					if msg := c11Continue(filepath.Join(cdir, "snap"), rejoin, got, rng.Intn(2) == 0); msg != "" {
						viols = append(viols, verdict{"continuation/" + c11WindowKey(hook.caps, k),
							fmt.Sprintf("crash before %v: directory {%s} recovers %s, but %s", c.Before, sfFileList(c), got, msg), nil})
					}
				}
				os.RemoveAll(cdir)
			}
			time.Sleep(time.Second)
			synctest.Wait()
		})
		r.Eval(1)
		if run.Err != nil {
			r.Inconclusive(fmt.Sprintf("case %d: driver error %v", ci, run.Err))
			return
		}
		for k, v := range stats {
			r.Count(k, v)
		}
		r.Count("file_operations", len(hook.ops))
		r.Count("sessions", run.Sessions)
		r.Count("restart_state_adopted(C10 subject)", run.RestartMismatch)
		compactions := 0
		for _, o := range hook.ops {
			if o.Kind == "rename" {
				compactions++
			}
		}
		r.Count("compactions", compactions)
		if compactions > 0 && stats["crash_points"] > 10 {
			r.Distinct(fmt.Sprintf("%d/%d/%v/%s", th, compactions, rejoin, hs))
		}
		if ci < 2 {
			var opl []string
			for _, o := range hook.ops {
				if len(opl) < 60 {
					opl = append(opl, o.String())
				}
			}
			r.Sample(map[string]any{"history": c10Trunc(hs, 600), "minCompactSize": th, "rejoin_after_leave": rejoin,
				"crash_points": stats["crash_points"], "first_file_operations": opl})
		}
		for i, v := range viols {
			if i >= 3 {
				break
			}
			w := map[string]any{"ops": c10WitnessOps(ops), "minCompactSize": th, "rejoin": rejoin}
			for k, x := range v.wit {
				w[k] = x
			}
			r.Violation(v.key, ci, v.msg+" ; minCompactSize="+fmt.Sprint(th)+" ; history: "+c10Trunc(hs, 1500), w)
		}
	})
	r.Exhaustive(false)
	r.Extra("crash_points_per_history", "exhaustive: every open/write/sync/close/remove/rename of every driven history is a crash point")
	r.Finish("histories of 8-70 snapshot events (joins/leaves/failures of 1-12 members with hostile names, user/query clocks, clock jumps, virtual-time gaps, restarts, sometimes a graceful leave) against the real Snapshotter with minCompactSize in {1,64,300,1024,128Ki}; for each history EVERY file operation is a crash point whose directory copy is reopened with the real NewSnapshotter; distinct/non-trivial = histories with at least one compaction and more than 10 crash points",
		r.N(30, 500),
		"process-crash semantics as the property states: a crash leaves exactly what was handed to the OS by completed operations; torn writes and power loss are out of scope",
		"the overlay changes only how snapshot.go reaches the os package (tools/fsshim, syntactic rewrite of the current file)")
}

func c11FilesWitness(c *sfCapture) map[string]string {
	w := map[string]string{}
	for n, b := range c.Files {
		w[n] = c10Trunc(string(b), 1500)
	}
	return w
}

// c11Continue restarts a node from the crash directory, lets it record one more
// member with compaction forced, shuts it down cleanly and reopens.
func c11Continue(path string, rejoin bool, recovered c10State, shrink bool) string {
	var ops []c10Op
	want := recovered.clone()
	if shrink {
		// the cluster shrinks first: every recovered member fails, so the next compacted image is
		// shorter than anything an interrupted compaction may have left behind
		for n := range recovered.Alive {
			ops = append(ops, c10Op{Kind: "failed", Members: []c10Mem{{Name: n}}})
			delete(want.Alive, n)
		}
	}
	ops = append(ops, c10Op{Kind: "join", Members: []c10Mem{{Name: "zz-continuation", IP: []byte{10, 9, 9, 9}, Port: 7946}}}, c10Op{Kind: "sleep", Gap: time.Second})
	run := sfDrive(path, ops, 1, rejoin, nil)
	if run.Err != nil {
		return "the restarted node cannot open it again: " + run.Err.Error()
	}
	got, err := c10ReadSnapshot(path, rejoin)
	if err != nil {
		return "after running on, the snapshot cannot be reopened: " + err.Error()
	}
	want.Alive["zz-continuation"] = "10.9.9.9:7946"
	if !got.aliveEqual(want) || got.EventClock != want.EventClock || got.QueryClock != want.QueryClock || got.Clock < want.Clock {
		return fmt.Sprintf("after the restarted node (members failing first: %v) recorded one more member and shut down cleanly the snapshot holds %s instead of %s", shrink, got, want)
	}
	return ""
}
