package props

import (
	"fmt"
	"math"
	"math/rand"
	"reflect"
	"sort"
	"strings"
	"sync/atomic"
	"testing"
	"time"

	"github.com/hashicorp/memberlist"
	"github.com/hashicorp/serf/coordinate"

	"verif/harness/cluster"
	"verif/harness/evid"
	"verif/harness/simnet"
	"verif/harness/wire"
)

// C20: the network coordinate stays valid whatever peers report.
//
// Part A (coordinate.Client): 1000-step observation sequences mixing sane
// observations with NaN/Inf/MaxFloat/subnormal/huge components, wrong
// dimensions and negative/zero/over-range RTTs. After every Update:
//   - invariants on GetCoordinate(): dimension, finiteness, Height >= HeightMin,
//     0 <= Error <= VivaldiErrorMax (only while every peer error seen so far in
//     the sequence was >= 0, as the statement says);
//   - an independently computed rejection oracle (dimension, finiteness,
//     0 <= rtt <= 10s) must agree with the returned error;
//   - a rejected observation must leave GetCoordinate() bit-identical AND leave
//     the client's whole internal state (latency filter, adjustment window,
//     counters; read through reflection at quiescence) unchanged.
//
// Part B (serf ping delegate on a real node): harness-encoded ping payloads
// (valid, adversarial, malformed) are given to the node's own
// memberlist.PingDelegate; Serf.GetCachedCoordinate(peer) may change only when
// the observation was acceptable, and then only to the coordinate that was sent.

// ---------- generators

var c20Bad = []float64{math.NaN(), math.Inf(1), math.Inf(-1)}
var c20Huge = []float64{math.MaxFloat64, -math.MaxFloat64, 1e300, -1e300, 1e154, 1.4e154, -1e155, 1e100, 5e-324, -5e-324, 2.2250738585072014e-308, 1e19, -1e19}

type c20Obs struct {
	node  string
	coord *coordinate.Coordinate
	rtt   time.Duration
	cls   string
}

func c20SaneVec(rng *rand.Rand, dim int) []float64 {
	v := make([]float64, dim)
	for i := range v {
		v[i] = (rng.Float64() - 0.5) * math.Pow(10, -4+4*rng.Float64())
	}
	return v
}

func c20SaneRTT(rng *rand.Rand) time.Duration {
	return time.Duration(math.Pow(10, 4+5*rng.Float64())) // 10 us .. 1 s
}

// c20GenObs produces one observation. negErr allows negative (or NaN) peer
// errors; sanePct is the share of plain sane observations.
func c20GenObs(rng *rand.Rand, dim int, negErr bool, sanePct int) c20Obs {
	o := c20Obs{node: fmt.Sprintf("peer%d", rng.Intn(5))}
	c := &coordinate.Coordinate{Vec: c20SaneVec(rng, dim), Error: 1.5 * rng.Float64(), Height: 1e-5 + rng.Float64()*1e-3, Adjustment: (rng.Float64() - 0.5) * 1e-3}
	o.coord = c
	o.rtt = c20SaneRTT(rng)
	o.cls = "sane"
	k := 45 + rng.Intn(55)
	if rng.Intn(100) < sanePct {
		k = 0
	}
	switch {
	case k < 45:
	case k < 50: // origin / coincident peers (random direction path)
		o.cls = "origin"
		for i := range c.Vec {
			c.Vec[i] = 0
		}
		if rng.Intn(2) == 0 {
			c.Height = 0
		}
	case k < 58: // non-finite somewhere -> must be rejected
		o.cls = "nonfinite"
		b := c20Bad[rng.Intn(3)]
		switch f := rng.Intn(4); {
		case f == 0 && dim > 0:
			c.Vec[rng.Intn(dim)] = b
		case f == 1:
			// "peers report non-negative errors": NaN and -Inf are not, +Inf is
			if negErr {
				c.Error = b
			} else {
				c.Error = math.Inf(1)
			}
		case f == 2:
			c.Adjustment = b
		default:
			c.Height = b
		}
	case k < 68: // huge / tiny but finite -> accepted by the rules, may force a reset
		o.cls = "huge"
		h := c20Huge[rng.Intn(len(c20Huge))]
		switch f := rng.Intn(5); {
		case f <= 1 && dim > 0:
			c.Vec[rng.Intn(dim)] = h
			if rng.Intn(3) == 0 {
				for i := range c.Vec {
					c.Vec[i] = c20Huge[rng.Intn(len(c20Huge))]
				}
			}
		case f == 2:
			c.Error = math.Abs(h)
		case f == 3:
			c.Adjustment = h
		default:
			c.Height = h
		}
	case k < 76: // wrong dimension
		o.cls = "dims"
		nd := []int{0, dim - 1, dim + 1, 2 * dim, dim + 7}[rng.Intn(5)]
		if nd < 0 {
			nd = 0
		}
		if nd == dim {
			nd = dim + 1
		}
		c.Vec = c20SaneVec(rng, nd)
		if nd == 0 && rng.Intn(2) == 0 {
			c.Vec = nil
		}
	case k < 86: // rtt out of range / on the boundary
		o.cls = "rtt"
		o.rtt = []time.Duration{-1, -time.Second, math.MinInt64, 0, 1, 10 * time.Second, 10*time.Second + 1, 11 * time.Second, math.MaxInt64, 999 * time.Nanosecond, 9999 * time.Millisecond}[rng.Intn(11)]
	case k < 92: // extreme but legal errors / heights
		o.cls = "edge"
		c.Error = []float64{0, 1e-12, 1.5, 1e10, math.MaxFloat64, 1e-7}[rng.Intn(6)]
		c.Height = []float64{0, -1, -1e-3, 1e4, 1e-5}[rng.Intn(5)]
	default: // several faults at once
		o.cls = "combo"
		if rng.Intn(2) == 0 {
			c.Vec = c20SaneVec(rng, dim+1)
		}
		if rng.Intn(2) == 0 {
			c.Height = c20Bad[rng.Intn(3)]
		}
		if rng.Intn(2) == 0 {
			o.rtt = -o.rtt
		}
	}
	if negErr && rng.Intn(6) == 0 {
		c.Error = -[]float64{1e-9, 0.1, 1.5, 3, 1e10}[rng.Intn(5)]
		o.cls += "+negerr"
	}
	return o
}

// c20Reject is the independent rejection oracle of the statement: invalid
// coordinate (wrong dimension or any non-finite field) or rtt outside [0, 10s].
func c20Reject(dim int, c *coordinate.Coordinate, rtt time.Duration) (bool, string) {
	if len(c.Vec) != dim {
		return true, "dimension"
	}
	fin := func(f float64) bool { return f-f == 0 }
	for _, x := range c.Vec {
		if !fin(x) {
			return true, "nonfinite"
		}
	}
	if !fin(c.Error) || !fin(c.Adjustment) || !fin(c.Height) {
		return true, "nonfinite"
	}
	if rtt < 0 || rtt > 10*time.Second {
		return true, "rtt"
	}
	return false, ""
}

func c20SameCoord(a, b *coordinate.Coordinate) bool {
	if (a == nil) != (b == nil) {
		return false
	}
	if a == nil {
		return true
	}
	if len(a.Vec) != len(b.Vec) {
		return false
	}
	for i := range a.Vec {
		if math.Float64bits(a.Vec[i]) != math.Float64bits(b.Vec[i]) {
			return false
		}
	}
	return math.Float64bits(a.Error) == math.Float64bits(b.Error) &&
		math.Float64bits(a.Adjustment) == math.Float64bits(b.Adjustment) &&
		math.Float64bits(a.Height) == math.Float64bits(b.Height)
}

func c20CoordStr(c *coordinate.Coordinate) string {
	if c == nil {
		return "<nil>"
	}
	return fmt.Sprintf("{Vec:%v Error:%v Adjustment:%v Height:%v}", c.Vec, c.Error, c.Adjustment, c.Height)
}

// c20Invariants checks the statement's invariants on a local coordinate.
func c20Invariants(c *coordinate.Coordinate, dim int, heightMin, errMax float64, errBound bool) string {
	if len(c.Vec) != dim {
		return fmt.Sprintf("dimension %d, configured %d", len(c.Vec), dim)
	}
	fin := func(f float64) bool { return f-f == 0 }
	for i, x := range c.Vec {
		if !fin(x) {
			return fmt.Sprintf("Vec[%d]=%v is not finite", i, x)
		}
	}
	if !fin(c.Error) || !fin(c.Adjustment) || !fin(c.Height) {
		return fmt.Sprintf("non-finite field: Error=%v Adjustment=%v Height=%v", c.Error, c.Adjustment, c.Height)
	}
	if c.Height < heightMin {
		return fmt.Sprintf("Height=%v below HeightMin=%v", c.Height, heightMin)
	}
	if errBound && (c.Error < 0 || c.Error > errMax) {
		return fmt.Sprintf("Error=%v outside [0, %v] although every peer error was >= 0", c.Error, errMax)
	}
	return ""
}

// c20State fingerprints the complete internal state of a client through
// reflection (values only; locks, the config pointer and function values are
// skipped). Used to decide "rejected without changing anything".
func c20State(v reflect.Value, sb *strings.Builder, depth int) {
	if depth > 6 {
		return
	}
	switch v.Kind() {
	case reflect.Float32, reflect.Float64:
		fmt.Fprintf(sb, "%x,", math.Float64bits(v.Float()))
	case reflect.Int, reflect.Int8, reflect.Int16, reflect.Int32, reflect.Int64:
		fmt.Fprintf(sb, "%d,", v.Int())
	case reflect.Uint, reflect.Uint8, reflect.Uint16, reflect.Uint32, reflect.Uint64:
		fmt.Fprintf(sb, "%d,", v.Uint())
	case reflect.Bool:
		fmt.Fprintf(sb, "%v,", v.Bool())
	case reflect.String:
		fmt.Fprintf(sb, "%q,", v.String())
	case reflect.Slice, reflect.Array:
		fmt.Fprintf(sb, "[%d:", v.Len())
		for i := 0; i < v.Len(); i++ {
			c20State(v.Index(i), sb, depth+1)
		}
		sb.WriteString("]")
	case reflect.Map:
		type kv struct {
			k string
			v reflect.Value
		}
		var ents []kv
		it := v.MapRange()
		for it.Next() {
			var kb strings.Builder
			c20State(it.Key(), &kb, depth+1)
			ents = append(ents, kv{kb.String(), it.Value()})
		}
		sort.Slice(ents, func(i, j int) bool { return ents[i].k < ents[j].k })
		fmt.Fprintf(sb, "map%d{", len(ents))
		for _, e := range ents {
			sb.WriteString(e.k + "=>")
			c20State(e.v, sb, depth+1)
		}
		sb.WriteString("}")
	case reflect.Ptr:
		if v.IsNil() {
			sb.WriteString("nil,")
			return
		}
		if v.Type() == reflect.TypeOf((*coordinate.Config)(nil)) {
			return
		}
		c20State(v.Elem(), sb, depth+1)
	case reflect.Struct:
		if strings.HasPrefix(v.Type().PkgPath(), "sync") {
			return
		}
		sb.WriteString(v.Type().Name() + "{")
		for i := 0; i < v.NumField(); i++ {
			sb.WriteString(v.Type().Field(i).Name + ":")
			c20State(v.Field(i), sb, depth+1)
		}
		sb.WriteString("}")
	}
}

func c20ClientState(c *coordinate.Client) string {
	var sb strings.Builder
	c20State(reflect.ValueOf(c).Elem(), &sb, 0)
	return sb.String()
}

// ---------- part B helpers

type c20WireCoord struct {
	Vec        []float64
	Error      float64
	Adjustment float64
	Height     float64
}

// c20Payload builds a ping payload; class names the way it is (mal)formed.
func c20Payload(rng *rand.Rand, c *coordinate.Coordinate) ([]byte, string) {
	body := wire.EncodeBody(c20WireCoord{Vec: c.Vec, Error: c.Error, Adjustment: c.Adjustment, Height: c.Height})
	k := rng.Intn(100)
	switch {
	case k < 70:
		return append([]byte{1}, body...), "wellformed"
	case k < 75:
		return append([]byte{[]byte{0, 2, 3, 255, 0x84}[rng.Intn(5)]}, body...), "version"
	case k < 78:
		return nil, "empty"
	case k < 80:
		return []byte{1}, "header-only"
	case k < 86:
		n := rng.Intn(len(body))
		return append([]byte{1}, body[:n]...), "truncated"
	case k < 90:
		g := make([]byte, 1+rng.Intn(60))
		rng.Read(g)
		return append([]byte{1}, g...), "garbage"
	case k < 94: // bit flip inside a well-formed body
		b := append([]byte{1}, body...)
		i := 1 + rng.Intn(len(body))
		b[i] ^= 1 << uint(rng.Intn(8))
		return b, "bitflip"
	case k < 97: // other msgpack shapes
		var v any
		switch rng.Intn(4) {
		case 0:
			v = "coordinate"
		case 1:
			v = map[string]any{"Vec": "abc", "Error": 1.0}
		case 2:
			v = map[string]any{"Error": c.Error, "Height": c.Height} // no Vec
		default:
			v = []any{c.Vec, c.Error, c.Adjustment, c.Height}
		}
		return append([]byte{1}, wire.EncodeBody(v)...), "othershape"
	default: // unknown extra field: still a coordinate
		v := map[string]any{"Vec": c.Vec, "Error": c.Error, "Adjustment": c.Adjustment, "Height": c.Height, "Extra": "x"}
		return append([]byte{1}, wire.EncodeBody(v)...), "extrafield"
	}
}

// c20DecodePayload: what coordinate (if any) does the payload carry? Same
// codec as serf (trusted), harness-side mirror struct.
func c20DecodePayload(p []byte) (c *coordinate.Coordinate, ok bool) {
	defer func() {
		if recover() != nil {
			c, ok = nil, false
		}
	}()
	if len(p) == 0 || p[0] != 1 {
		return nil, false
	}
	var w c20WireCoord
	if err := wire.Decode(p[1:], &w); err != nil {
		return nil, false
	}
	return &coordinate.Coordinate{Vec: w.Vec, Error: w.Error, Adjustment: w.Adjustment, Height: w.Height}, true
}

func TestC20(t *testing.T) {
	r := evid.Start(t, "C20", "exploration")
	if _, ok := reflect.TypeOf(coordinate.Client{}).FieldByName("latencyFilterSamples"); !ok {
		r.Inconclusive("coordinate.Client has no field latencyFilterSamples any more: the latency filter is not observable")
	}

	// ---------------- part 0: readers while updates are in progress
	// serf reads the local coordinate from other goroutines than the one applying ping
	// observations (GetCoordinate, ping acks, the cache of the node's own entry): whatever moment
	// they look, the coordinate must be valid - also half way through an update that will be reset.
	r.Cases("concurrent", r.N(8, 200), 4, func(ci int, rng *rand.Rand) {
		cfg := coordinate.DefaultConfig()
		cl, err := coordinate.NewClient(cfg)
		if err != nil {
			r.Inconclusive("NewClient: " + err.Error())
			return
		}
		var stop atomic.Bool
		var bad atomic.Value
		var reads atomic.Int64
		g := newBGroup()
		for w := 0; w < 4; w++ {
			g.Go(func() {
				for !stop.Load() {
					c := cl.GetCoordinate()
					reads.Add(1)
					if msg := c20Invariants(c, int(cfg.Dimensionality), cfg.HeightMin, cfg.VivaldiErrorMax, false); msg != "" {
						bad.CompareAndSwap(nil, msg+" : "+c20CoordStr(c))
					}
				}
			})
		}
		updates := 20000
		for i := 0; i < updates && bad.Load() == nil; i++ {
			peer := coordinate.NewCoordinate(cfg)
			switch rng.Intn(4) {
			case 0: // finite but huge: accepted, blows the intermediate result up, reset at the end
				peer.Height = []float64{1e308, 1.2e308, 1e300}[rng.Intn(3)]
				if rng.Intn(2) == 0 {
					peer.Error = 1e300
				}
			case 1:
				peer.Vec[rng.Intn(len(peer.Vec))] = []float64{1e308, -1e308, 1e200}[rng.Intn(3)]
			default:
				for k := range peer.Vec {
					peer.Vec[k] = rng.NormFloat64() * 0.05
				}
				peer.Height = 0.001 + rng.Float64()*0.01
			}
			_, _ = cl.Update(fmt.Sprintf("peer%d", rng.Intn(5)), peer, time.Duration(1+rng.Intn(200))*time.Millisecond)
		}
		stop.Store(true)
		g.Wait()
		r.Eval(1)
		r.Count("concurrent_updates", updates)
		r.Count("concurrent_reads", int(reads.Load()))
		r.Count("concurrent_resets", cl.Stats().Resets)
		if m := bad.Load(); m != nil {
			r.Violation("invalid-coordinate-seen-during-update", ci, "a reader calling GetCoordinate while observations (some finite but huge) were being applied saw an invalid coordinate: "+m.(string), m)
		}
	})

	// ---------------- part A: coordinate.Client sequences
	nSeq := r.N(2000, 100000)
	const steps = 1000
	r.Cases("client", nSeq, 0, func(ci int, rng *rand.Rand) {
		cfg := coordinate.DefaultConfig()
		cfg.Dimensionality = []uint{1, 2, 3, 8, 8, 8}[rng.Intn(6)]
		cfg.AdjustmentWindowSize = []uint{0, 1, 20, 20}[rng.Intn(4)]
		cfg.LatencyFilterSize = []uint{1, 3, 3, 5}[rng.Intn(4)]
		cfg.HeightMin = []float64{10.0e-6, 10.0e-6, 1e-3, 1e-9}[rng.Intn(4)]
		cfg.VivaldiErrorMax = []float64{1.5, 1.5, 0.5, 10}[rng.Intn(4)]
		cfg.GravityRho = []float64{150, 150, 1}[rng.Intn(3)]
		dim := int(cfg.Dimensionality)
		cl, err := coordinate.NewClient(cfg)
		if err != nil {
			r.Inconclusive("NewClient: " + err.Error())
			return
		}
		negSeq := rng.Intn(10) < 3
		sanePct := []int{0, 45, 80, 95, 99}[rng.Intn(5)]
		errBound := true
		cnt := map[string]int{}
		accepted, rejected := 0, 0
		bad := false
		for s := 0; s < steps && !bad; s++ {
			o := c20GenObs(rng, dim, negSeq, sanePct)
			if !(o.coord.Error >= 0) {
				errBound = false // the statement bounds the error only for non-negative peer errors
			}
			wantRej, why := c20Reject(dim, o.coord, o.rtt)
			before := cl.GetCoordinate()
			stBefore := ""
			if wantRej {
				stBefore = c20ClientState(cl)
			}
			sent := o.coord.Clone()
			var ret *coordinate.Coordinate
			var uerr error
			var pv any
			func() {
				defer func() { pv = recover() }()
				ret, uerr = cl.Update(o.node, o.coord, o.rtt)
			}()
			after := cl.GetCoordinate()
			wit := func() map[string]any {
				return map[string]any{"step": s, "class": o.cls, "node": o.node, "peer": c20CoordStr(sent), "rtt_ns": int64(o.rtt),
					"before": c20CoordStr(before), "after": c20CoordStr(after), "dim": dim,
					"config": fmt.Sprintf("adjwin=%d filter=%d hmin=%g emax=%g rho=%g", cfg.AdjustmentWindowSize, cfg.LatencyFilterSize, cfg.HeightMin, cfg.VivaldiErrorMax, cfg.GravityRho)}
			}
			if pv != nil {
				r.Violation("update-panic", ci, fmt.Sprintf("step %d: Update panicked: %v (observation class %s)", s, pv, o.cls), wit())
				bad = true
				break
			}
			if !c20SameCoord(sent, o.coord) {
				r.Violation("peer-coordinate-modified", ci, fmt.Sprintf("step %d: Update modified the peer coordinate passed in", s), wit())
				bad = true
			}
			if msg := c20Invariants(after, dim, cfg.HeightMin, cfg.VivaldiErrorMax, errBound); msg != "" {
				r.Violation("invariant-"+strings.SplitN(o.cls, "+", 2)[0], ci, fmt.Sprintf("step %d after %s observation: local coordinate invalid: %s", s, o.cls, msg), wit())
				bad = true
			}
			if (uerr != nil) != wantRej {
				r.Violation("rejection-mismatch-"+why+"-"+strings.SplitN(o.cls, "+", 2)[0], ci, fmt.Sprintf("step %d: observation class %s: Update error=%v but the statement's rule says reject=%v (%s)", s, o.cls, uerr, wantRej, why), wit())
				bad = true
			}
			if uerr != nil {
				rejected++
				cnt["rejected_"+why]++
				if ret != nil {
					r.Violation("rejected-returned-coordinate", ci, fmt.Sprintf("step %d: rejected observation still returned a coordinate", s), wit())
					bad = true
				}
				if !c20SameCoord(before, after) {
					r.Violation("rejected-changed-coordinate", ci, fmt.Sprintf("step %d: rejected (%s) observation changed the local coordinate", s, why), wit())
					bad = true
				}
				if stBefore != "" {
					if stAfter := c20ClientState(cl); stAfter != stBefore {
						r.Violation("rejected-changed-state", ci, fmt.Sprintf("step %d: rejected (%s) observation changed internal client state (latency filter / adjustment window): before %s after %s", s, why, stBefore, stAfter), wit())
						bad = true
					}
					cnt["rejected_state_compared"]++
				}
			} else {
				accepted++
				cnt["accepted_"+strings.SplitN(o.cls, "+", 2)[0]]++
				if ret == nil || !c20SameCoord(ret, after) {
					r.Violation("returned-coordinate-differs", ci, fmt.Sprintf("step %d: Update returned %s but GetCoordinate() = %s", s, c20CoordStr(ret), c20CoordStr(after)), wit())
					bad = true
				}
				if after.Error == cfg.VivaldiErrorMax && before.Error < cfg.VivaldiErrorMax {
					cnt["error_rose_to_max"]++
				}
				if after.Height == cfg.HeightMin && before.Height > cfg.HeightMin {
					cnt["height_fell_to_min"]++
				}
			}
		}
		resets := cl.Stats().Resets
		cnt["resets"] += resets
		cnt["updates"] += accepted + rejected
		if !errBound {
			cnt["sequences_with_negative_peer_errors"]++
		}
		r.Eval(1)
		for k, v := range cnt {
			r.Count(k, v)
		}
		if accepted > 0 && rejected > 0 {
			fin := cl.GetCoordinate()
			r.Distinct(fmt.Sprintf("A|%d|%s|%d", dim, c20CoordStr(fin), resets))
		}
		if ci < 2 {
			r.Sample(map[string]any{"part": "client", "dim": dim, "accepted": accepted, "rejected": rejected, "resets": resets, "final": c20CoordStr(cl.GetCoordinate())})
		}
	})

	// ---------------- part B: ping delegate + coordinate cache on a real node
	nNodes := r.N(32, 600)
	perNode := r.N(3000, 8000)
	r.Cases("ping", nNodes, 0, func(ci int, rng *rand.Rand) {
		net := simnet.New(int64(ci) + 1)
		nd, err := cluster.Start(net, cluster.Opts{Name: "local", IP: "10.0.0.1", Profile: "passive"})
		if err != nil {
			r.Inconclusive("cluster.Start: " + err.Error())
			return
		}
		defer nd.Close()
		if nd.ML.Ping == nil {
			r.Inconclusive("node has no ping delegate")
			return
		}
		const dim = 8
		cnt := map[string]int{}
		lastAccepted := map[string]*coordinate.Coordinate{}
		sanePct := []int{0, 45, 80, 95}[rng.Intn(4)]
		accepted, rejected := 0, 0
		for s := 0; s < perNode; s++ {
			o := c20GenObs(rng, dim, rng.Intn(4) == 0, sanePct)
			name := o.node
			payload, pcls := c20Payload(rng, o.coord)
			carried, decodable := c20DecodePayload(payload)
			acceptable := false
			if decodable {
				rej, _ := c20Reject(dim, carried, o.rtt)
				acceptable = !rej
			}
			beforeC, beforeOK := nd.S.GetCachedCoordinate(name)
			if beforeOK {
				beforeC = beforeC.Clone()
			}
			localBefore, _ := nd.S.GetCoordinate()
			var pv any
			func() {
				defer func() { pv = recover() }()
				nd.ML.Ping.NotifyPingComplete(&memberlist.Node{Name: name}, o.rtt, payload)
			}()
			afterC, afterOK := nd.S.GetCachedCoordinate(name)
			localAfter, _ := nd.S.GetCoordinate()
			wit := func() map[string]any {
				return map[string]any{"step": s, "peer": name, "payload_class": pcls, "obs_class": o.cls, "payload_hex": fmt.Sprintf("%x", payload), "rtt_ns": int64(o.rtt),
					"carried": c20CoordStr(carried), "cache_before": c20CoordStr(beforeC), "cache_after": c20CoordStr(afterC), "acceptable": acceptable}
			}
			if pv != nil {
				r.Violation("ping-panic-"+pcls, ci, fmt.Sprintf("step %d: NotifyPingComplete panicked: %v", s, pv), wit())
				break
			}
			if msg := c20Invariants(localAfter, dim, 10.0e-6, 1.5, false); msg != "" {
				r.Violation("ping-invariant", ci, fmt.Sprintf("step %d: node coordinate invalid after ping: %s", s, msg), wit())
				break
			}
			changed := beforeOK != afterOK || (afterOK && !c20SameCoord(beforeC, afterC))
			if !acceptable {
				rejected++
				cnt["ping_unacceptable_"+pcls]++
				if changed {
					r.Violation("cached-without-accepted-update", ci, fmt.Sprintf("step %d: cache entry of %s changed to %s by an observation that must be rejected (payload %s, observation %s)", s, name, c20CoordStr(afterC), pcls, o.cls), wit())
					break
				}
				if !c20SameCoord(localBefore, localAfter) {
					r.Violation("ping-rejected-changed-coordinate", ci, fmt.Sprintf("step %d: unacceptable ping observation changed the node's coordinate", s), wit())
					break
				}
			} else {
				accepted++
				cnt["ping_acceptable_"+pcls]++
				// the statement only says "only when accepted"; what is cached must then
				// be the coordinate that was carried, or the entry stays as it was
				if changed {
					if !afterOK || !c20SameCoord(afterC, carried) {
						r.Violation("cached-other-coordinate", ci, fmt.Sprintf("step %d: cache entry of %s is %s, the accepted observation carried %s", s, name, c20CoordStr(afterC), c20CoordStr(carried)), wit())
						break
					}
					cnt["cache_updates_observed"]++
					lastAccepted[name] = carried
				} else if afterOK && c20SameCoord(afterC, carried) {
					cnt["cache_updates_observed"]++ // same value re-sent
				} else {
					cnt["acceptable_but_cache_unchanged"]++
				}
			}
		}
		// closing comparison: every cached peer coordinate is one that was accepted
		for p := 0; p < 5; p++ {
			name := fmt.Sprintf("peer%d", p)
			c, ok := nd.S.GetCachedCoordinate(name)
			la := lastAccepted[name]
			if ok && (la == nil || !c20SameCoord(c, la)) {
				r.Violation("cached-without-accepted-update", ci, fmt.Sprintf("end of run: cache entry of %s = %s is not the last accepted coordinate %s", name, c20CoordStr(c), c20CoordStr(la)), nil)
			}
		}
		r.Eval(1)
		cnt["ping_observations"] += accepted + rejected
		for k, v := range cnt {
			r.Count(k, v)
		}
		if accepted > 0 && rejected > 0 {
			fin, _ := nd.S.GetCoordinate()
			r.Distinct(fmt.Sprintf("B|%s|%d", c20CoordStr(fin), accepted))
		}
		if ci == 0 {
			r.Sample(map[string]any{"part": "ping", "accepted": accepted, "rejected": rejected, "stats_resets": nd.S.Stats()["coordinate_resets"]})
		}
	})
	if r.Counter("cache_updates_observed") == 0 {
		r.Inconclusive("no cache update was ever observed: the cache part is vacuous")
	}
	if r.Counter("resets") == 0 || r.Counter("rejected_state_compared") == 0 {
		r.Inconclusive("no reset / no rejected observation observed")
	}
	r.Finish("part A: 1000-step sequences on coordinate.Client (dimension 1/2/3/8, varied window/filter/HeightMin/ErrorMax/GravityRho); each step is sane (0/45/80/95/99% per sequence), at the origin, non-finite, huge-but-finite, wrong dimension, rtt boundary/out of range, edge errors/heights or a combination; 30% of sequences also carry negative peer errors (error bound not asserted from then on). part B: per real passive node, ping payloads well-formed (70%) or wrong version/empty/truncated/garbage/bit-flipped/other msgpack shape/extra field. distinct = distinct final coordinates of sequences that contained both accepted and rejected observations",
		r.N(500, 5000),
		"internal client state (latency filter, adjustment window) is read through reflection between calls, single-threaded",
		"go-msgpack decoding of a payload into the harness's mirror struct is trusted to tell what coordinate a payload carries",
		"error bound asserted only while all peer errors seen in the sequence were >= 0")
}
