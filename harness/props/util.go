package props

import (
	"unsafe"

	"verif/harness/cluster"
)

// bgroup is a WaitGroup replacement for use inside synctest bubbles: go1.25's
// sync.WaitGroup remembers the bubble it was first used in by address, and a
// WaitGroup allocated at a recycled address in another bubble makes the runtime
// abort with "WaitGroup.Add called from multiple synctest bubbles". Channels have
// no such problem.
type bgroup struct {
	n  int
	ch chan struct{}
}

func newBGroup() *bgroup { return &bgroup{ch: make(chan struct{}, 1024)} }

// Go runs f in a goroutine tracked by the group (call from one goroutine only).
func (g *bgroup) Go(f func()) {
	g.n++
	go func() {
		defer func() { g.ch <- struct{}{} }()
		f()
	}()
}

// Wait blocks until every function started with Go has returned.
func (g *bgroup) Wait() {
	for ; g.n > 0; g.n-- {
		<-g.ch
	}
}

// qTracker recognises NEW entries of a node's broadcast queues by the identity
// of their buffers (the delegate hands out the queued slices themselves).
type qTracker struct {
	seen map[uintptr]bool
	pin  [][]byte // keeps every seen buffer alive so its address is never recycled
}

func newQTracker() *qTracker { return &qTracker{seen: map[uintptr]bool{}} }

// Poll asks the delegate once for everything queued and returns the contents of
// entries not seen before.
func (tr *qTracker) Poll(nd *cluster.Node) [][]byte {
	var fresh [][]byte
	for _, m := range nd.ML.Delegate.GetBroadcasts(0, 1<<30) {
		if len(m) == 0 {
			continue
		}
		p := uintptr(unsafe.Pointer(&m[0]))
		if !tr.seen[p] {
			tr.seen[p] = true
			tr.pin = append(tr.pin, m)
			fresh = append(fresh, m)
		}
	}
	return fresh
}
