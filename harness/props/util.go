package props

// bgroup is a WaitGroup replacement for use inside synctest bubbles: go1.25's
// sync.WaitGroup remembers the bubble it was first used in by address, and a
// WaitGroup allocated at a recycled address in another bubble makes the runtime
// abort with "WaitGroup.Add called from multiple synctest bubbles". Channels have
// no such problem.
type bgroup struct {
	n  int
	ch chan struct{}
}

func newBGroup() *bgroup { return &bgroup{ch: make(chan struct{}, 1024)} }

// Go runs f in a goroutine tracked by the group (call from one goroutine only).
func (g *bgroup) Go(f func()) {
	g.n++
	go func() {
		defer func() { g.ch <- struct{}{} }()
		f()
	}()
}

// Wait blocks until every function started with Go has returned.
func (g *bgroup) Wait() {
	for ; g.n > 0; g.n-- {
		<-g.ch
	}
}
