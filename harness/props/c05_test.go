package props

import (
	"fmt"
	"math"
	"math/rand"
	"os"
	"strings"
	"testing"
	"testing/synctest"
	"time"

	"github.com/hashicorp/serf/serf"

	"verif/harness/cluster"
	"verif/harness/evid"
	"verif/harness/simnet"
	"verif/harness/wire"
)

// C05: each user event reaches the application at most once per node, and a
// first-time event inside the window and not below the cut-off is delivered.
//
// One real node per history (passive memberlist, virtual time). Events arrive
// by gossip (NotifyMsg), by push/pull (MergeRemoteState, join and non-join) and
// through a real Join(ignoreOld=true) against a puppet whose push/pull state is
// scripted (that is the only way to raise the join cut-off). A reference window
// model (clock = max(clock, t+1); too old iff clock > B and t < clock-B; cut-off)
// predicts delivery of every first-time event; the delivery log is checked for
// duplicates of (LTime, name, payload).

type c05Ev struct {
	LTime   uint64
	Name    string
	Payload string
}

type c05Step struct {
	Kind   string // "gossip", "pp", "ppjoin", "joinignore", "local"
	Events []c05Ev
	ELTime uint64 // EventLTime of a push/pull
}

type c05Model struct {
	B       uint64
	clock   uint64
	min     uint64
	seen    map[c05Ev]bool // ever delivered
	arrived map[c05Ev]bool
}

func (m *c05Model) witness(t uint64) {
	if t >= m.clock {
		m.clock = t + 1
	}
}

// arrive returns whether the model expects delivery (only meaningful for first-time events).
func (m *c05Model) arrive(e c05Ev) (expect bool, first bool) {
	m.witness(e.LTime)
	first = !m.arrived[e]
	m.arrived[e] = true
	if e.LTime < m.min {
		return false, first
	}
	if m.clock > m.B && e.LTime < m.clock-m.B {
		return false, first
	}
	return true, first
}

func c05Gen(rng *rand.Rand) (B int, steps []c05Step) {
	B = []int{1, 2, 3, 4, 16, 512}[rng.Intn(6)]
	base := []uint64{0, 1, 7, 1000, 1 << 32, math.MaxUint64 - 600}[rng.Intn(6)]
	span := uint64(3*B + 3)
	if span > 40 {
		span = 40
	}
	pool := []c05Ev{}
	names := []string{"a", "b", ""}
	mk := func() c05Ev {
		var lt uint64
		switch rng.Intn(6) {
		case 0: // slot collisions
			lt = base + uint64(rng.Intn(3))*uint64(B) + uint64(rng.Intn(2))
		case 1: // anywhere in a wider band
			lt = base + uint64(rng.Intn(int(span)+1))*uint64(1+rng.Intn(2))
		default:
			lt = base + uint64(rng.Intn(int(span)+1))
		}
		if lt == math.MaxUint64 {
			lt--
		}
		e := c05Ev{LTime: lt, Name: names[rng.Intn(len(names))], Payload: fmt.Sprint(rng.Intn(3))}
		return e
	}
	pick := func() c05Ev {
		if len(pool) > 0 && rng.Intn(3) != 0 {
			return pool[rng.Intn(len(pool))] // duplicate / replay
		}
		e := mk()
		pool = append(pool, e)
		return e
	}
	n := 5 + rng.Intn(60)
	for i := 0; i < n; i++ {
		switch x := rng.Intn(20); {
		case x < 11:
			steps = append(steps, c05Step{Kind: "gossip", Events: []c05Ev{pick()}})
		case x < 16:
			k := 1 + rng.Intn(6)
			st := c05Step{Kind: []string{"pp", "ppjoin"}[rng.Intn(2)]}
			for j := 0; j < k; j++ {
				st.Events = append(st.Events, pick())
			}
			if rng.Intn(2) == 0 && len(pool) > 2 { // replay of (nearly) everything
				st.Events = append(st.Events, pool...)
			}
			st.ELTime = base + uint64(rng.Intn(int(span)+2))
			if rng.Intn(4) == 0 {
				st.ELTime = 0
			}
			steps = append(steps, st)
		case x < 18:
			k := rng.Intn(5)
			st := c05Step{Kind: "joinignore"}
			for j := 0; j < k; j++ {
				st.Events = append(st.Events, pick())
			}
			st.ELTime = base + uint64(rng.Intn(int(span)+2))
			steps = append(steps, st)
		default:
			if rng.Intn(3) == 0 {
				// an ignore-old join that reaches nobody (peer not up yet): it changes nothing
				steps = append(steps, c05Step{Kind: "joinfail"})
				break
			}
			steps = append(steps, c05Step{Kind: "local", Events: []c05Ev{{Name: "loc", Payload: fmt.Sprint("L", i)}}})
		}
	}
	return
}

func c05PP(st c05Step) []byte {
	byLT := map[uint64]*wire.UserEvents{}
	var order []*wire.UserEvents
	for _, e := range st.Events {
		ue := byLT[e.LTime]
		if ue == nil {
			ue = &wire.UserEvents{LTime: e.LTime}
			byLT[e.LTime] = ue
			order = append(order, ue)
		}
		ue.Events = append(ue.Events, wire.UserEv{Name: e.Name, Payload: []byte(e.Payload)})
	}
	evs := []*wire.UserEvents{nil}
	evs = append(evs, order...)
	return wire.Encode(wire.PushPull, &wire.MsgPushPull{LTime: 1, StatusLTimes: map[string]uint64{}, LeftMembers: []string{}, EventLTime: st.ELTime, Events: evs, QueryLTime: 1})
}

// c05Order returns the events of a push/pull in the order serf will process them
// (grouped by LTime in order of first appearance).
func c05Order(st c05Step) []c05Ev {
	var lts []uint64
	groups := map[uint64][]c05Ev{}
	for _, e := range st.Events {
		if _, ok := groups[e.LTime]; !ok {
			lts = append(lts, e.LTime)
		}
		groups[e.LTime] = append(groups[e.LTime], e)
	}
	var out []c05Ev
	for _, lt := range lts {
		out = append(out, groups[lt]...)
	}
	return out
}

// c05CC is the coalesce flag an event is gossiped with: a fixed attribute of the event (half of them carry
// it). Push/pull states do not carry the flag, so a replay of the same event arrives without it; the flag is
// a delivery hint and not part of the event's identity (seeded C05-i).
func c05CC(e c05Ev) bool {
	return (e.LTime+uint64(len(e.Name))+uint64(len(e.Payload))+uint64(e.Payload[len(e.Payload)-1]))%2 == 1
}

func c05Gossip(e c05Ev) []byte {
	return wire.Encode(wire.UserEvent, &wire.MsgUserEvent{LTime: e.LTime, Name: e.Name, Payload: []byte(e.Payload), CC: c05CC(e)})
}

func c05String(B int, steps []c05Step) string {
	var sb strings.Builder
	fmt.Fprintf(&sb, "B=%d ", B)
	for _, s := range steps {
		fmt.Fprintf(&sb, "%s", s.Kind)
		if s.Kind != "gossip" && s.Kind != "local" {
			fmt.Fprintf(&sb, "(E=%d)", s.ELTime)
		}
		sb.WriteString("[")
		for _, e := range s.Events {
			fmt.Fprintf(&sb, "%d:%s:%s ", e.LTime, e.Name, e.Payload)
		}
		sb.WriteString("] ")
	}
	return sb.String()
}

func c05Sequential(t *testing.T, rng *rand.Rand) (viol []string, stats map[string]int, desc string) {
	B, steps := c05Gen(rng)
	desc = c05String(B, steps)
	stats = map[string]int{}
	synctest.Test(t, func(t *testing.T) {
		net := simnet.New(1)
		nd, err := cluster.Start(net, cluster.Opts{Name: "n1", IP: "10.0.0.1", Profile: "passive", EventBuf: 1 << 16,
			Mutate: func(c *serf.Config) { c.EventBuffer = B }})
		if err != nil {
			viol = append(viol, "start: "+err.Error())
			return
		}
		defer nd.Close()
		var pup *cluster.Puppet
		defer func() {
			if pup != nil {
				pup.Close()
			}
		}()
		m := &c05Model{B: uint64(B), clock: 1, seen: map[c05Ev]bool{}, arrived: map[c05Ev]bool{}}
		delivered := map[c05Ev]int{}
		cursor := 0
		collect := func() []c05Ev {
			synctest.Wait()
			evs := nd.Events()
			var out []c05Ev
			for _, le := range evs[cursor:] {
				if u, ok := le.E.(serf.UserEvent); ok {
					out = append(out, c05Ev{uint64(u.LTime), u.Name, string(u.Payload)})
				}
			}
			cursor = len(evs)
			return out
		}
		clockOf := func() uint64 {
			var c uint64
			fmt.Sscan(nd.S.Stats()["event_time"], &c)
			return c
		}
		check := func(si int, st c05Step, expected map[c05Ev]bool, got []c05Ev) {
			for _, g := range got {
				delivered[g]++
				stats["deliveries"]++
				if delivered[g] > 1 {
					viol = append(viol, fmt.Sprintf("DUP: step %d (%s): event %v delivered %d times", si, st.Kind, g, delivered[g]))
				}
				if _, known := expected[g]; !known && st.Kind != "local" {
					viol = append(viol, fmt.Sprintf("SPURIOUS: step %d (%s): delivered %v which was not in this step's input", si, st.Kind, g))
				}
			}
			gotSet := map[c05Ev]bool{}
			for _, g := range got {
				gotSet[g] = true
			}
			for e, exp := range expected {
				if exp && !gotSet[e] {
					viol = append(viol, fmt.Sprintf("MISSING: step %d (%s): first-time event %v inside window (model clock %d, B %d, cut-off %d) was not delivered", si, st.Kind, e, m.clock, B, m.min))
				}
				if !exp && gotSet[e] && !m.seen[e] {
					// delivered although the model says outside window / below cut-off: the
					// statement does not forbid that (C14 covers the restart cut-off), so it is
					// only counted; a too-permissive window shows up as a DUP if it matters
					stats["delivered_outside_reference_window"]++
				}
			}
			for _, g := range got {
				m.seen[g] = true
			}
			if rc := clockOf(); rc != m.clock {
				viol = append(viol, fmt.Sprintf("CLOCK: step %d (%s): event clock %d, reference %d", si, st.Kind, rc, m.clock))
				m.clock = rc
			}
		}
		for si, st := range steps {
			if len(viol) > 0 {
				break
			}
			expected := map[c05Ev]bool{} // first-time events of this step -> expected delivered?
			model := func(e c05Ev) {
				exp, first := m.arrive(e)
				if first {
					expected[e] = exp
					if exp {
						stats["first_in_window"]++
					} else {
						stats["first_outside"]++
					}
				} else {
					if _, ok := expected[e]; !ok {
						expected[e] = false
						if m.seen[e] {
							stats["replays_of_delivered"]++
						}
					}
				}
			}
			switch st.Kind {
			case "gossip":
				model(st.Events[0])
				nd.NotifyMsg(c05Gossip(st.Events[0]))
			case "pp", "ppjoin":
				if st.ELTime > 0 {
					m.witness(st.ELTime - 1)
				}
				for _, e := range c05Order(st) {
					model(e)
				}
				nd.ML.Delegate.MergeRemoteState(c05PP(st), st.Kind == "ppjoin")
			case "joinignore":
				if pup == nil {
					p, err := cluster.StartPuppet(net, cluster.PuppetOpts{Name: "pup", IP: "10.0.0.9", Profile: "passive"})
					if err != nil {
						viol = append(viol, "puppet: "+err.Error())
						return
					}
					pup = p
				}
				stc := st
				pup.SetState(func(join bool) []byte { return c05PP(stc) })
				if st.ELTime > 0 {
					m.witness(st.ELTime - 1)
				}
				if st.ELTime > m.min {
					m.min = st.ELTime
				}
				for _, e := range c05Order(st) {
					model(e)
				}
				if _, err := nd.S.Join([]string{pup.Addr}, true); err != nil {
					viol = append(viol, "join: "+err.Error())
					return
				}
				stats["ignore_joins"]++
			case "joinfail":
				if n, err := nd.S.Join([]string{"10.0.0.77:7946"}, true); err == nil || n != 0 {
					viol = append(viol, fmt.Sprintf("join of an address nobody listens on returned n=%d err=%v", n, err))
					return
				}
				stats["ignore_joins_that_reached_nobody"]++
			case "local":
				// a locally issued event: clock++ ; it is delivered locally
				e := c05Ev{LTime: m.clock, Name: st.Events[0].Name, Payload: st.Events[0].Payload}
				m.arrived[e] = true
				expected[e] = true
				m.clock++
				if err := nd.S.UserEvent(e.Name, []byte(e.Payload), c05CC(c05Ev{Name: e.Name, Payload: e.Payload})); err != nil {
					viol = append(viol, "UserEvent: "+err.Error())
				}
			}
			got := collect()
			check(si, st, expected, got)
			stats["steps"]++
		}
		time.Sleep(time.Second)
	})
	return
}

// c05Concurrent: several goroutines deliver overlapping duplicates at once; only
// at-most-once is decidable there.
func c05Concurrent(t *testing.T, rng *rand.Rand) (viol []string, stats map[string]int) {
	stats = map[string]int{}
	B := []int{2, 4, 16, 512}[rng.Intn(4)]
	var evs []c05Ev
	for i := 0; i < 6+rng.Intn(10); i++ {
		evs = append(evs, c05Ev{LTime: uint64(1 + rng.Intn(B+2)), Name: "c", Payload: fmt.Sprint(rng.Intn(4))})
	}
	G := 2 + rng.Intn(6)
	synctest.Test(t, func(t *testing.T) {
		net := simnet.New(1)
		nd, err := cluster.Start(net, cluster.Opts{Name: "n1", IP: "10.0.0.1", Profile: "passive", EventBuf: 1 << 16,
			Mutate: func(c *serf.Config) { c.EventBuffer = B }})
		if err != nil {
			viol = append(viol, "start: "+err.Error())
			return
		}
		defer nd.Close()
		wg := newBGroup()
		for g := 0; g < G; g++ {
			seed := rng.Int63()
			wg.Go(func() {
				lr := rand.New(rand.NewSource(seed))
				for k := 0; k < 30; k++ {
					if lr.Intn(4) == 0 {
						st := c05Step{ELTime: 1}
						for j := 0; j < 4; j++ {
							st.Events = append(st.Events, evs[lr.Intn(len(evs))])
						}
						nd.ML.Delegate.MergeRemoteState(c05PP(st), lr.Intn(2) == 0)
					} else {
						nd.NotifyMsg(c05Gossip(evs[lr.Intn(len(evs))]))
					}
				}
			})
		}
		wg.Wait()
		synctest.Wait()
		cnt := map[c05Ev]int{}
		for _, le := range nd.Events() {
			if u, ok := le.E.(serf.UserEvent); ok {
				cnt[c05Ev{uint64(u.LTime), u.Name, string(u.Payload)}]++
				stats["deliveries"]++
			}
		}
		for e, c := range cnt {
			if c > 1 {
				viol = append(viol, fmt.Sprintf("DUP(concurrent): %v delivered %d times", e, c))
			}
		}
		stats["distinct_events"] = len(cnt)
	})
	return
}

func TestC05(t *testing.T) {
	r := evid.Start(t, "C05", "exploration")
	racePhase := os.Getenv("VERIF_PHASE") == "race"
	nSeq := r.N(4000, 150000)
	nConc := r.N(300, 10000)
	if racePhase {
		nSeq, nConc = r.N(50, 3000), r.N(80, 5000)
	}
	r.Cases("seq", nSeq, 0, func(ci int, rng *rand.Rand) {
		viol, stats, desc := c05Sequential(t, rng)
		r.Eval(1)
		for k, v := range stats {
			r.Count("seq_"+k, v)
		}
		if stats["replays_of_delivered"] > 0 && stats["first_outside"] > 0 {
			r.Distinct(desc)
		}
		for _, v := range viol {
			r.Violation(strings.ToLower(strings.SplitN(v, ":", 2)[0]), ci, v+" ; history: "+desc, desc)
			break
		}
		if ci == 1 {
			r.Sample(desc)
		}
	})
	r.Cases("conc", nConc, 0, func(ci int, rng *rand.Rand) {
		viol, stats := c05Concurrent(t, rng)
		r.Eval(1)
		for k, v := range stats {
			r.Count("conc_"+k, v)
		}
		for _, v := range viol {
			r.Violation("dup-concurrent", ci, v, nil)
		}
	})
	floor := 200
	if racePhase {
		floor = 10
	}
	r.Finish("histories of 5-65 steps (gossip, push/pull join/non-join, real Join(ignoreOld) against a scripted puppet, local UserEvent) over event buffers 1,2,3,4,16,512 with LTimes clustered at slot collisions, window edges, 0 and 2^64-600; two thirds of picks replay earlier events; non-trivial = history with at least one replay of a delivered event and one first-time event outside window/cut-off; plus concurrent duplicate delivery rounds (at-most-once only)",
		floor, "histories never witness LTime 2^64-1 (see C19 known finding)", "reference window model follows the documented Lamport/window arithmetic; the node's event clock is compared with it at every step")
}
