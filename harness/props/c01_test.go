package props

import (
	"fmt"
	"math/rand"
	"os"
	"strings"
	"testing"
	"testing/synctest"
	"time"

	"github.com/hashicorp/serf/serf"

	"verif/harness/cluster"
	"verif/harness/evid"
	"verif/harness/simnet"
)

// C01: membership views converge to the true cluster state after faults heal.
//
// 3-5 real Serf nodes over real memberlist (LAN / Local / WAN timings) on simnet
// in a testing/synctest bubble. A random script of joins, graceful leaves (only
// while no cut is active), crashes, restarts of crashed nodes, tag updates, user
// events, partitions, asymmetric cuts, packet loss / duplication / delay and
// heals runs in virtual time. Then the network is healed and the harness polls
// every virtual second: within 10 virtual minutes every running node must list
// every running node as alive, every member that left while connected as left
// and every crashed member as failed (absence is accepted only at an instance
// that never saw a join event for that member), and stay so for 2 more minutes.

type c01Node struct {
	name, ip string
	nd       *cluster.Node
	state    string // running | left | crashed | never
	joined   bool   // the running instance has joined somebody (or was joined)
	gen      int
	silent   bool // restarted on its old address without joining anybody: the survivors have to find it
}

func TestC01(t *testing.T) {
	r := evid.Start(t, "C01", "exploration")
	n := r.N(150, 4000)
	if os.Getenv("VERIF_PHASE") == "race" {
		n = r.N(5, 60)
	}
	profiles := []string{"lan", "lan", "local", "wan"}

	r.Cases("scenario", n, 0, func(ci int, rng *rand.Rand) {
		profile := profiles[rng.Intn(len(profiles))]
		nn := 3 + rng.Intn(3)
		nops := 6 + rng.Intn(20)
		var trace []string
		var setupErr string
		var problems []string // per-view disagreements at the deadline (or at a relapse)
		var probKeys []string
		converged := time.Duration(-1)
		faults, changes, leavesSkipped, leaves, relapses, uninformed, joinsDuringLeave, prefixSettled, silentRestarts, silentAtTheEnd := 0, 0, 0, 0, 0, 0, 0, 0, 0, 0

		synctest.Test(t, func(t *testing.T) {
			nw := simnet.New(int64(ci))
			t0 := time.Now()
			nodes := make([]*c01Node, nn)
			leftSoonAfterFault := map[string]bool{} // leaver -> a cut or loss had been active less than 3 virtual minutes before
			mut := func(c *serf.Config) {
				c.ReconnectInterval = time.Duration(2+rng.Intn(4)) * time.Second
				c.ReconnectTimeout = 1000 * time.Hour
				c.TombstoneTimeout = 1000 * time.Hour
				c.ReapInterval = 1000 * time.Hour
			}
			start := func(x *c01Node) bool {
				o := cluster.Opts{Name: x.name, IP: x.ip, Profile: profile, Mutate: mut}
				if f := os.Getenv("VERIF_C01_LOG"); f != "" { // debugging aid for replays: serf and memberlist logs of every node
					if fh, err := os.OpenFile(f, os.O_APPEND|os.O_CREATE|os.O_WRONLY, 0644); err == nil {
						o.LogTo = c01Prefix{fh, x.name, t0}
					}
				}
				nd, err := cluster.Start(nw, o)
				if err != nil {
					setupErr = "start: " + err.Error()
					return false
				}
				x.nd, x.state, x.joined = nd, "running", false
				x.gen++
				return true
			}
			defer func() {
				for _, x := range nodes {
					if x != nil && x.nd != nil {
						x.nd.Close()
					}
				}
				time.Sleep(5 * time.Minute)
			}()
			for i := range nodes {
				nodes[i] = &c01Node{name: fmt.Sprintf("n%d", i), ip: fmt.Sprintf("10.1.%d.%d", ci%250, i+1), state: "never"}
				if !start(nodes[i]) {
					return
				}
			}
			running := func() []*c01Node {
				var out []*c01Node
				for _, x := range nodes {
					if x.state == "running" {
						out = append(out, x)
					}
				}
				return out
			}
			tryJoin := func(x *c01Node) {
				for _, y := range running() {
					if y != x && y.joined || y != x && y == nodes[0] {
						if _, err := x.nd.S.Join([]string{y.nd.Addr}, false); err == nil {
							x.joined = true
							return
						}
					}
				}
			}
			// check compares every running node's view with the ground truth
			check := func() (bad []string, keys []string) {
				// a graceful leave is information: gossip can only deliver it where a running instance holds it
				leftKnown := map[string]bool{}
				for _, v := range running() {
					for name, st := range v.nd.MemberMap() {
						if st == serf.StatusLeft {
							leftKnown[name] = true
						}
					}
				}
				for _, v := range running() {
					learned := map[string]bool{}
					sawLeave := map[string]bool{}
					for _, le := range v.nd.Events() {
						if me, ok := le.E.(serf.MemberEvent); ok {
							for _, m := range me.Members {
								switch me.Type {
								case serf.EventMemberJoin:
									learned[m.Name] = true
								case serf.EventMemberLeave:
									sawLeave[m.Name] = true
								}
							}
						}
					}
					view := v.nd.MemberMap()
					for _, o := range nodes {
						st, listed := view[o.name]
						var want serf.MemberStatus
						switch o.state {
						case "running":
							want = serf.StatusAlive
						case "left":
							want = serf.StatusLeft
						case "crashed":
							want = serf.StatusFailed
						}
						switch {
						case !listed && o.state == "running":
							bad = append(bad, fmt.Sprintf("%s does not list running member %s", v.name, o.name))
							keys = append(keys, "running-member-missing")
						case !listed && learned[o.name]:
							bad = append(bad, fmt.Sprintf("%s no longer lists %s (%s) although it had learned of it", v.name, o.name, o.state))
							keys = append(keys, o.state+"-member-missing")
						case listed && o.state == "left" && st == serf.StatusFailed && !leftKnown[o.name] && !sawLeave[o.name]:
							// no running instance ever heard of the leave (everybody who did has crashed): nothing can tell v
							uninformed++
						case listed && st != want:
							bad = append(bad, fmt.Sprintf("%s lists %s member %s as %v", v.name, o.state, o.name, st))
							key := o.state + "-member-listed-" + st.String()
							if o.state == "left" && st == serf.StatusFailed && leftSoonAfterFault[o.name] {
								// failure-detector suspicion from the healed fault may still be pending when the leave starts
								key += "/leave-within-3min-of-a-healed-fault"
							}
							keys = append(keys, key)
						}
					}
				}
				return
			}
			nodes[0].joined = true
			for _, x := range nodes[1:] {
				tryJoin(x)
			}
			time.Sleep(time.Duration(5+rng.Intn(20)) * time.Second)
			cutActive, lossActive := false, false
			lastFault := time.Duration(-1) // virtual time at which a cut or loss was last active
			log := func(f string, a ...any) {
				trace = append(trace, fmt.Sprintf("%v ", time.Since(t0).Round(time.Millisecond))+fmt.Sprintf(f, a...))
			}
			// leaveOp: x leaves gracefully (only when the views agree at this instant); `back`, or half of the
			// time some crashed node, comes back and joins while the leave is in progress. false = setup error.
			leaveOp := func(x *c01Node, back *c01Node) bool {
				// "left gracefully (while connected)": only when the views agree at this instant
				synctest.Wait()
				if bad, _ := check(); len(bad) > 0 {
					leavesSkipped++
					return true
				}
				log("leave %s", x.name)
				leftSoonAfterFault[x.name] = lastFault >= 0 && time.Since(t0)-lastFault < 3*time.Minute
				// a crashed node comes back and joins while the leave is in progress (the leaver's intent is
				// out, its peers list it as leaving, it has not left memberlist yet) - no fault, only a join
				// interleaved with a leave
				if back == nil {
					for _, y := range nodes {
						if y.state == "crashed" && rng.Intn(2) == 0 {
							back = y
							break
						}
					}
				}
				if back != nil {
					lg := newBGroup()
					lg.Go(func() { _ = x.nd.S.Leave() })
					time.Sleep(time.Duration(20+rng.Intn(1500)) * time.Millisecond)
					log("restart %s during the leave of %s", back.name, x.name)
					if !start(back) {
						return false
					}
					tryJoin(back)
					changes++
					joinsDuringLeave++
					if os.Getenv("VERIF_C01_DEBUG") != "" {
						var vs []string
						for _, v := range running() {
							vs = append(vs, fmt.Sprintf("%s:%v", v.name, v.nd.MemberMap()[x.name]))
						}
						fmt.Printf("DEBUG case %d %s: leaver %s state=%v joined=%v views %v\n", ci, profile, x.name, x.nd.S.State(), back.joined, vs)
					}
					lg.Wait()
				} else {
					_ = x.nd.S.Leave()
				}
				x.nd.Close()
				x.state = "left"
				changes++
				leaves++
				return true
			}
			// a fifth of the scripts open with exactly that: one node crashes, is noticed, and comes back
			// while another one is leaving
			if rng.Intn(5) == 0 {
				y := nodes[1+rng.Intn(nn-1)]
				x := nodes[rng.Intn(nn)]
				if x != y {
					log("crash %s", y.name)
					y.nd.Close()
					y.state = "crashed"
					changes++
					time.Sleep(time.Duration(30+rng.Intn(200)) * time.Second)
					if !leaveOp(x, y) {
						return
					}
					// nothing but a crash, a leave and a restart so far and the network is whole: the views have
					// to become right before the script goes on (the later operations may remove the witnesses)
					quiet := time.Now()
					for {
						synctest.Wait()
						bad, keys := check()
						if len(bad) == 0 {
							prefixSettled++
							break
						}
						if time.Since(quiet) > 10*time.Minute {
							problems, probKeys = bad, keys
							log("views still wrong 10 minutes after the restart during the leave")
							return
						}
						time.Sleep(time.Second)
					}
					time.Sleep(time.Duration(rng.Intn(25000)) * time.Millisecond)
				}
			}
			for op := 0; op < nops; op++ {
				run := running()
				x := nodes[rng.Intn(nn)]
				switch k := rng.Intn(100); {
				case k < 12 && x.state == "running" && len(run) > 1 && !cutActive && !lossActive:
					if !leaveOp(x, nil) {
						return
					}
				case k < 28 && x.state == "running" && len(run) > 1:
					log("crash %s", x.name)
					x.nd.Close()
					x.state = "crashed"
					changes++
				case k < 45 && x.state == "crashed":
					// a third of the restarts come back on the old address without joining anybody (no
					// retry-join configured): whoever still lists the node as failed keeps redialling it
					// (serf's reconnect loop), which is what brings it back
					knownFailed := false
					for _, v := range run {
						if st, ok := v.nd.MemberMap()[x.name]; ok && st == serf.StatusFailed {
							knownFailed = true
						}
					}
					if knownFailed && !cutActive && !lossActive && rng.Intn(3) == 0 {
						log("restart %s without joining anybody", x.name)
						if !start(x) {
							return
						}
						x.silent = true
						silentRestarts++
						changes++
						break
					}
					log("restart %s", x.name)
					if !start(x) {
						return
					}
					x.silent = false
					tryJoin(x)
					changes++
				case k < 55 && len(run) >= 2:
					var A, B []string
					for _, y := range nodes {
						if rng.Intn(2) == 0 {
							A = append(A, y.nd.Addr)
						} else {
							B = append(B, y.nd.Addr)
						}
					}
					log("partition %v | %v", A, B)
					nw.Partition(A, B)
					cutActive = true
					faults++
				case k < 62:
					a, b := nodes[rng.Intn(nn)], nodes[rng.Intn(nn)]
					if a != b {
						log("cut %s -> %s", a.name, b.name)
						nw.Cut(a.nd.Addr, b.nd.Addr)
						cutActive = true
						faults++
					}
				case k < 72:
					loss, dup := float64(5+rng.Intn(36))/100, float64(rng.Intn(20))/100
					delay := time.Duration(rng.Intn(2000)) * time.Millisecond
					log("loss %.2f dup %.2f delay<=%v", loss, dup, delay)
					nw.SetLoss(loss, dup, delay)
					lossActive = true
					faults++
				case k < 82:
					log("heal")
					if cutActive || lossActive {
						lastFault = time.Since(t0)
					}
					nw.Heal()
					cutActive, lossActive = false, false
				case k < 90 && x.state == "running":
					log("tags %s", x.name)
					g := newBGroup()
					g.Go(func() { _ = x.nd.S.SetTags(map[string]string{"v": fmt.Sprint(op)}) })
					g.Wait()
				case x.state == "running":
					log("event from %s", x.name)
					_ = x.nd.S.UserEvent("e", []byte{byte(op)}, false)
				}
				time.Sleep(time.Duration(rng.Intn(25000)) * time.Millisecond)
			}
			nw.Heal()
			log("final heal")
			// instances created by a restart know nothing of members they never met and nobody may know them:
			// like an agent with retry-join they (re)join one seed after the heal; original instances must
			// find each other again through serf's own reconnect loop
			if run := running(); len(run) > 0 {
				// a silent restart stays silent as long as some other running instance still lists the node
				// (it will be redialled); otherwise it behaves like any other restarted instance
				var loud []*c01Node
				for _, x := range run {
					if x.silent {
						known := false
						for _, v := range run {
							if _, ok := v.nd.MemberMap()[x.name]; ok && v != x && !v.silent {
								known = true
							}
						}
						if known {
							silentAtTheEnd++
							continue
						}
						x.silent = false
					}
					loud = append(loud, x)
				}
				if len(loud) > 0 {
					seed := loud[0]
					for _, x := range loud[1:] {
						if x.gen > 1 || seed.gen > 1 || !x.joined {
							if _, err := x.nd.S.Join([]string{seed.nd.Addr}, false); err == nil {
								x.joined = true
							}
						}
					}
				}
			}
			// ---- bounded convergence
			// there must be an instant within 10 virtual minutes from which the views stay right for 2 minutes
			healedAt := time.Now()
			streakStart := time.Duration(-1)
			for time.Since(healedAt) <= 12*time.Minute {
				synctest.Wait()
				now := time.Since(healedAt)
				if bad, _ := check(); len(bad) == 0 {
					if streakStart < 0 {
						streakStart = now
					}
					if now-streakStart >= 2*time.Minute {
						converged = streakStart
						break
					}
				} else {
					if streakStart >= 0 {
						relapses++
					}
					streakStart = -1
					if now > 10*time.Minute {
						break
					}
				}
				time.Sleep(time.Second)
			}
			if converged < 0 {
				problems, probKeys = check()
				if len(problems) == 0 {
					problems, probKeys = []string{"views were right at the end but never for 2 minutes in a row"}, []string{"never-stable"}
				}
			}
		})

		r.Eval(1)
		if setupErr != "" {
			r.Count("setup_errors", 1)
			return
		}
		r.Count("operations", len(trace))
		r.Count("graceful_leaves", leaves)
		r.Count("graceful_leaves_skipped_views_not_converged", leavesSkipped)
		r.Count("restarts_joining_during_a_graceful_leave", joinsDuringLeave)
		r.Count("restarts_without_joining_anybody", silentRestarts)
		r.Count("restarted_nodes_left_to_the_survivors_reconnect_loop_at_the_end", silentAtTheEnd)
		r.Count("scripts_opening_with_a_restart_during_a_leave_settled", prefixSettled)
		r.Count("transient_relapses_before_stability", relapses)
		if uninformed > 0 {
			r.Count("scenarios_where_no_running_instance_knew_of_a_leave", 1)
		}
		wit := map[string]any{"profile": profile, "nodes": nn, "script": trace, "disagreements": problems}
		if len(problems) > 0 {
			seen := map[string]bool{}
			for i, k := range probKeys {
				if !seen[k] {
					seen[k] = true
					r.Violation(k, ci, fmt.Sprintf("10 virtual minutes after the network healed (%s, %d nodes): %s | script: %s", profile, nn, problems[i], strings.Join(trace, "; ")), wit)
				}
			}
		} else {
			sec := int(converged / time.Second)
			bucket := "converged_within_0001s"
			for _, b := range []int{1, 5, 15, 30, 60, 120, 300, 600} {
				if sec <= b {
					bucket = fmt.Sprintf("converged_within_%04ds", b)
					break
				}
			}
			r.Count(bucket, 1)
			r.Max("max_seconds_to_converge", int64(sec))
		}
		if faults > 0 && changes > 0 {
			r.Distinct(profile + strings.Join(c01StripTimes(trace), ";"))
		}
		r.Count("scenarios_"+profile, 1)
		if ci < 2 {
			r.Sample(wit)
		}
	})
	if r.Counter("setup_errors") > 0 {
		r.Inconclusive(fmt.Sprintf("%d scenarios could not be set up", r.Counter("setup_errors")))
	}
	floor := r.N(60, 1500)
	if os.Getenv("VERIF_PHASE") == "race" {
		floor = 1
	}
	r.Finish("one scenario = 3-5 real nodes (LAN, Local or WAN memberlist timings, reconnect every 2-5 s) running a script of 6-25 operations (graceful leave only while no cut is active, crash, restart of a crashed node, partition, asymmetric cut, loss 5-40 % with duplication and delay up to 2 s, heal, tag update, user event) with up to 25 s between operations; then heal and poll every virtual second; non-trivial = at least one fault and one membership change; distinct = different profile and script",
		floor,
		"'eventually' is bounded: 10 virtual minutes after the final heal, then stable for 2 more",
		"a member may be missing only from an instance whose event stream never carried a join for it",
		"restarts are only issued for crashed nodes: a restart after a graceful or forced leave is the subject of C02's known findings (stale leave vs the new incarnation's join) and is not generated here; force-leave is not generated",
	)
}

type c01Prefix struct {
	w    *os.File
	name string
	t0   time.Time
}

func (p c01Prefix) Write(b []byte) (int, error) {
	fmt.Fprintf(p.w, "%v %s %s", time.Since(p.t0).Round(time.Millisecond), p.name, b)
	return len(b), nil
}

func c01StripTimes(tr []string) []string {
	out := make([]string, len(tr))
	for i, s := range tr {
		if j := strings.Index(s, " "); j >= 0 {
			out[i] = s[j+1:]
		} else {
			out[i] = s
		}
	}
	return out
}
