package props

import (
	"fmt"
	"math/rand"
	"net"
	"os"
	"sort"
	"strconv"
	"strings"
	"sync"
	"testing"
	"testing/synctest"
	"time"

	"github.com/hashicorp/serf/serf"

	"verif/harness/cluster"
	"verif/harness/evid"
	"verif/harness/wire"
)

// C25: RPC replies and stream records stay correlated and well-formed.
//
// Real Agent + AgentIPC on a pipe, agent's serf on simnet with 1-3 puppet peers
// (real members that answer queries with scripted acks/responses at scripted
// virtual times), raw msgpack client whose reader can be paused exactly.
// Everything the agent writes on the connection is parsed as header[+body]
// frames and checked against ground truth:
//   * every header Seq is the Seq of a request sent on this connection and the
//     body shape is the one that request/stream kind produces; single-reply
//     requests are answered once;
//   * an event stream carries exactly the events that the agent's event loop
//     fanned out while the stream was registered and that match its filter
//     (independent filter implementation), in order;
//   * a query stream carries only acks/responses that a puppet (or the agent
//     itself) really sent for that query not later than its deadline, exactly
//     one `done`, and nothing after it.
// Primary workload: the reader stops before the query deadline while records
// are in flight (the agent's Send blocks across the deadline) and resumes at or
// after it; plus prompt readers, replies scheduled exactly at the deadline
// instant, and other requests interleaved on the same connection.

type c25Action struct {
	Kind       string // "ack" | "response"
	Off        time.Duration
	RelToDL    bool // Off is relative to the query deadline (else to receipt)
	Payload    []byte
	Copies     int
	descString string
}

type c25Sent struct {
	Query   string
	From    string
	Kind    string
	Payload string
	At      time.Time
}

type c25Plan struct {
	Deadline time.Time
	Actions  map[string][]c25Action // by puppet name
}

type c25Shared struct {
	mu    sync.Mutex
	plans map[string]*c25Plan
	sent  []c25Sent
	seen  map[string]bool
	recv  map[string]int // query name -> puppets that received it
}

func (sh *c25Shared) onMsg(p *cluster.Puppet, buf []byte) {
	if len(buf) == 0 || buf[0] != wire.Query {
		return
	}
	var q wire.MsgQuery
	if wire.Decode(buf[1:], &q) != nil || !strings.HasPrefix(q.Name, "c25q") {
		return
	}
	sh.mu.Lock()
	key := fmt.Sprintf("%s/%d/%d", p.Name, q.LTime, q.ID)
	plan := sh.plans[q.Name]
	if sh.seen[key] || plan == nil {
		sh.mu.Unlock()
		return
	}
	sh.seen[key] = true
	sh.recv[q.Name]++
	acts := plan.Actions[p.Name]
	dl := plan.Deadline
	sh.mu.Unlock()
	addr := net.JoinHostPort(net.IP(q.Addr).String(), strconv.Itoa(int(q.Port)))
	for _, a := range acts {
		a := a
		at := time.Now().Add(a.Off)
		if a.RelToDL {
			at = dl.Add(a.Off)
		}
		d := time.Until(at)
		if d < 0 {
			d = 0
		}
		flags := uint32(0)
		if a.Kind == "ack" {
			flags = wire.FlagAck
		}
		msg := wire.Encode(wire.QueryResponse, &wire.MsgQueryResponse{LTime: q.LTime, ID: q.ID, From: p.Name, Flags: flags, Payload: a.Payload})
		time.AfterFunc(d, func() {
			for i := 0; i < a.Copies; i++ {
				sh.mu.Lock()
				sh.sent = append(sh.sent, c25Sent{Query: q.Name, From: p.Name, Kind: a.Kind, Payload: string(a.Payload), At: time.Now()})
				sh.mu.Unlock()
				_ = p.Send(addr, q.SourceNode, msg)
			}
		})
	}
}

// ---- independent event filter ("" / "*" = all; comma separated; user:NAME, query:NAME)

func c25Match(filter string, e serf.Event) bool {
	if filter == "" {
		filter = "*"
	}
	for _, f := range strings.Split(filter, ",") {
		typ, name := f, ""
		if strings.HasPrefix(f, "user:") {
			typ, name = "user", f[5:]
		} else if strings.HasPrefix(f, "query:") {
			typ, name = "query", f[6:]
		}
		if typ == "*" {
			return true
		}
		switch ev := e.(type) {
		case serf.UserEvent:
			if typ == "user" && (name == "" || name == ev.Name) {
				return true
			}
		case *serf.Query:
			if typ == "query" && (name == "" || name == ev.Name) {
				return true
			}
		case serf.MemberEvent:
			if typ == ev.Type.String() {
				return true
			}
		}
	}
	return false
}

func c25FilterValid(filter string) bool {
	if filter == "" {
		return true
	}
	for _, f := range strings.Split(filter, ",") {
		if strings.HasPrefix(f, "user:") || strings.HasPrefix(f, "query:") {
			continue
		}
		switch f {
		case "member-join", "member-leave", "member-failed", "member-update", "member-reap", "user", "query", "*":
		default:
			return false
		}
	}
	return true
}

func c25EventKey(e serf.Event) string {
	switch ev := e.(type) {
	case serf.UserEvent:
		return fmt.Sprintf("user|%s|%q|%d|%v", ev.Name, ev.Payload, ev.LTime, ev.Coalesce)
	case *serf.Query:
		return fmt.Sprintf("query|%s|%q|%d", ev.Name, ev.Payload, ev.LTime)
	case serf.MemberEvent:
		var names []string
		for _, m := range ev.Members {
			names = append(names, m.Name+"/"+m.Status.String())
		}
		return ev.Type.String() + "|" + strings.Join(names, ",")
	}
	return "?"
}

// c25RecordKey renders an event-stream record body like c25EventKey; ok=false when the body is not an event record.
func c25RecordKey(b map[string]any) (string, bool) {
	ev, ok := b["Event"].(string)
	if !ok {
		return "", false
	}
	switch {
	case ev == "user":
		lt, _ := ipcU64(b["LTime"])
		co, _ := b["Coalesce"].(bool)
		if len(b) != 5 {
			return "", false
		}
		return fmt.Sprintf("user|%s|%q|%d|%v", ipcStr(b["Name"]), ipcBytes(b["Payload"]), lt, co), true
	case ev == "query":
		lt, _ := ipcU64(b["LTime"])
		if _, ok := b["ID"]; !ok || len(b) != 5 {
			return "", false
		}
		return fmt.Sprintf("query|%s|%q|%d", ipcStr(b["Name"]), ipcBytes(b["Payload"]), lt), true
	case strings.HasPrefix(ev, "member-"):
		arr, ok := b["Members"].([]any)
		if !ok || len(b) != 2 {
			return "", false
		}
		var names []string
		for _, x := range arr {
			m, _ := x.(map[string]any)
			names = append(names, ipcStr(m["Name"])+"/"+ipcStr(m["Status"]))
		}
		return ev + "|" + strings.Join(names, ","), true
	}
	return "", false
}

type c25Req struct {
	Seq      uint64
	Kind     string // plain | members | stats | stream | query
	Cmd      string
	Filter   string // stream
	Valid    bool   // stream: filter valid and seq fresh
	RegIdx   int    // stream: events fanned out before registration
	StopIdx  int    // stream: -1 while registered
	Unsure   bool   // stream: a background event fell into the (de)registration window
	QName    string // query
	Mode     string // query: reader mode
	Deadline time.Time
	Ack      bool
}

type c25Viol struct {
	key, msg string
}

type c25Result struct {
	err    string
	viols  []c25Viol
	counts map[string]int
	sig    string
	nontrv bool
	trace  []string
}

var c25Filters = []string{"*", "", "user", "user:deploy", "query", "member-join", "member-leave,member-failed", "user:deploy,query:c25q1",
	"member-update", "user:restart,member-join", "query:c25pq", "member-failed", "user:", "bogus", "user,bogus", "member-join,*", "user:deploy:web", "user:deploy:web,user:x", "user:a:b:c",
	// a named filter of one kind whose name is carried by events of the other kind
	"query:deploy", "user:c25pq", "query:restart,user:c25pq", "query:deploy:web"}

func c25Case(t *testing.T, rng *rand.Rand) (res c25Result) {
	res.counts = map[string]int{}
	nPup := 1 + rng.Intn(3)
	tr := func(format string, a ...any) { res.trace = append(res.trace, fmt.Sprintf(format, a...)) }
	synctest.Test(t, func(t *testing.T) {
		sh := &c25Shared{plans: map[string]*c25Plan{}, seen: map[string]bool{}, recv: map[string]int{}}
		env, err := ipcStart(ipcOpts{Seed: rng.Int63(), Name: "agent-c25", Tags: map[string]string{"role": "c25"}})
		if err != nil {
			res.err = err.Error()
			return
		}
		defer env.Close()
		var pups []*cluster.Puppet
		for i := 0; i < nPup; i++ {
			p, err := cluster.StartPuppet(env.Net, cluster.PuppetOpts{Name: fmt.Sprintf("pup%d", i+1), IP: fmt.Sprintf("10.0.0.%d", 11+i)})
			if err != nil {
				res.err = err.Error()
				return
			}
			defer p.Close()
			p.OnMsg = sh.onMsg
			if _, err := p.ML.Join([]string{env.Addr}); err != nil {
				res.err = "puppet join: " + err.Error()
				return
			}
			pups = append(pups, p)
		}
		time.Sleep(3 * time.Second)
		synctest.Wait()
		if n := len(env.Agent.Serf().Members()); n != nPup+1 {
			res.err = fmt.Sprintf("agent sees %d members, want %d", n, nPup+1)
			return
		}
		cl, err := env.Dial()
		if err == nil {
			err = ipcHandshake(cl, "", synctest.Wait)
		}
		if err != nil {
			res.err = err.Error()
			return
		}
		reqs := map[uint64]*c25Req{1: {Seq: 1, Kind: "plain", Cmd: "handshake"}}
		var order []uint64
		seq := uint64(1000 + rng.Intn(1000))
		newSeq := func() uint64 { seq += uint64(7 + rng.Intn(20)); return seq }
		add := func(r *c25Req) { reqs[r.Seq] = r; order = append(order, r.Seq) }
		nFake := 0
		fakes := map[string]bool{}
		pqID := uint32(5000)

		// ---- helpers: one lock-step request
		simple := func(cmd, kind string, body any) {
			s := newSeq()
			add(&c25Req{Seq: s, Kind: kind, Cmd: cmd})
			cl.Send(cmd, s, body)
		}
		openStream := func() {
			f := c25Filters[rng.Intn(len(c25Filters))]
			s := newSeq()
			dup := false
			if rng.Intn(8) == 0 { // re-use the seq of a live stream
				for _, o := range order {
					if r := reqs[o]; r.Kind == "stream" && r.Valid && r.StopIdx < 0 {
						s, dup = r.Seq, true
						break
					}
				}
			}
			before := env.Events.Len()
			cl.Send("stream", s, &ipcStreamReq{Type: f})
			synctest.Wait()
			after := env.Events.Len()
			if dup {
				res.counts["stream_requests_reusing_a_live_seq"]++
				reqs[s].Unsure = reqs[s].Unsure || before != after
				tr("stream seq=%d (reused) filter=%q", s, f)
				// the second reply for this seq is an error header; accounted for in the analysis
				reqs[s].Cmd = "stream+dup"
				return
			}
			r := &c25Req{Seq: s, Kind: "stream", Cmd: "stream", Filter: f, Valid: c25FilterValid(f), RegIdx: after, StopIdx: -1, Unsure: before != after}
			add(r)
			tr("stream seq=%d filter=%q", s, f)
		}
		stopStream := func() {
			var live []*c25Req
			for _, o := range order {
				if r := reqs[o]; r.Kind == "stream" && r.Valid && r.StopIdx < 0 {
					live = append(live, r)
				}
			}
			if len(live) == 0 {
				return
			}
			r := live[rng.Intn(len(live))]
			before := env.Events.Len()
			s := newSeq()
			add(&c25Req{Seq: s, Kind: "plain", Cmd: "stop"})
			cl.Send("stop", s, &ipcStopReq{Stop: r.Seq})
			synctest.Wait()
			r.StopIdx = env.Events.Len()
			r.Unsure = r.Unsure || before != r.StopIdx
			tr("stop stream %d", r.Seq)
		}
		inject := func() {
			switch rng.Intn(9) {
			case 0, 1, 2: // user event through the connection itself
				name := []string{"deploy", "restart", "x", "", "deploy:web", "a:b:c", "deploy:"}[rng.Intn(7)]
				simple("event", "plain", &ipcEventReq{Name: name, Payload: []byte(fmt.Sprint("p", rng.Intn(100))), Coalesce: rng.Intn(2) == 0})
				tr("event %q", name)
			case 3, 4: // member join through serf's event delegate
				nFake++
				n := fmt.Sprintf("fake%d", nFake)
				fakes[n] = true
				env.ML.Events.NotifyJoin(cluster.FakeNode(n, fmt.Sprintf("10.2.0.%d", nFake), 7946, wire.EncodeTags(map[string]string{"i": fmt.Sprint(nFake)})))
				tr("member-join %s", n)
			case 5: // member failed
				for n, alive := range fakes {
					if alive {
						var idx int
						fmt.Sscanf(n, "fake%d", &idx)
						env.ML.Events.NotifyLeave(cluster.FakeNode(n, fmt.Sprintf("10.2.0.%d", idx), 7946, nil))
						fakes[n] = false
						tr("member-failed %s", n)
						break
					}
				}
			case 6: // member update
				for n, alive := range fakes {
					if alive {
						var idx int
						fmt.Sscanf(n, "fake%d", &idx)
						env.ML.Events.NotifyUpdate(cluster.FakeNode(n, fmt.Sprintf("10.2.0.%d", idx), 7946, wire.EncodeTags(map[string]string{"i": fmt.Sprint(rng.Intn(1000))})))
						tr("member-update %s", n)
						break
					}
				}
			case 7: // a query from a peer: a query event for the agent
				p := pups[rng.Intn(len(pups))]
				pqID++
				q := &wire.MsgQuery{LTime: uint64(pqID), ID: pqID, Addr: []byte(p.Tr.IP().To4()), Port: uint16(p.Tr.Port()), SourceNode: p.Name,
					Timeout: 2 * time.Second, Name: "c25pq", Payload: []byte(fmt.Sprint(pqID))}
				_ = p.Send(env.Addr, env.Name, wire.Encode(wire.Query, q))
				tr("peer query from %s", p.Name)
			default:
				if rng.Intn(2) == 0 {
					simple("members", "members", nil)
				} else {
					simple("stats", "stats", nil)
				}
			}
			synctest.Wait()
		}
		startQuery := func(idx int, mode string) *c25Req {
			T := time.Duration(1+rng.Intn(4)) * time.Second
			name := fmt.Sprintf("c25q%d", idx)
			plan := &c25Plan{Deadline: time.Now().Add(T), Actions: map[string][]c25Action{}}
			for _, p := range pups {
				var acts []c25Action
				for i, n := 0, rng.Intn(4); i < n; i++ {
					a := c25Action{Kind: []string{"ack", "response"}[rng.Intn(2)], Copies: 1, Payload: []byte(fmt.Sprintf("%s-%d", p.Name, rng.Intn(1000)))}
					if a.Kind == "ack" {
						a.Payload = nil
					}
					switch rng.Intn(10) {
					case 0, 1, 2, 3: // promptly after receipt
						a.Off = time.Duration(rng.Intn(300)) * time.Millisecond
					case 4, 5: // shortly before the deadline
						a.RelToDL, a.Off = true, -time.Duration(1+rng.Intn(200))*time.Millisecond
					case 6, 7: // exactly at the deadline instant
						a.RelToDL, a.Off = true, 0
					default: // late
						a.RelToDL, a.Off = true, time.Duration(1+rng.Intn(1500))*time.Millisecond
					}
					if rng.Intn(8) == 0 {
						a.Copies = 2
					}
					acts = append(acts, a)
				}
				plan.Actions[p.Name] = acts
			}
			sh.mu.Lock()
			sh.plans[name] = plan
			sh.mu.Unlock()
			s := newSeq()
			r := &c25Req{Seq: s, Kind: "query", Cmd: "query", QName: name, Mode: mode, Deadline: plan.Deadline, Ack: rng.Intn(4) != 0}
			add(r)
			cl.Send("query", s, &ipcQueryReq{Name: name, Payload: []byte("ping"), RequestAck: r.Ack, Timeout: T})
			tr("query %s seq=%d T=%v ack=%v mode=%s plan=%s", name, s, T, r.Ack, mode, c25PlanString(plan))
			return r
		}

		// ---- the scenario
		for i, n := 0, 1+rng.Intn(3); i < n; i++ {
			openStream()
		}
		qIdx := 0
		rounds := 1 + rng.Intn(3)
		var modes []string
		for round := 0; round < rounds; round++ {
			for i, n := 0, rng.Intn(4); i < n; i++ {
				inject()
			}
			if rng.Intn(3) == 0 {
				openStream()
			}
			mode := []string{"slow", "slow", "slow", "prompt"}[rng.Intn(4)]
			modes = append(modes, mode)
			t0 := time.Now()
			var qs []*c25Req
			// Slow-reader rounds run ONE query and inject nothing while the reader is
			// paused: the agent serialises writers with a sync.Mutex, and a second
			// writer waiting on that mutex (not a durable block) while the first is
			// stuck in the pipe would freeze the bubble's virtual clock.
			nq := 1
			if mode == "prompt" {
				nq = 1 + rng.Intn(2)
			}
			for i := 0; i < nq; i++ {
				qIdx++
				qs = append(qs, startQuery(qIdx, mode))
			}
			synctest.Wait()
			first, last := qs[0].Deadline, qs[0].Deadline
			for _, q := range qs {
				if q.Deadline.Before(first) {
					first = q.Deadline
				}
				if q.Deadline.After(last) {
					last = q.Deadline
				}
			}
			if mode == "slow" {
				// stop reading somewhere before the first deadline, resume at/after a deadline
				span := first.Sub(t0)
				pauseAt := t0.Add(time.Duration(rng.Int63n(int64(span))))
				if rng.Intn(3) == 0 {
					pauseAt = t0 // before any ack arrives
				}
				var resumeAt time.Time
				switch rng.Intn(5) {
				case 0:
					resumeAt = first // exactly at the deadline instant
				case 1:
					resumeAt = first.Add(time.Millisecond)
				case 2:
					resumeAt = last.Add(time.Duration(rng.Intn(2000)) * time.Millisecond)
				default:
					resumeAt = first.Add(time.Duration(1+rng.Intn(1500)) * time.Millisecond)
				}
				time.Sleep(time.Until(pauseAt))
				cl.Pause()
				tr("reader paused at +%v", pauseAt.Sub(t0))
				if d := time.Until(resumeAt); d > 0 {
					time.Sleep(d)
				}
				cl.Resume()
				tr("reader resumed at +%v", time.Since(t0))
			} else {
				for i, n := 0, rng.Intn(3); i < n; i++ {
					time.Sleep(time.Duration(rng.Intn(400)) * time.Millisecond)
					inject()
				}
			}
			if d := time.Until(last); d > 0 {
				time.Sleep(d)
			}
			time.Sleep(4 * time.Second)
			synctest.Wait()
			if rng.Intn(3) == 0 {
				stopStream()
			}
		}
		for i, n := 0, rng.Intn(3); i < n; i++ {
			inject()
		}
		time.Sleep(time.Second)
		synctest.Wait()

		// ---- analysis
		events := env.Events.Since(0)
		vals := cl.All()
		frames, ferr := ipcFrames(vals)
		viol := func(key, format string, a ...any) {
			res.viols = append(res.viols, c25Viol{key: key, msg: fmt.Sprintf(format, a...)})
		}
		if cl.EOF() {
			res.err = "connection closed unexpectedly"
			return
		}
		if ferr != nil {
			viol("framing", "the byte stream is not a sequence of header[+body]: %v", ferr)
		}
		res.counts["frames_received"] += len(frames)
		bySeq := map[uint64][]ipcFrame{}
		for _, f := range frames {
			if _, ok := reqs[f.Seq]; !ok {
				viol("unknown-seq", "a header carries seq %d which is neither a request nor a stream of this connection: %s", f.Seq, f)
				continue
			}
			bySeq[f.Seq] = append(bySeq[f.Seq], f)
		}
		for _, s := range append([]uint64{1}, order...) {
			r := reqs[s]
			fs := bySeq[s]
			if len(fs) == 0 {
				viol("no-reply", "request %s seq %d got no reply", r.Cmd, s)
				continue
			}
			switch r.Kind {
			case "plain":
				if len(fs) != 1 || fs[0].Body != nil {
					viol("reply-shape/"+r.Cmd, "%s seq %d: want one bare header, got %v", r.Cmd, s, fs)
				}
				res.counts["plain_replies"]++
			case "members", "stats":
				okShape := len(fs) == 1 && fs[0].Body != nil
				if okShape && r.Kind == "members" {
					_, okShape = fs[0].Body["Members"]
				}
				if okShape && r.Kind == "stats" {
					_, okShape = fs[0].Body["agent"]
				}
				if !okShape {
					viol("reply-shape/"+r.Cmd, "%s seq %d: want one header with its body, got %v", r.Cmd, s, fs)
				}
				res.counts["data_replies"]++
			case "stream":
				recs := fs[1:]
				if fs[0].Body != nil {
					viol("reply-shape/stream", "stream seq %d: the first frame is not a bare reply: %s", s, fs[0])
					recs = fs
				}
				if !r.Valid {
					if fs[0].Err == "" {
						viol("invalid-filter-accepted", "stream seq %d with invalid filter %q was accepted", s, r.Filter)
					}
					if len(fs) != 1 {
						viol("records-on-refused-stream", "refused stream seq %d carries records: %v", s, fs[1:])
					}
					continue
				}
				if fs[0].Err != "" {
					viol("stream-refused", "stream seq %d filter %q refused: %q", s, r.Filter, fs[0].Err)
					continue
				}
				stop := r.StopIdx
				if stop < 0 {
					stop = len(events)
				}
				var want []string
				for _, e := range events[r.RegIdx:stop] {
					if c25Match(r.Filter, e) {
						want = append(want, c25EventKey(e))
					}
				}
				var got []string
				dupErr := 0
				for _, f := range recs {
					if f.Body == nil {
						if r.Cmd == "stream+dup" && f.Err != "" {
							dupErr++
							continue
						}
						viol("reply-shape/stream", "stream seq %d: bare header %s among the records", s, f)
						continue
					}
					k, ok := c25RecordKey(f.Body)
					if !ok || f.Err != "" {
						viol("record-shape/stream", "stream seq %d: frame is not an event record: %s", s, f)
						continue
					}
					got = append(got, k)
				}
				res.counts["event_records"] += len(got)
				if len(want) > 400 {
					res.counts["streams_near_overflow_skipped"]++
					continue
				}
				if r.Unsure {
					res.counts["streams_with_uncertain_window_skipped"]++
					continue
				}
				res.counts["streams_compared"]++
				if len(got) > 0 {
					res.nontrv = true
				}
				if strings.Join(got, "\n") != strings.Join(want, "\n") {
					// classify
					key := "event-stream/missing-or-reordered"
					wantSet := map[string]int{}
					for _, w := range want {
						wantSet[w]++
					}
					for _, g := range got {
						if wantSet[g] == 0 {
							key = "event-stream/unexpected-record"
							break
						}
						wantSet[g]--
					}
					viol(key, "stream seq %d filter %q: records %q, events fanned out while registered and matching %q", s, r.Filter, got, want)
				}
			case "query":
				if fs[0].Body != nil || fs[0].Err != "" {
					viol("reply-shape/query", "query seq %d: first frame is not a bare success reply: %s", s, fs[0])
					continue
				}
				// ground truth
				sh.mu.Lock()
				budget := map[string]int{}
				for _, x := range sh.sent {
					if x.Query == r.QName && !x.At.After(r.Deadline) {
						budget[x.Kind+"|"+x.From+"|"+x.Payload]++
						if x.At.Equal(r.Deadline) {
							res.counts["replies_sent_exactly_at_deadline"]++
						}
					}
				}
				nrecv := sh.recv[r.QName]
				sh.mu.Unlock()
				if r.Ack {
					budget["ack|"+env.Name+"|"]++ // the agent acks its own query
				}
				res.counts["queries"]++
				res.counts["query_receipts_at_peers"] += nrecv
				done := 0
				real := 0
				cls := r.Mode + "-reader"
				for _, f := range fs[1:] {
					if f.Body == nil || f.Err != "" || len(f.Body) != 3 {
						viol("record-shape/query", "query seq %d: frame is not a query record: %s", s, f)
						continue
					}
					typ, from, pl := ipcStr(f.Body["Type"]), ipcStr(f.Body["From"]), string(ipcBytes(f.Body["Payload"]))
					if done > 0 {
						viol("after-done/"+cls, "query %s seq %d: record %s after the completion record", r.QName, s, f)
						continue
					}
					switch typ {
					case "done":
						done++
					case "ack", "response":
						k := typ + "|" + from + "|" + pl
						if typ == "ack" {
							k = typ + "|" + from + "|"
							if pl != "" {
								// an acknowledgement says who acknowledged, nothing else: no node sent this record
								viol("ack-with-payload/"+cls, "query %s seq %d: acknowledgement record of %q carries the payload %q (an acknowledgement has none; sent in time: %v)", r.QName, s, from, pl, c25Budget(sh, r))
							}
						}
						if budget[k] > 0 {
							budget[k]--
							real++
						} else {
							viol("bogus-query-record/"+cls, "query %s seq %d (deadline +%v): record {Type:%q From:%q Payload:%q} is not an ack/response that any node sent for this query in time (sent in time: %v)",
								r.QName, s, r.Deadline.Sub(f.At), typ, from, pl, c25Budget(sh, r))
						}
					default:
						viol("record-shape/query", "query seq %d: unknown record type %q", s, typ)
					}
				}
				res.counts["query_records_real"] += real
				if done != 1 {
					viol("done-count/"+cls, "query %s seq %d: %d completion records (want exactly 1); frames %v", r.QName, s, done, fs)
				} else {
					res.counts["queries_completed_once"]++
				}
				if real > 0 {
					res.nontrv = true
					res.counts["queries_with_real_records/"+r.Mode]++
				}
			}
		}
		res.sig = fmt.Sprintf("p=%d|%s", nPup, strings.Join(res.trace, "|"))
		res.counts["events_fanned_out"] += len(events)
		for _, m := range modes {
			res.counts["rounds_"+m+"_reader"]++
		}
	})
	return
}

func c25Budget(sh *c25Shared, r *c25Req) string {
	sh.mu.Lock()
	defer sh.mu.Unlock()
	var out []string
	for _, x := range sh.sent {
		if x.Query == r.QName {
			out = append(out, fmt.Sprintf("%s from %s at deadline%+v", x.Kind, x.From, x.At.Sub(r.Deadline)))
		}
	}
	sort.Strings(out)
	return "[" + strings.Join(out, "; ") + "]"
}

func c25PlanString(p *c25Plan) string {
	var names []string
	for n := range p.Actions {
		names = append(names, n)
	}
	sort.Strings(names)
	var out []string
	for _, n := range names {
		for _, a := range p.Actions[n] {
			rel := "rcpt"
			if a.RelToDL {
				rel = "dl"
			}
			out = append(out, fmt.Sprintf("%s:%s@%s%+v×%d", n, a.Kind, rel, a.Off, a.Copies))
		}
	}
	return "[" + strings.Join(out, " ") + "]"
}

// c25Fanout: a stream is stopped (its handler deregistered) while the agent is in the middle
// of fanning an event out to its handlers - the handler that is being called deregisters, as
// a client does that stops its stream or disconnects at that moment. Every other registered
// handler must still get every event exactly once.
type c25Rec struct {
	id   int
	mu   *sync.Mutex
	got  map[int][]string // handler id -> event names received
	gate func(id int, name string)
}

func (h *c25Rec) HandleEvent(e serf.Event) {
	ue, ok := e.(serf.UserEvent)
	if !ok {
		return
	}
	h.mu.Lock()
	h.got[h.id] = append(h.got[h.id], ue.Name)
	h.mu.Unlock()
	h.gate(h.id, ue.Name)
}

func c25Fanout(t *testing.T, rng *rand.Rand) (viol string, rounds int, errs string) {
	synctest.Test(t, func(t *testing.T) {
		env, err := ipcStart(ipcOpts{Seed: rng.Int63(), Name: "agent-fanout", NoIPC: true})
		if err != nil {
			errs = err.Error()
			return
		}
		defer func() {
			env.Close()
			time.Sleep(time.Minute)
		}()
		n := 3 + rng.Intn(5)
		var mu sync.Mutex
		got := map[int][]string{}
		hs := make([]*c25Rec, n)
		registered := map[int]bool{}
		var first map[string]int // event -> id of the first handler called for it
		first = map[string]int{}
		release := map[string]chan struct{}{}
		gate := func(id int, name string) {
			mu.Lock()
			_, seen := first[name]
			if !seen {
				first[name] = id
			}
			ch := release[name]
			mu.Unlock()
			if !seen && ch != nil {
				<-ch // the first handler called for this event stays inside HandleEvent
			}
		}
		for i := range hs {
			hs[i] = &c25Rec{id: i, mu: &mu, got: got, gate: gate}
			env.Agent.RegisterEventHandler(hs[i])
			registered[i] = true
		}
		for round := 0; round < 6 && viol == ""; round++ {
			name := fmt.Sprintf("fanout-%d", round)
			mu.Lock()
			release[name] = make(chan struct{})
			before := map[int]bool{}
			for i := range registered {
				before[i] = true
			}
			mu.Unlock()
			if err := env.Agent.UserEvent(name, []byte("x"), false); err != nil {
				errs = err.Error()
				return
			}
			synctest.Wait() // the first handler is blocked inside HandleEvent
			mu.Lock()
			f, ok := first[name]
			mu.Unlock()
			if !ok {
				errs = "no handler was called for " + name
				return
			}
			// that handler's stream is stopped right now
			env.Agent.DeregisterEventHandler(hs[f])
			delete(registered, f)
			close(release[name])
			synctest.Wait()
			rounds++
			mu.Lock()
			for i := range before {
				c := 0
				for _, g := range got[i] {
					if g == name {
						c++
					}
				}
				if c != 1 {
					viol = fmt.Sprintf("%d handlers registered; handler %d deregistered while it was handling event %s (the first of the fan-out): handler %d received the event %d times, every registered handler must receive it once (received per handler: %v)", len(before), f, name, i, c, got)
				}
			}
			mu.Unlock()
			if len(registered) < 2 {
				break
			}
		}
	})
	return
}

func TestC25(t *testing.T) {
	r := evid.Start(t, "C25", "exploration")
	n := r.N(1000, 15000)
	if os.Getenv("VERIF_PHASE") == "race" {
		n = r.N(16, 600)
	}
	r.Cases("fanout", r.N(60, 1500), 0, func(ci int, rng *rand.Rand) {
		viol, rounds, errs := c25Fanout(t, rng)
		r.Eval(1)
		r.Count("fanout_rounds_with_a_handler_deregistered_mid_event", rounds)
		if errs != "" {
			r.Count("fanout_setup_errors", 1)
			return
		}
		if viol != "" {
			r.Violation("fanout/handler-skipped-or-called-twice", ci, viol, viol)
		}
	})
	r.Cases("sessions", n, 0, func(ci int, rng *rand.Rand) {
		res := c25Case(t, rng)
		r.Eval(1)
		for k, v := range res.counts {
			r.Count(k, v)
		}
		if res.err != "" {
			r.Inconclusive(fmt.Sprintf("case %d: harness error: %s", ci, res.err))
			return
		}
		if res.nontrv {
			r.Distinct(res.sig)
		}
		for _, v := range res.viols {
			r.Count("violations:"+v.key, 1)
			r.Violation(v.key, ci, v.msg+" ; scenario: "+strings.Join(res.trace, " | "), res.trace)
		}
		if ci < 3 {
			r.Sample(map[string]any{"case": ci, "scenario": res.trace})
		}
	})
	floor := r.N(500, 8000)
	if os.Getenv("VERIF_PHASE") == "race" {
		floor = 8
	}
	r.Finish("per case: agent + 1-3 puppet peers, one connection with 1-4 event streams (16 filters incl. invalid, re-used seq, stop) and 1-3 rounds of 1-2 queries (timeout 1-4 s) whose acks/responses are sent by the puppets promptly, shortly before, exactly at and after the deadline (duplicates included); reader mode per round: slow (paused before the first deadline, resumed at the deadline instant / 1 ms / up to 2 s after it) or prompt; user events, member events (serf event delegate), peer queries, members/stats requests interleaved also while the reader is paused; all frames parsed and checked against events fanned out by the agent and messages the puppets sent; non-trivial = case with >= 1 real query record or event record; distinct by scenario trace",
		floor,
		"event streams are compared only when no background event fell into their (de)registration window and fewer than 400 matching events occurred (buffer 512)",
		"a reply sent at exactly the deadline instant may or may not be delivered; replies sent later must never appear")
}
