// Package cluster creates real serf.Serf instances over simnet and keeps the
// handles a monitor needs: the instance's own memberlist delegates (serf.Create
// stores them in the *memberlist.Config we pass in), the event log, and a
// decoder for Delegate.LocalState().
package cluster

import (
	"fmt"
	"io"
	"log"
	"sync"
	"time"

	"github.com/hashicorp/memberlist"
	"github.com/hashicorp/serf/serf"

	"verif/harness/simnet"
	"verif/harness/wire"
)

// Opts configures one node.
type Opts struct {
	Name    string
	IP      string
	Port    int
	Tags    map[string]string
	Profile string // "lan" (default), "local", "wan", "passive"
	Snap    string // snapshot path
	// Mutate is applied to the serf config after defaults (MemberlistConfig is set).
	Mutate func(c *serf.Config)
	// NoDrain leaves EventCh to the caller (Node.Ch).
	NoDrain bool
	// EventBuf is the capacity of the event channel (default 8192).
	EventBuf int
	LogTo    io.Writer
	Keyring  *memberlist.Keyring
}

// LoggedEvent is one event seen on the node's EventCh.
type LoggedEvent struct {
	At time.Time
	E  serf.Event
}

// Node is a running serf instance plus harness handles.
type Node struct {
	Name string
	Addr string
	S    *serf.Serf
	Conf *serf.Config
	ML   *memberlist.Config
	Tr   *simnet.Transport
	Ch   chan serf.Event

	mu     sync.Mutex
	events []LoggedEvent
	stop   chan struct{}
	done   chan struct{}
	notify sync.Mutex // serialises NotifyJoin/Leave/Update like memberlist's nodeLock
	closed bool
}

// MLConfig builds a memberlist config for a profile.
func MLConfig(profile string) *memberlist.Config {
	var c *memberlist.Config
	switch profile {
	case "local":
		c = memberlist.DefaultLocalConfig()
	case "wan":
		c = memberlist.DefaultWANConfig()
	case "passive":
		c = memberlist.DefaultLANConfig()
		c.ProbeInterval = 0
		c.GossipInterval = 0
		c.PushPullInterval = 0
	default:
		c = memberlist.DefaultLANConfig()
	}
	c.RequireNodeNames = false
	c.DeadNodeReclaimTime = 0
	return c
}

// Start creates a serf node on the network.
func Start(n *simnet.Net, o Opts) (*Node, error) {
	if o.Port == 0 {
		o.Port = 7946
	}
	tr := n.NewTransport(o.IP, o.Port)
	ml := MLConfig(o.Profile)
	ml.Transport = tr
	ml.BindAddr = o.IP
	ml.BindPort = o.Port
	ml.AdvertiseAddr = o.IP
	ml.AdvertisePort = o.Port
	ml.Name = o.Name
	ml.Keyring = o.Keyring
	lw := o.LogTo
	if lw == nil {
		lw = io.Discard
	}
	ml.LogOutput = lw
	ml.Logger = nil

	c := serf.DefaultConfig()
	c.NodeName = o.Name
	c.Tags = o.Tags
	c.MemberlistConfig = ml
	c.LogOutput = lw
	c.Logger = log.New(lw, "", 0)
	c.SnapshotPath = o.Snap
	c.ProtocolVersion = 5
	if o.Profile == "passive" {
		c.ReconnectInterval = 1000 * time.Hour
	}
	buf := o.EventBuf
	if buf == 0 {
		buf = 8192
	}
	ch := make(chan serf.Event, buf)
	c.EventCh = ch
	if o.Mutate != nil {
		o.Mutate(c)
	}
	s, err := serf.Create(c)
	if err != nil {
		tr.Shutdown()
		return nil, err
	}
	nd := &Node{Name: o.Name, Addr: tr.Addr(), S: s, Conf: c, ML: ml, Tr: tr, Ch: ch,
		stop: make(chan struct{}), done: make(chan struct{})}
	if o.NoDrain {
		close(nd.done)
	} else {
		go nd.drain()
	}
	return nd, nil
}

func (nd *Node) drain() {
	defer close(nd.done)
	for {
		select {
		case e := <-nd.Ch:
			nd.mu.Lock()
			nd.events = append(nd.events, LoggedEvent{At: time.Now(), E: e})
			nd.mu.Unlock()
		case <-nd.stop:
			// final non-blocking drain
			for {
				select {
				case e := <-nd.Ch:
					nd.mu.Lock()
					nd.events = append(nd.events, LoggedEvent{At: time.Now(), E: e})
					nd.mu.Unlock()
				default:
					return
				}
			}
		}
	}
}

// Events returns a copy of the event log.
func (nd *Node) Events() []LoggedEvent {
	nd.mu.Lock()
	defer nd.mu.Unlock()
	return append([]LoggedEvent(nil), nd.events...)
}

// EventCount returns the number of logged events.
func (nd *Node) EventCount() int {
	nd.mu.Lock()
	defer nd.mu.Unlock()
	return len(nd.events)
}

// Close shuts the node down (crash semantics: no Leave) and stops the drainer.
func (nd *Node) Close() {
	nd.mu.Lock()
	if nd.closed {
		nd.mu.Unlock()
		return
	}
	nd.closed = true
	nd.mu.Unlock()
	_ = nd.S.Shutdown()
	nd.Tr.Shutdown()
	close(nd.stop)
	<-nd.done
}

// Delegate returns the instance's memberlist.Delegate.
func (nd *Node) Delegate() memberlist.Delegate { return nd.ML.Delegate }

// NotifyMsg delivers a gossip message to the instance.
func (nd *Node) NotifyMsg(b []byte) { nd.ML.Delegate.NotifyMsg(b) }

// Drain takes all currently queued broadcasts out of the instance.
func (nd *Node) DrainBroadcasts() [][]byte {
	var out [][]byte
	for i := 0; i < 64; i++ {
		m := nd.ML.Delegate.GetBroadcasts(0, 1<<30)
		if len(m) == 0 {
			break
		}
		out = append(out, m...)
	}
	return out
}

// NotifyJoin/Leave/Update drive the event delegate, serialised per instance.
func (nd *Node) NotifyJoin(n *memberlist.Node) {
	nd.notify.Lock()
	defer nd.notify.Unlock()
	nd.ML.Events.NotifyJoin(n)
}
func (nd *Node) NotifyLeave(n *memberlist.Node) {
	nd.notify.Lock()
	defer nd.notify.Unlock()
	nd.ML.Events.NotifyLeave(n)
}
func (nd *Node) NotifyUpdate(n *memberlist.Node) {
	nd.notify.Lock()
	defer nd.notify.Unlock()
	nd.ML.Events.NotifyUpdate(n)
}

// State decodes Delegate.LocalState into the harness's mirror struct.
func (nd *Node) State() (*wire.MsgPushPull, error) {
	b := nd.ML.Delegate.LocalState(false)
	if len(b) == 0 || b[0] != wire.PushPull {
		return nil, fmt.Errorf("bad local state")
	}
	var pp wire.MsgPushPull
	if err := wire.Decode(b[1:], &pp); err != nil {
		return nil, err
	}
	return &pp, nil
}

// MemberMap returns name -> status.
func (nd *Node) MemberMap() map[string]serf.MemberStatus {
	m := map[string]serf.MemberStatus{}
	for _, mem := range nd.S.Members() {
		m[mem.Name] = mem.Status
	}
	return m
}

// FakeNode builds a memberlist.Node for Notify* calls.
func FakeNode(name, ip string, port uint16, meta []byte) *memberlist.Node {
	return &memberlist.Node{Name: name, Addr: parseIP(ip), Port: port, Meta: meta,
		PMin: 1, PMax: 5, PCur: 2, DMin: 2, DMax: 5, DCur: 5}
}
