package cluster

import (
	"io"
	"net"
	"sync"

	"github.com/hashicorp/memberlist"

	"verif/harness/simnet"
	"verif/harness/wire"
)

func parseIP(s string) net.IP {
	ip := net.ParseIP(s)
	if v4 := ip.To4(); v4 != nil {
		return v4
	}
	return ip
}

// Puppet is a plain memberlist member whose delegate is a harness script. For
// the serf node under test it is a real, alive member that speaks serf's wire
// format.
type Puppet struct {
	Name string
	Addr string
	ML   *memberlist.Memberlist
	Conf *memberlist.Config
	Tr   *simnet.Transport
	Tags map[string]string

	mu   sync.Mutex
	recv [][]byte
	// OnMsg is called (outside locks) for every user message received.
	OnMsg func(p *Puppet, buf []byte)
	// State, if set, produces the push/pull payload this puppet hands to peers
	// (memberlist calls LocalState during push/pull; join=true for a join).
	State func(join bool) []byte
	// OnMerge, if set, observes remote push/pull payloads.
	OnMerge func(buf []byte, join bool)
	// Queue holds broadcasts to hand to memberlist gossip.
	queue [][]byte
	// ProtoMax overrides the delegate protocol max (default 5).
}

type puppetDelegate struct{ p *Puppet }

func (d *puppetDelegate) NodeMeta(limit int) []byte { return wire.EncodeTags(d.p.Tags) }
func (d *puppetDelegate) NotifyMsg(b []byte) {
	cp := append([]byte(nil), b...)
	d.p.mu.Lock()
	d.p.recv = append(d.p.recv, cp)
	cb := d.p.OnMsg
	d.p.mu.Unlock()
	if cb != nil {
		cb(d.p, cp)
	}
}
func (d *puppetDelegate) GetBroadcasts(overhead, limit int) [][]byte {
	d.p.mu.Lock()
	defer d.p.mu.Unlock()
	q := d.p.queue
	d.p.queue = nil
	return q
}
func (d *puppetDelegate) LocalState(join bool) []byte {
	d.p.mu.Lock()
	f := d.p.State
	d.p.mu.Unlock()
	if f != nil {
		return f(join)
	}
	return nil
}
func (d *puppetDelegate) MergeRemoteState(buf []byte, join bool) {
	d.p.mu.Lock()
	f := d.p.OnMerge
	d.p.mu.Unlock()
	if f != nil {
		f(append([]byte(nil), buf...), join)
	}
}

// SetState installs the push/pull payload producer.
func (p *Puppet) SetState(f func(join bool) []byte) {
	p.mu.Lock()
	p.State = f
	p.mu.Unlock()
}

// PuppetOpts configures a puppet.
type PuppetOpts struct {
	Name     string
	IP       string
	Port     int
	Tags     map[string]string
	Profile  string
	DelegMax uint8 // delegate protocol max/cur (default 5)
	Keyring  *memberlist.Keyring
}

// StartPuppet creates a puppet on the network.
func StartPuppet(n *simnet.Net, o PuppetOpts) (*Puppet, error) {
	if o.Port == 0 {
		o.Port = 7946
	}
	if o.DelegMax == 0 {
		o.DelegMax = 5
	}
	tr := n.NewTransport(o.IP, o.Port)
	ml := MLConfig(o.Profile)
	ml.Transport = tr
	ml.BindAddr, ml.BindPort = o.IP, o.Port
	ml.AdvertiseAddr, ml.AdvertisePort = o.IP, o.Port
	ml.Name = o.Name
	ml.LogOutput = io.Discard
	ml.DelegateProtocolMin = 2
	ml.DelegateProtocolMax = o.DelegMax
	ml.DelegateProtocolVersion = o.DelegMax
	ml.Keyring = o.Keyring
	p := &Puppet{Name: o.Name, Addr: tr.Addr(), Conf: ml, Tr: tr, Tags: o.Tags}
	if p.Tags == nil {
		p.Tags = map[string]string{}
	}
	ml.Delegate = &puppetDelegate{p}
	m, err := memberlist.Create(ml)
	if err != nil {
		tr.Shutdown()
		return nil, err
	}
	p.ML = m
	return p, nil
}

// Received returns a copy of all user messages received so far.
func (p *Puppet) Received() [][]byte {
	p.mu.Lock()
	defer p.mu.Unlock()
	return append([][]byte(nil), p.recv...)
}

// Send sends a raw serf message to a member by address (UDP, best effort).
func (p *Puppet) Send(addr, name string, buf []byte) error {
	return p.ML.SendToAddress(memberlist.Address{Addr: addr, Name: name}, buf)
}

// Gossip queues a message for memberlist's gossip.
func (p *Puppet) Gossip(buf []byte) {
	p.mu.Lock()
	p.queue = append(p.queue, buf)
	p.mu.Unlock()
}

// Close shuts the puppet down.
func (p *Puppet) Close() {
	_ = p.ML.Shutdown()
	p.Tr.Shutdown()
}
