#!/bin/bash
# Run one check (quick tier) against one seeded change in a private scratch worktree (no demo, no suite, nothing recorded).
#   tools/seedtry.sh <seed-id> <check-id> [VERIF_SEED]      (patch from /verif/seeded/<seed-id> or /tmp/seed/out/<P>/<v>)
id=$1; chk=$2; seed=${3:-1}
src=/verif/seeded/$id; [ -d $src ] || src=/tmp/seed/out/${id%-*}/${id#*-}
wt=/tmp/st/$id.$chk.$$
mkdir -p /tmp/st
git -C /repo worktree add --detach $wt HEAD >/dev/null 2>&1 || exit 2
trap 'git -C /repo worktree remove --force $wt >/dev/null 2>&1' EXIT
git -C $wt apply $src/patch.diff || exit 2
cd /verif && VERIF_SEED=$seed VERIF_REPO=$wt ./check.sh $chk quick 2>&1 | grep -E '^(VIOLATION|RESULT|INCONCLUSIVE|KNOWN|  detail)' | cut -c1-400 | head -${LINES_MAX:-6}
