#!/usr/bin/env python3
"""Summarise Go race-detector logs.
usage: racesum.py <property> <out-file> <race log files...>
A report is attributed to serf (=> VIOLATION) only when, for BOTH conflicting
accesses, the innermost frame that belongs to either the repository (/repo/) or
the harness (/verif/) is a repository frame.  Anything else is harness noise
(=> INCONCLUSIVE).  Reports are de-duplicated by the pair of owning functions.
"""
import os, re, sys
REPO = os.environ.get("VERIF_REPO", "/repo").rstrip("/") + "/"

prop, out = sys.argv[1], sys.argv[2]
files = sys.argv[3:]
blocks = []
for f in files:
    try:
        txt = open(f, errors="replace").read()
    except OSError:
        continue
    for b in txt.split("WARNING: DATA RACE")[1:]:
        blocks.append(b.split("==================")[0])

def accesses(block):
    """return list of stacks (list of (func, file)) for the two access sections"""
    secs = re.split(r"\n(?=(?:Read|Write|Previous read|Previous write|Atomic|Previous atomic)[^\n]* by )", "\n" + block)
    res = []
    for s in secs:
        if not re.match(r"\s*(Read|Write|Previous|Atomic)", s):
            continue
        s = s.split("\nGoroutine ")[0]
        frames = re.findall(r"\n\s+(\S+)\(.*?\)\n\s+(\S+?):(\d+)", s)
        if not frames:
            frames = re.findall(r"\n\s+(\S+)\n\s+(\S+?):(\d+)", s)
        res.append([(fn, path) for fn, path, _ in frames])
    return res[:2]

def owner(stack):
    for fn, path in stack:
        if path.startswith(REPO):
            return ("repo", fn)
        if path.startswith("/verif/"):
            return ("harness", fn)
    return ("other", stack[0][0] if stack else "?")

seen = {}
for b in blocks:
    acc = accesses(b)
    owners = [owner(s) for s in acc]
    key = tuple(sorted(o[1] for o in owners))
    kind = "serf" if len(owners) == 2 and all(o[0] == "repo" for o in owners) else "harness"
    if key not in seen:
        seen[key] = [kind, 0, b]
    seen[key][1] += 1

serf = {k: v for k, v in seen.items() if v[0] == "serf"}
noise = {k: v for k, v in seen.items() if v[0] != "serf"}
if serf:
    with open(out, "w") as fh:
        for k, v in serf.items():
            fh.write("==== %s  (x%d)\nWARNING: DATA RACE%s\n" % (" <-> ".join(k), v[1], v[2]))
    print("VIOLATION property=%s replay=%s" % (prop, out))
    for k, v in serf.items():
        print("  detail: data race inside serf: %s (x%d)" % (" <-> ".join(k), v[1]))
if noise:
    with open(out + ".noise", "w") as fh:
        for k, v in noise.items():
            fh.write("==== %s  (x%d)\nWARNING: DATA RACE%s\n" % (" <-> ".join(k), v[1], v[2]))
    print("INCONCLUSIVE property=%s reason=%d race report(s) not attributable to serf alone, see %s.noise: %s"
          % (prop, len(noise), out, "; ".join(" <-> ".join(k) for k in noise)))
print("RACE-REPORTS property=%s total_blocks=%d distinct=%d serf=%d" % (prop, len(blocks), len(seen), len(serf)))
