#!/bin/bash
# tools/mut.sh <property-id> <file-in-repo> <python-regex> <replacement>
# Self-test of a monitor: applies a one-off mutation to a SCRATCH worktree of /repo
# (never to /repo itself), runs the quick check against it and removes the worktree.
ID=$1; F=$2; PAT=$3; REP=$4
W=/tmp/verif-mut.$$
git -C /repo worktree add -q --detach "$W" HEAD || exit 9
trap 'git -C /repo worktree remove --force "$W" 2>/dev/null; rm -rf "$W"' EXIT
cd "$W" || exit 9
python3 - "$F" "$PAT" "$REP" <<'PY' || exit 8
import re,sys
f,pat,rep=sys.argv[1:4]
s=open(f).read()
n=len(re.findall(pat,s,flags=re.S))
if n!=1: print("pattern matched",n,"times"); sys.exit(1)
open(f,'w').write(re.sub(pat,rep,s,count=1,flags=re.S))
PY
git diff --stat | tail -1
( . /verif/env.sh; go build ./... ) || { echo "mutant does not compile"; exit 7; }
cd /verif && VERIF_REPO=$W ./check.sh "$ID" quick | cut -c1-300 | head -${MUT_LINES:-6}
echo "rc=${PIPESTATUS[0]}"
