#!/usr/bin/env python3
"""Verify one seeded change delivered by a sub-agent and (optionally) run /verif checks against it.

  seedverify.py <PROP> <variant> [--src /tmp/seed/out] [--checks C05,C04] [--tier quick] [--no-suite] [--keep]

Steps, all in a scratch worktree of /repo HEAD under /tmp/sv (removed afterwards; /repo itself is never touched):
  1. demo on the pristine tree must PASS;
  2. patch applies and builds; demo must FAIL with it;
  3. the repository's own suite (private net namespace) must pass with it, apart from the
     baseline's noise (TestSyslogFilter always fails here; TestCommandRun_* flake; a test that
     fails in the full run is re-run alone up to 3 times and counts as passing when it passes once);
  4. each named check (default: the property's own) is run with VERIF_REPO=<worktree>; detection =
     exit status 1 with a VIOLATION line.
The result is appended to /verif/seeded/RESULTS.jsonl; with a confirmed change the deliverables are
copied to /verif/seeded/<PROP>-<variant>/ and meta.json gets a 'verified' section.
"""
import argparse, json, os, re, shutil, subprocess, sys, time

ENV = dict(os.environ)
ENV.update({"GOFLAGS": "-mod=mod", "GOPROXY": "off", "GOSUMDB": "off", "GOTOOLCHAIN": "local",
            "GOCACHE": "/root/.cache/go-build"})
ENV["PATH"] = "/root/go/pkg/mod/golang.org/toolchain@v0.0.1-go1.25.0.linux-amd64/bin:" + ENV["PATH"]
NETNS = ["unshare", "-rn", "sh", "-c"]


def sh(cmd, cwd, timeout=3600, netns=False, env=None):
    e = dict(ENV)
    if env:
        e.update(env)
    if netns:
        argv = NETNS + ["ip link set lo up; " + cmd]
    else:
        argv = ["sh", "-c", cmd]
    t0 = time.time()
    try:
        p = subprocess.run(argv, cwd=cwd, env=e, stdout=subprocess.PIPE, stderr=subprocess.STDOUT, timeout=timeout, text=True, errors="replace")
        return p.returncode, p.stdout, time.time() - t0
    except subprocess.TimeoutExpired as x:
        return 124, (x.stdout or "") if isinstance(x.stdout, str) else "", time.time() - t0


def failing_tests(out):
    return sorted(set(re.findall(r"^\s*--- FAIL: (\S+)", out, re.M)))


def main():
    ap = argparse.ArgumentParser()
    ap.add_argument("prop")
    ap.add_argument("variant")
    ap.add_argument("--src", default="/tmp/seed/out")
    ap.add_argument("--checks", default="")
    ap.add_argument("--tier", default="quick")
    ap.add_argument("--no-suite", action="store_true")
    ap.add_argument("--keep", action="store_true")
    ap.add_argument("--seeds", default="1")
    a = ap.parse_args()
    sid = f"{a.prop}-{a.variant}"
    src = f"/verif/seeded/{sid}"  # a kept change is verified from its stored copy
    if not os.path.isdir(src):
        src = os.path.join(a.src, a.prop, a.variant)
    meta = json.load(open(os.path.join(src, "meta.json")))
    demo = meta.get("demo", {})
    demo_file = os.path.join(src, demo.get("file", "demo_test.go"))
    install_as = demo.get("install_as", "serf/seeded_demo_test.go")
    run_cmd = demo.get("run", "go test -vet=off -count=1 -run TestSeededDemo ./serf/")
    if "-timeout" not in run_cmd and run_cmd.startswith("go test"):
        run_cmd = run_cmd.replace("go test", "go test -timeout 15m", 1)
    wt = f"/tmp/sv/{sid}"
    os.makedirs("/tmp/sv", exist_ok=True)
    subprocess.run(["git", "-C", "/repo", "worktree", "remove", "--force", wt], stdout=subprocess.DEVNULL, stderr=subprocess.DEVNULL)
    shutil.rmtree(wt, ignore_errors=True)
    subprocess.check_call(["git", "-C", "/repo", "worktree", "add", "--detach", wt, "HEAD"], stdout=subprocess.DEVNULL, stderr=subprocess.DEVNULL)
    res = {"id": sid, "property": a.prop, "time": time.strftime("%Y-%m-%dT%H:%M:%S"), "repo_head": subprocess.check_output(["git", "-C", "/repo", "rev-parse", "--short", "HEAD"], text=True).strip()}
    try:
        dst = os.path.join(wt, install_as)
        os.makedirs(os.path.dirname(dst), exist_ok=True)
        shutil.copy(demo_file, dst)
        # 1. pristine
        rc, out, dt = sh(run_cmd, wt, netns=True, timeout=1500)
        res["demo_pristine"] = {"rc": rc, "s": round(dt, 1)}
        if rc != 0:
            res["demo_pristine"]["tail"] = out[-1500:]
        # 2. patch
        rc, out, _ = sh(f"git apply --whitespace=nowarn {os.path.join(src, 'patch.diff')}", wt)
        res["patch_applies"] = rc == 0
        if rc != 0:
            res["patch_error"] = out[-800:]
            return finish(a, res, src, sid, meta)
        rc, out, _ = sh("go build ./... ", wt, timeout=900)
        res["builds"] = rc == 0
        if rc != 0:
            res["build_error"] = out[-1500:]
            return finish(a, res, src, sid, meta)
        rc, out, dt = sh(run_cmd, wt, netns=True, timeout=1500)
        res["demo_patched"] = {"rc": rc, "s": round(dt, 1), "tail": out[-1200:]}
        os.remove(dst)
        # 3. suite
        if not a.no_suite:
            rc, out, dt = sh("go test -vet=off -count=1 -timeout 25m ./... 2>&1", wt, netns=True, timeout=2400)
            fails = failing_tests(out)
            noise = [f for f in fails if f == "TestSyslogFilter" or f.startswith("TestCommandRun")]
            real = [f for f in fails if f not in noise]
            still = []
            retried = {}
            for f in real:
                top = f.split("/")[0]
                okc = 0
                for _ in range(3):
                    rc2, out2, _ = sh(f"go test -vet=off -count=1 -timeout 10m -run '^{top}$' ./... 2>&1", wt, netns=True, timeout=900)
                    if rc2 == 0:
                        okc += 1
                        break
                retried[f] = okc
                if okc == 0:
                    still.append(f)
            build_fail = bool(re.search(r"\[build failed\]|\[setup failed\]", out))
            res["suite"] = {"s": round(dt, 1), "failed_in_full_run": fails, "noise": noise, "passed_alone": [f for f in real if f not in still],
                            "still_failing": still, "build_failed": build_fail, "ok": not still and not build_fail}
        # 4. checks
        checks = [c for c in (a.checks.split(",") if a.checks else meta.get("checks_to_run", [a.prop])) if c]
        res["checks"] = {}
        for c in checks:
            for seed in a.seeds.split(","):
                rc, out, dt = sh(f"./check.sh {c} {a.tier}", "/verif", timeout=7200, env={"VERIF_REPO": wt, "VERIF_SEED": seed, "VERIF_EVIDENCE": f"/tmp/sv/{sid}.{c}.evidence.json"})
                viol = [l for l in out.splitlines() if l.startswith("VIOLATION ")]
                det = [l.strip() for l in out.splitlines() if l.strip().startswith("detail:")]
                inc = [l for l in out.splitlines() if l.startswith("INCONCLUSIVE ")]
                res["checks"][f"{c}@{seed}"] = {"rc": rc, "s": round(dt, 1), "detected": rc == 1 and bool(viol), "violations": len(viol),
                                               "first_detail": (det[0][:500] if det else ""), "inconclusive": inc[:2], "result": [l for l in out.splitlines() if l.startswith("RESULT ")][-1:]}
        return finish(a, res, src, sid, meta)
    finally:
        if not a.keep:
            subprocess.run(["git", "-C", "/repo", "worktree", "remove", "--force", wt], stdout=subprocess.DEVNULL, stderr=subprocess.DEVNULL)
            shutil.rmtree(wt, ignore_errors=True)


def finish(a, res, src, sid, meta):
    confirmed = (res.get("demo_pristine", {}).get("rc") == 0 and res.get("patch_applies") and res.get("builds")
                 and res.get("demo_patched", {}).get("rc", 0) != 0 and (a.no_suite or res.get("suite", {}).get("ok")))
    res["confirmed"] = bool(confirmed)
    os.makedirs("/verif/seeded", exist_ok=True)
    with open("/verif/seeded/RESULTS.jsonl", "a") as f:
        f.write(json.dumps(res) + "\n")
    if confirmed and not src.startswith("/verif/seeded"):
        d = f"/verif/seeded/{sid}"
        os.makedirs(d, exist_ok=True)
        try:  # keep what was recorded about cross catches
            prev = json.load(open(os.path.join(d, "meta.json")))
            if "checks_to_run" in prev:
                meta["checks_to_run"] = prev["checks_to_run"]
        except Exception:
            pass
        for fn in os.listdir(src):
            shutil.copy(os.path.join(src, fn), os.path.join(d, fn))
        meta["verified"] = {k: res[k] for k in ("time", "repo_head", "demo_pristine", "demo_patched", "suite") if k in res}
        if "demo_patched" in meta["verified"]:
            meta["verified"]["demo_patched"] = dict(meta["verified"]["demo_patched"])
            meta["verified"]["demo_patched"]["tail"] = meta["verified"]["demo_patched"]["tail"][-400:]
        meta["what_was_run"] = "tools/seedverify.py: demo on pristine worktree (pass), patch applied + go build, demo (fail), repository suite in a private net namespace (pass apart from baseline noise), then the /verif checks with VERIF_REPO=<scratch worktree>"
        json.dump(meta, open(os.path.join(d, "meta.json"), "w"), indent=1)
    out = {k: res.get(k) for k in ("id", "confirmed", "demo_pristine", "patch_applies", "builds")}
    out["demo_patched_rc"] = res.get("demo_patched", {}).get("rc")
    out["suite"] = res.get("suite")
    out["checks"] = res.get("checks")
    print(json.dumps(out, indent=1))


if __name__ == "__main__":
    main()
