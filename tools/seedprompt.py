#!/usr/bin/env python3
"""Print the brief given to a seeding sub-agent: the property's text and its scratch worktree, nothing from /verif.
   seedprompt.py <PROP> <letter>"""
import json, sys
p, v = sys.argv[1], sys.argv[2]
for line in open('/verif/properties.jsonl'):
    r = json.loads(line)
    if r['id'] == p:
        break
else:
    sys.exit('no such property')
q = r.get('quantifier', {})
print(f"""You are helping to test a verification framework for hashicorp/serf (Go). You get ONE semantic property of serf and your own scratch git worktree of the repository at /tmp/seed/{p} (a detached worktree of the pinned commit; work only there). Do not read or touch /verif or /repo. Never use `git stash` (it is shared between worktrees). Do not commit.

Property {r['id']}: {r['title']}
Statement: {r['statement']}
Quantified over: {q.get('text','')}
Anchors (files): {', '.join(r.get('anchors',{}).get('files',[]))}

Task: write ONE realistic change to the serf source (non-test files only) that BREAKS this property while the code still compiles and the repository's existing tests still pass. It should look like something a maintainer could plausibly merge (an optimisation, refactoring, clean-up, hardening, feature tweak), not sabotage, and it must need something specific to manifest: a particular interleaving, a crash or fault at a particular point, a multi-step sequence of operations, an unusual input or configuration, or two cooperating sites that each look fine alone. Do NOT write a change that ordinary use or the existing tests would expose at once. Pick a mechanism that is not the first one anybody would think of: read the code around the anchors (and its callers) first and look for a less-travelled path behind the property.

Environment (no network). In every shell call:
  export GOFLAGS=-mod=mod GOPROXY=off GOSUMDB=off GOTOOLCHAIN=local PATH=/root/go/pkg/mod/golang.org/toolchain@v0.0.1-go1.25.0.linux-amd64/bin:$PATH
Tests that open sockets must run in a private network namespace, because other people run the same tests on this machine at the same time:
  unshare -rn sh -c 'ip link set lo up; cd /tmp/seed/{p} && go test -vet=off -count=1 -timeout 25m ./...'
Known noise of the suite in this sandbox, unrelated to any change: TestSyslogFilter always fails; TestCommandRun_mDNS fails in a netns; TestCommandRun_* and TestMemberEventCoalesce_Basic flake under load (re-run alone). The machine is shared and loaded: run the full suite at most once (at the end, with your change), plus the packages you touched as often as you need.

Deliverables, under /tmp/seed/out/{p}/{v}/ :
- patch.diff — `git diff` of the source change only (no test files), applicable with `git apply` at the root of a pristine worktree.
- demo_test.go — a Go test file with a test named TestSeededDemo (package serf for serf/, or the package you name in meta.json) that PASSES on the pristine tree and FAILS with the change, deterministically or nearly so (loop inside the test if it needs a schedule; keep it under about 60 s). It is installed as the path you give in meta.json `demo.install_as` and run with `demo.run`.
- meta.json — {{"property": "{p}", "summary": "<what was changed and where>", "breaks": "<how the property is violated>", "needs": "<what exactly it takes to manifest and why the existing tests do not see it>", "demo": {{"file": "demo_test.go", "install_as": "serf/seeded_demo_test.go", "run": "go test -vet=off -count=1 -run TestSeededDemo ./serf/"}}, "demo_evidence": "<what you observed: pristine pass, patched fail>", "suite": "<what you ran and what it showed>"}}
Verify yourself: demo passes on the pristine tree (git diff empty apart from the demo file), fails with the change, `go build ./...` works, and the suite passes with the change apart from the noise above. Leave the worktree pristine at the end (git checkout -- . and remove your demo file). Your final answer: three or four lines saying what the change is and what it takes to manifest.""")
