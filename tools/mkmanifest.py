#!/usr/bin/env python3
"""Regenerates /verif/MANIFEST.json from the table below (run after adding a check)."""
import json, os, subprocess

ROOT = "/verif"
props = [json.loads(l) for l in open(f"{ROOT}/properties.jsonl") if l.strip()]

# id -> (level, technique, level text, level note, design ref)
T = {}
def add(i, level, technique, text, note, ref=None):
    T[i] = dict(level=level, technique=technique, text=text, note=note, ref=ref or f"DESIGN.md section 4 ({i})")

EXP = "exploration"
add("C19", EXP, "runtime monitoring: sequential contract assertions on boundary/random 64-bit values, race-detector stress with per-goroutine monotonicity + global uniqueness oracle, porcupine linearizability check of recorded histories",
    "The real LamportClock is executed; oracles observe every result. Held = no counter-example among the executed inputs/interleavings (2^64-1 is a listed known finding).",
    "porcupine v1.3.0 and the Go race detector are trusted; interleavings are those the Go scheduler produced on this machine")

NOT_BUILT = "not claimed: runtime monitoring applies and DESIGN.md section 4 describes the monitor, but it was not built in the time available (DESIGN.md section 7.1); no check, no evidence"

def load_extra():
    p = f"{ROOT}/tools/manifest_table.json"
    if os.path.exists(p):
        for i, e in json.load(open(p)).items():
            add(i, e.get("level", EXP), e["technique"], e["text"], e["note"], e.get("ref"))
load_extra()
import glob
for f in sorted(glob.glob(f"{ROOT}/tools/manifest.d/C*.json")):
    i = os.path.basename(f)[:-5]
    e = json.load(open(f))
    # a check is only claimed once its monitor exists
    if os.path.exists(f"{ROOT}/harness/props/{i.lower()}_test.go") or os.path.exists(f"{ROOT}/harness/snapfs/{i.lower()}_test.go"):
        add(i, e.get("level", EXP), e["technique"], e["text"], e["note"], e.get("ref"))

try:
    hooks = subprocess.check_output(["git", "-C", "/repo", "log", "--format=%H", "--grep=^verif:"], text=True).split()
except Exception:
    hooks = []

checks, na = [], []
for p in props:
    i = p["id"]
    if i in T:
        e = T[i]
        checks.append({
            "property_id": i,
            "quick_cmd": f"./check.sh {i} quick",
            "thorough_cmd": f"./check.sh {i} thorough",
            "evidence_file": f"/verif/evidence/{i}.json",
            "replay_cmd_template": f"VERIF_REPLAY={{path}} ./check.sh {i} replay",
            "engine": "harness",
            "level_claimed": {"category": e["level"], "text": e["text"], "design_ref": e["ref"]},
            "level_note": e["note"],
            "technique": e["technique"],
        })
    else:
        na.append({"property_id": i, "reason": NOT_BUILT})

m = {
    "version": 1,
    "setup_cmd": "./setup.sh",
    "hooks": {
        "guard": "verif",
        "enable": "go build tag: every check runs `go test -tags verif` on the harness module, which replaces github.com/hashicorp/serf with /repo; the only in-tree hook file is serf/verif_hooks.go (//go:build verif). Snapshot file-operation interception is generated at check time as a -overlay and is not in the tree.",
        "baseline_off_cmd": ". /verif/env.sh; cd /repo && go test -vet=off -count=1 -timeout 25m ./...",
        "source_commits": hooks,
        "add_only": True,
    },
    "engines": [
        {"name": "harness", "path": "/verif/harness", "serves_properties": sorted(T),
         "kind_free_text": "Go test binaries (runtime monitors) built against /repo: simnet in-memory faulty transport, puppet memberlist peers, testing/synctest virtual time, Go race detector, porcupine history checker, child-process isolation for crash properties"},
    ],
    "checks": checks,
    "not_applicable": na,
    "notes": "All checks are runtime monitors over executions of the real code (see DESIGN.md). exit 0 held / 1 VIOLATION / 3 INCONCLUSIVE. Known findings: /verif/known_findings.jsonl.",
}
json.dump(m, open(f"{ROOT}/MANIFEST.json", "w"), indent=1)
print("claimed", len(checks), "not_applicable", len(na))
