#!/bin/bash
# Re-run the demonstration and the checks for every kept seeded change (no suite run), P at a time.
#   tools/seedsweep.sh [P] [ids...]
P=${1:-3}; shift
ids=("$@"); [ ${#ids[@]} = 0 ] && ids=($(ls -d /verif/seeded/C*-* | xargs -n1 basename))
mkdir -p /tmp/sv/logs
printf "%s\n" "${ids[@]}" | xargs -P $P -I{} sh -c 'id={}; p=${id%-*}; v=${id#*-}; cd /verif && python3 tools/seedverify.py $p $v --no-suite > /tmp/sv/logs/$id.sweep.json 2>/tmp/sv/logs/$id.sweep.err; echo "$id $(jq -c "[.checks[]?.detected]" /tmp/sv/logs/$id.sweep.json)"'
python3 /verif/tools/seedtable.py
