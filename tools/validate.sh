#!/bin/bash
# validate MANIFEST.json and every evidence file against the schemas
python3-vt - <<'PY'
import json,jsonschema,glob,sys
ok=True
try:
    jsonschema.validate(json.load(open('/verif/MANIFEST.json')),json.load(open('/root/.vp/MANIFEST.schema.json')))
except Exception as e: print('MANIFEST invalid',e); ok=False
s=json.load(open('/root/.vp/EVIDENCE.schema.json'))
for f in sorted(glob.glob('/verif/evidence/*.json')):
    try: jsonschema.validate(json.load(open(f)),s)
    except Exception as e: print(f,'invalid',str(e)[:300]); ok=False
print('all valid' if ok else 'INVALID'); sys.exit(0 if ok else 1)
PY
