#!/bin/bash
# compile every registered check's test binary (no run); prints the ids that do not build
cd /verif
fail=0
for id in $(jq -r '.checks[].property_id' MANIFEST.json); do
  if ! out=$(./check.sh $id compile 2>&1); then echo "BUILD FAILS: $id"; echo "$out" | tail -5; fail=1; fi
done
[ $fail = 0 ] && echo "all checks build"
exit $fail
