// fsshim generates, for `go test -overlay`, a copy of <repo>/serf/snapshot.go whose
// file operations go through a recording / fault-injecting shim, plus the shim
// itself as an extra file of package serf. Nothing is written into the repository.
//
//	fsshim -repo /repo -out <dir>   ->  <dir>/snapshot.go, <dir>/verif_snapfs.go, <dir>/overlay.json
//
// The rewrite is purely syntactic (go/ast): calls of os.OpenFile/Open/Create/Remove/
// Rename/Stat/Lstat/Truncate/ReadFile/WriteFile and the type os.File are replaced;
// everything else of the CURRENT snapshot.go is kept verbatim, so the monitors run
// whatever the working tree contains. Exit status 2 = the source could not be
// rewritten (the check is then inconclusive, never a violation).
package main

import (
	"bytes"
	_ "embed"
	"encoding/json"
	"flag"
	"fmt"
	"go/ast"
	"go/format"
	"go/parser"
	"go/token"
	"os"
	"path/filepath"
)

//go:embed shim.go.txt
var shimSrc []byte

var funcs = map[string]string{
	"OpenFile": "verifOpenFile", "Open": "verifOpen", "Create": "verifCreate",
	"Remove": "verifRemove", "Rename": "verifRename", "Stat": "verifStat", "Lstat": "verifLstat",
	"Truncate": "verifTruncate", "ReadFile": "verifReadFile", "WriteFile": "verifWriteFile",
}

func main() {
	repo := flag.String("repo", "/repo", "repository root")
	out := flag.String("out", "", "output directory")
	flag.Parse()
	if *out == "" {
		fmt.Fprintln(os.Stderr, "fsshim: -out required")
		os.Exit(2)
	}
	src := filepath.Join(*repo, "serf", "snapshot.go")
	fset := token.NewFileSet()
	f, err := parser.ParseFile(fset, src, nil, parser.ParseComments)
	if err != nil {
		fmt.Fprintln(os.Stderr, "fsshim: parse:", err)
		os.Exit(2)
	}
	osName := ""
	for _, im := range f.Imports {
		if im.Path.Value == `"os"` {
			osName = "os"
			if im.Name != nil {
				osName = im.Name.Name
			}
		}
	}
	counts := map[string]int{}
	if osName != "" && osName != "_" && osName != "." {
		isOS := func(e ast.Expr, sel string) bool {
			s, ok := e.(*ast.SelectorExpr)
			if !ok {
				return false
			}
			id, ok := s.X.(*ast.Ident)
			return ok && id.Name == osName && id.Obj == nil && s.Sel.Name == sel
		}
		var rewrite func(e *ast.Expr)
		rewrite = func(e *ast.Expr) {
			if *e == nil {
				return
			}
			if s, ok := (*e).(*ast.SelectorExpr); ok {
				if id, ok := s.X.(*ast.Ident); ok && id.Name == osName && id.Obj == nil {
					if s.Sel.Name == "File" {
						*e = &ast.Ident{Name: "verifFile", NamePos: s.Pos()}
						counts["os.File"]++
					} else if r, ok := funcs[s.Sel.Name]; ok {
						*e = &ast.Ident{Name: r, NamePos: s.Pos()}
						counts["os."+s.Sel.Name]++
					}
				}
			}
		}
		_ = isOS
		// walk every expression slot
		ast.Inspect(f, func(n ast.Node) bool {
			switch x := n.(type) {
			case *ast.CallExpr:
				rewrite(&x.Fun)
				for i := range x.Args {
					rewrite(&x.Args[i])
				}
			case *ast.StarExpr:
				rewrite(&x.X)
			case *ast.Field:
				rewrite(&x.Type)
			case *ast.ValueSpec:
				rewrite(&x.Type)
				for i := range x.Values {
					rewrite(&x.Values[i])
				}
			case *ast.AssignStmt:
				for i := range x.Rhs {
					rewrite(&x.Rhs[i])
				}
			case *ast.CompositeLit:
				rewrite(&x.Type)
			case *ast.TypeAssertExpr:
				rewrite(&x.Type)
			case *ast.ArrayType:
				rewrite(&x.Elt)
			case *ast.MapType:
				rewrite(&x.Key)
				rewrite(&x.Value)
			case *ast.ChanType:
				rewrite(&x.Value)
			case *ast.ReturnStmt:
				for i := range x.Results {
					rewrite(&x.Results[i])
				}
			case *ast.KeyValueExpr:
				rewrite(&x.Value)
			case *ast.UnaryExpr:
				rewrite(&x.X)
			case *ast.ParenExpr:
				rewrite(&x.X)
			}
			return true
		})
	}
	if counts["os.OpenFile"]+counts["os.Open"]+counts["os.Create"] == 0 {
		fmt.Fprintln(os.Stderr, "fsshim: snapshot.go opens no file through package os - nothing to intercept")
		os.Exit(2)
	}
	// keep the os import used whatever was rewritten
	f.Decls = append(f.Decls, &ast.GenDecl{Tok: token.VAR, Specs: []ast.Spec{&ast.ValueSpec{
		Names: []*ast.Ident{ast.NewIdent("_")}, Type: &ast.SelectorExpr{X: ast.NewIdent(osName), Sel: ast.NewIdent("FileMode")}}}})
	var buf bytes.Buffer
	if err := format.Node(&buf, fset, f); err != nil {
		fmt.Fprintln(os.Stderr, "fsshim: print:", err)
		os.Exit(2)
	}
	must(os.MkdirAll(*out, 0o755))
	gen := filepath.Join(*out, "snapshot.go")
	shim := filepath.Join(*out, "verif_snapfs.go")
	must(os.WriteFile(gen, buf.Bytes(), 0o644))
	must(os.WriteFile(shim, shimSrc, 0o644))
	ov := map[string]map[string]string{"Replace": {
		src: gen,
		filepath.Join(*repo, "serf", "verif_snapfs_generated.go"): shim,
	}}
	b, _ := json.MarshalIndent(ov, "", " ")
	must(os.WriteFile(filepath.Join(*out, "overlay.json"), b, 0o644))
	cj, _ := json.Marshal(counts)
	fmt.Printf("fsshim: rewrote %s: %s\n", src, cj)
}

func must(err error) {
	if err != nil {
		fmt.Fprintln(os.Stderr, "fsshim:", err)
		os.Exit(2)
	}
}
