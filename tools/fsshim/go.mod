module fsshim

go 1.25
