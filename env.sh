# Toolchain pinning for every /verif script (source me).
# /repo/go.mod needs go >= 1.25 (testing/synctest); the default `go` is older and
# cannot auto-switch offline, so pin the cached toolchain explicitly.
export GOFLAGS=-mod=mod GOPROXY=off GOSUMDB=off GOTOOLCHAIN=local GONOSUMDB='*' GONOSUMCHECK=1 GOFLAGS="-mod=mod"
export CARGO_NET_OFFLINE=true PIP_NO_INDEX=1
_tc=/root/go/pkg/mod/golang.org/toolchain@v0.0.1-go1.25.0.linux-amd64/bin
if [ -x "$_tc/go" ]; then
  export PATH="$_tc:$PATH"
elif [ -d /opt/veriftools/go1.26.8/bin ]; then
  export PATH="/opt/veriftools/go1.26.8/bin:$PATH"
fi
unset _tc
export VERIF_ROOT=/verif
export VERIF_REPO=${VERIF_REPO:-/repo}
# keep go's build cache out of /tmp so registered commands never depend on /tmp
export GOCACHE=${GOCACHE:-/root/.cache/go-build}
